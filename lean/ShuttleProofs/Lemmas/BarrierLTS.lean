import ShuttleModel.Prim.Barrier
import ShuttleProofs.Lemmas.CondvarBasic
/-
  C05 / Barrier: characterisation of the pure transitions of `ShuttleModel.BarrierState`, the LTS of
  one `Barrier` under a most general client, and its invariant.

  State `BarG`: the model's `BarrierState`, the ghost set `blocked` (set by the `block(false)` of a
  non-final arrival, cleared by the `Eff.unblock`s of the releasing arrival) and `susp`, the tasks
  suspended inside `wait` with the `my_epoch` local they carry.  A suspended task does nothing
  else; its tail (`takeLeader`) runs only when it is not blocked.  The releasing arrival runs the
  tail in the same atomic step (there is no scheduling point in between), so that step contributes
  two events.
-/
namespace ShuttleProofs.C05
open ShuttleModel ShuttleModel.BarrierState

/-! ### the pure transitions -/

theorem applyEffs_releaseEffs (clk : Nat → Clock) (c : Clock) (ts : List Nat) (b : Nat → Bool) (x : Nat) :
    applyEffs b (releaseEffs clk c ts) x = if x ∈ ts then false else b x := by
  induction ts generalizing b with
  | nil => simp [releaseEffs]
  | cons t ts ih =>
    simp only [releaseEffs, applyEffs_cons, ih, applyEff, List.mem_cons]
    by_cases h1 : x ∈ ts <;> by_cases h2 : x = t <;> simp [h1, h2]

theorem mem_releaseEffs (clk : Nat → Clock) (c : Clock) (ts : List Nat) (x : Nat) :
    Eff.unblock x ∈ releaseEffs clk c ts ↔ x ∈ ts := by
  induction ts with
  | nil => simp [releaseEffs]
  | cons t ts ih =>
    simp only [releaseEffs, List.mem_cons, ih]
    constructor
    · rintro (h | h | h)
      · cases h
      · injection h with h; exact Or.inl h
      · exact Or.inr h
    · rintro (h | h)
      · exact Or.inr (Or.inl (by rw [h]))
      · exact Or.inr (Or.inr h)

/-- `releaseEffs` contains no `block` -/
theorem not_block_mem_releaseEffs (clk : Nat → Clock) (c : Clock) (ts : List Nat) (x : Nat) :
    Eff.block x ∉ releaseEffs clk c ts := by
  induction ts with
  | nil => simp [releaseEffs]
  | cons t ts ih => simp [releaseEffs, ih]

/-- the two successful outcomes of `arrive` -/
theorem arrive_ok {s : BarrierState} {me : Nat} {c : Clock} {clk : Nat → Clock}
    {s' : BarrierState} {a : BarrierArrival} {effs : List Eff}
    (h : s.arrive me c clk = .ok (s', a, effs)) :
    me ∉ s.waiters ∧
    ((s.waiters.length + 1 < s.bound ∧ a = .blocked s.epoch ∧ effs = [] ∧
        s' = { s with clock := s.clock.update c, waiters := s.waiters ++ [me] }) ∨
     (¬ s.waiters.length + 1 < s.bound ∧ (s.waiters.length + 1 = s.bound ∨ s.bound = 0) ∧
        s.epoch ∉ s.leaderTokens ∧ a = .released s.epoch ∧
        effs = releaseEffs clk (s.clock.update c) (s.waiters ++ [me]) ∧
        s' = { s with clock := s.clock.update c, leaderTokens := s.leaderTokens ++ [s.epoch],
                      waiters := [], epoch := s.epoch + 1 })) := by
  unfold BarrierState.arrive at h
  simp only [List.contains_eq_mem, decide_eq_true_eq, List.length_append, List.length_cons,
    List.length_nil, Nat.zero_add] at h
  by_cases hm : me ∈ s.waiters
  · simp [hm] at h
  · refine ⟨hm, ?_⟩
    simp only [hm, if_false] at h
    by_cases hlt : s.waiters.length + 1 < s.bound
    · left
      simp only [hlt, if_true, Except.ok.injEq, Prod.mk.injEq] at h
      exact ⟨hlt, h.2.1.symm, h.2.2.symm, h.1.symm⟩
    · right
      simp only [hlt, if_false] at h
      by_cases hb : s.waiters.length + 1 = s.bound ∨ s.bound = 0
      · have hb' : (s.waiters.length + 1 == s.bound || s.bound == 0) = true := by
          rcases hb with hb | hb <;> simp [hb]
        simp only [hb', Bool.not_true, Bool.false_eq_true, if_false] at h
        by_cases ht : s.epoch ∈ s.leaderTokens
        · simp [ht] at h
        · simp only [ht, if_false, Except.ok.injEq, Prod.mk.injEq] at h
          exact ⟨hlt, hb, ht, h.2.1.symm, h.2.2.symm, h.1.symm⟩
      · have hb' : (s.waiters.length + 1 == s.bound || s.bound == 0) = false := by
          cases hx : (s.waiters.length + 1 == s.bound || s.bound == 0) with
          | false => rfl
          | true =>
            simp only [Bool.or_eq_true, beq_iff_eq] at hx
            exact absurd hx hb
        simp [hb'] at h

theorem arrive_blocked_of (s : BarrierState) (me : Nat) (c : Clock) (clk : Nat → Clock)
    (hm : me ∉ s.waiters) (hlt : s.waiters.length + 1 < s.bound) :
    s.arrive me c clk = .ok ({ s with clock := s.clock.update c, waiters := s.waiters ++ [me] },
      .blocked s.epoch, []) := by
  unfold BarrierState.arrive
  simp [hm, hlt]

theorem arrive_released_of (s : BarrierState) (me : Nat) (c : Clock) (clk : Nat → Clock)
    (hm : me ∉ s.waiters) (hlt : ¬ s.waiters.length + 1 < s.bound)
    (hb : s.waiters.length + 1 = s.bound ∨ s.bound = 0) (ht : s.epoch ∉ s.leaderTokens) :
    s.arrive me c clk = .ok ({ s with clock := s.clock.update c, leaderTokens := s.leaderTokens ++ [s.epoch],
                                      waiters := [], epoch := s.epoch + 1 },
      .released s.epoch, releaseEffs clk (s.clock.update c) (s.waiters ++ [me])) := by
  unfold BarrierState.arrive
  have hb' : (s.waiters.length + 1 == s.bound || s.bound == 0) = true := by
    rcases hb with hb | hb <;> simp [hb]
  simp [hm, hlt, hb', ht]

/-! ### the LTS -/

structure BarG where
  s : BarrierState
  blocked : Nat → Bool
  susp : List (Nat × Nat)

inductive BarEv where
  /-- task `t` arrived in generation `ep`; `released` = it completed the group -/
  | arrive (t : Nat) (ep : Nat) (released : Bool)
  /-- `wait` of task `t` (generation `ep`) returned `is_leader = leader` -/
  | ret (t : Nat) (ep : Nat) (leader : Bool)
deriving DecidableEq, Repr

/-- one atomic step; the events are listed newest first -/
inductive BarStep : BarG → List BarEv → BarG → Prop where
  | arriveBlocked {g : BarG} {t : Nat} {c : Clock} {clk : Nat → Clock} {s' : BarrierState} {ep : Nat}
      {effs : List Eff} :
      (∀ p ∈ g.susp, p.1 ≠ t) → g.s.arrive t c clk = .ok (s', .blocked ep, effs) →
      BarStep g [.arrive t ep false]
        ⟨s', fun x => if x = t then true else applyEffs g.blocked effs x, (t, ep) :: g.susp⟩
  | arriveRelease {g : BarG} {t : Nat} {c : Clock} {clk : Nat → Clock} {s' : BarrierState} {ep : Nat}
      {effs : List Eff} :
      (∀ p ∈ g.susp, p.1 ≠ t) → g.s.arrive t c clk = .ok (s', .released ep, effs) →
      BarStep g [.ret t ep (s'.takeLeader ep).2, .arrive t ep true]
        ⟨(s'.takeLeader ep).1, applyEffs g.blocked effs, g.susp⟩
  | resume {g : BarG} {t : Nat} {ep : Nat} :
      (t, ep) ∈ g.susp → g.blocked t = false →
      BarStep g [.ret t ep (g.s.takeLeader ep).2]
        ⟨(g.s.takeLeader ep).1, g.blocked, g.susp.filter (·.1 != t)⟩

def barInit (n : Nat) : BarG := ⟨{ bound := n }, fun _ => false, []⟩

inductive BarReach (n : Nat) : List BarEv → BarG → Prop where
  | init : BarReach n [] (barInit n)
  | step {h : List BarEv} {g : BarG} {evs : List BarEv} {g' : BarG} :
      BarReach n h g → BarStep g evs g' → BarReach n (evs ++ h) g'

/-- number of arrivals of generation `e` -/
def arrCount (e : Nat) (h : List BarEv) : Nat :=
  h.countP (fun ev => match ev with | .arrive _ e' _ => e' == e | _ => false)
/-- number of returns of generation `e` with `is_leader = true` -/
def leadCount (e : Nat) (h : List BarEv) : Nat :=
  h.countP (fun ev => match ev with | .ret _ e' l => e' == e && l | _ => false)
/-- size of a generation: `bound`, except that a barrier of bound 0 behaves like bound 1 -/
def groupSize (n : Nat) : Nat := if n = 0 then 1 else n

@[simp] theorem arrCount_nil (e : Nat) : arrCount e [] = 0 := rfl
@[simp] theorem leadCount_nil (e : Nat) : leadCount e [] = 0 := rfl
@[simp] theorem arrCount_arrive (e t e' : Nat) (b : Bool) (h : List BarEv) :
    arrCount e (.arrive t e' b :: h) = arrCount e h + (if e' = e then 1 else 0) := by
  simp [arrCount, List.countP_cons]
@[simp] theorem arrCount_ret (e t e' : Nat) (b : Bool) (h : List BarEv) :
    arrCount e (.ret t e' b :: h) = arrCount e h := by
  simp [arrCount]
@[simp] theorem leadCount_arrive (e t e' : Nat) (b : Bool) (h : List BarEv) :
    leadCount e (.arrive t e' b :: h) = leadCount e h := by
  simp [leadCount]
@[simp] theorem leadCount_ret (e t e' : Nat) (b : Bool) (h : List BarEv) :
    leadCount e (.ret t e' b :: h) = leadCount e h + (if e' = e ∧ b = true then 1 else 0) := by
  simp [leadCount, List.countP_cons]

structure BarInv (n : Nat) (h : List BarEv) (g : BarG) : Prop where
  bound : g.s.bound = n
  tokens : g.s.leaderTokens = []
  wlen : g.s.waiters.length ≤ n - 1
  wnodup : g.s.waiters.Nodup
  snodup : (g.susp.map (·.1)).Nodup
  susp_cases : ∀ p ∈ g.susp, (p.2 = g.s.epoch ∧ p.1 ∈ g.s.waiters ∧ g.blocked p.1 = true) ∨
      (p.2 < g.s.epoch ∧ g.blocked p.1 = false)
  w_susp : ∀ t ∈ g.s.waiters, (t, g.s.epoch) ∈ g.susp
  w_hist : ∀ t, t ∈ g.s.waiters ↔ BarEv.arrive t g.s.epoch false ∈ h
  arr_le : ∀ t e b, BarEv.arrive t e b ∈ h → e ≤ g.s.epoch ∧ (b = true → e < g.s.epoch)
  ret_lt : ∀ t e l, BarEv.ret t e l ∈ h → e < g.s.epoch
  cnt_cur : arrCount g.s.epoch h = g.s.waiters.length
  cnt_old : ∀ e, e < g.s.epoch → arrCount e h = groupSize n ∧ leadCount e h = 1
  lead_zero : ∀ e, g.s.epoch ≤ e → leadCount e h = 0

theorem barInv_init (n : Nat) : BarInv n [] (barInit n) := by
  constructor <;> simp [barInit]

theorem takeLeader_no_tokens {s : BarrierState} (h : s.leaderTokens = []) (ep : Nat) :
    s.takeLeader ep = (s, false) := by
  cases s
  simp only at h
  subst h
  simp [BarrierState.takeLeader]

theorem barInv_step {n : Nat} {h : List BarEv} {g : BarG} (I : BarInv n h g) {evs : List BarEv} {g' : BarG}
    (hs : BarStep g evs g') : BarInv n (evs ++ h) g' := by
  cases hs with
  | @arriveBlocked t c clk s' ep effs hns ha =>
    obtain ⟨hm, hcase⟩ := arrive_ok ha
    rcases hcase with ⟨hlt, hep, rfl, rfl⟩ | ⟨_, _, _, hep, _, _⟩
    · injection hep with hep
      subst hep
      have hbn := I.bound
      constructor
      · exact I.bound
      · exact I.tokens
      · simp only [List.length_append, List.length_cons, List.length_nil]
        omega
      · simp only
        rw [List.nodup_append]
        refine ⟨I.wnodup, by simp, ?_⟩
        intro x hx y hy
        simp only [List.mem_singleton] at hy
        subst hy
        intro hab; subst hab; exact hm hx
      · simp only [List.map_cons, List.nodup_cons]
        refine ⟨?_, I.snodup⟩
        intro hmem
        obtain ⟨p, hp, hpe⟩ := List.mem_map.1 hmem
        exact hns p hp hpe
      · intro p hp
        simp only [applyEffs_nil]
        rcases List.mem_cons.1 hp with rfl | hp
        · left; simp
        · have hne := hns p hp
          rcases I.susp_cases p hp with ⟨h1, h2, h3⟩ | ⟨h1, h2⟩
          · left; exact ⟨h1, List.mem_append_left _ h2, by simp [hne, h3]⟩
          · right; exact ⟨h1, by simp [hne, h2]⟩
      · intro x hx
        rcases List.mem_append.1 hx with hx | hx
        · exact List.mem_cons_of_mem _ (I.w_susp x hx)
        · simp only [List.mem_singleton] at hx
          subst hx
          exact List.mem_cons_self ..
      · intro x
        simp only [List.singleton_append]
        constructor
        · intro hx
          rcases List.mem_append.1 hx with hx | hx
          · exact List.mem_cons_of_mem _ ((I.w_hist x).1 hx)
          · simp only [List.mem_singleton] at hx
            subst hx
            exact List.mem_cons_self ..
        · intro hx
          rcases List.mem_cons.1 hx with hx | hx
          · injection hx with hx _ _
            subst hx
            exact List.mem_append_right _ (List.mem_singleton.2 rfl)
          · exact List.mem_append_left _ ((I.w_hist x).2 hx)
      · intro x e b hx
        simp only [List.singleton_append, List.mem_cons, BarEv.arrive.injEq] at hx
        rcases hx with ⟨_, rfl, rfl⟩ | hx
        · exact ⟨Nat.le_refl _, fun hb => by cases hb⟩
        · exact I.arr_le x e b hx
      · intro x e l hx
        simp only [List.singleton_append, List.mem_cons] at hx
        rcases hx with hx | hx
        · cases hx
        · exact I.ret_lt x e l hx
      · simp only [List.singleton_append, arrCount_arrive, if_true, I.cnt_cur,
          List.length_append, List.length_cons, List.length_nil]
      · intro e he
        dsimp only at he
        have := I.cnt_old e he
        simp only [List.singleton_append, arrCount_arrive, leadCount_arrive]
        have hne : ¬ g.s.epoch = e := by omega
        simp [hne, this]
      · intro e he
        simp only [List.singleton_append, leadCount_arrive]
        exact I.lead_zero e he
    · cases hep
  | @arriveRelease t c clk s' ep effs hns ha =>
    obtain ⟨hm, hcase⟩ := arrive_ok ha
    rcases hcase with ⟨_, hep, _, _⟩ | ⟨hlt, hb, _, hep, rfl, rfl⟩
    · cases hep
    · injection hep with hep
      subst hep
      have htl : BarrierState.takeLeader
          { g.s with clock := g.s.clock.update c, leaderTokens := g.s.leaderTokens ++ [g.s.epoch],
                     waiters := [], epoch := g.s.epoch + 1 } g.s.epoch =
          ({ g.s with clock := g.s.clock.update c, leaderTokens := [], waiters := [], epoch := g.s.epoch + 1 }, true) := by
        simp [BarrierState.takeLeader, I.tokens]
      rw [htl]
      have hbn := I.bound
      have hwl := I.wlen
      have hsize : g.s.waiters.length + 1 = groupSize n := by
        unfold groupSize
        rcases hb with hb | hb
        · have : n ≠ 0 := by omega
          rw [if_neg this]; omega
        · have : n = 0 := by omega
          rw [if_pos this]; omega
      constructor
      · exact I.bound
      · rfl
      · simp
      · simp
      · exact I.snodup
      · intro p hp
        right
        simp only
        rw [applyEffs_releaseEffs]
        rcases I.susp_cases p hp with ⟨h1, h2, _⟩ | ⟨h1, h2⟩
        · exact ⟨by omega, by simp [h2]⟩
        · refine ⟨by omega, ?_⟩
          by_cases hx : p.1 ∈ g.s.waiters ++ [t]
          · simp [hx]
          · simp [hx, h2]
      · intro x hx; cases hx
      · intro x
        simp only [List.not_mem_nil, false_iff]
        intro hx
        simp only [List.cons_append, List.nil_append, List.mem_cons] at hx
        rcases hx with hx | hx | hx
        · cases hx
        · injection hx with _ h2 _
          omega
        · have := (I.arr_le x _ _ hx).1
          omega
      · intro x e b hx
        simp only [List.cons_append, List.nil_append, List.mem_cons, BarEv.arrive.injEq] at hx
        rcases hx with hx | ⟨_, rfl, _⟩ | hx
        · cases hx
        · exact ⟨Nat.le_succ _, fun _ => Nat.lt_succ_self _⟩
        · have := I.arr_le x e b hx
          exact ⟨Nat.le_succ_of_le this.1, fun hb => Nat.lt_succ_of_lt (this.2 hb)⟩
      · intro x e l hx
        simp only [List.cons_append, List.nil_append, List.mem_cons, BarEv.ret.injEq] at hx
        rcases hx with ⟨_, rfl, _⟩ | hx | hx
        · exact Nat.lt_succ_self _
        · cases hx
        · exact Nat.lt_succ_of_lt (I.ret_lt x e l hx)
      · simp only [List.cons_append, List.nil_append, arrCount_ret, arrCount_arrive, List.length_nil]
        have hne : ¬ g.s.epoch = g.s.epoch + 1 := by omega
        simp only [hne, if_false, Nat.add_zero]
        -- no arrival of the next generation yet
        unfold arrCount
        rw [List.countP_eq_zero]
        intro ev hev
        cases ev with
        | arrive x e b =>
          have := (I.arr_le x e b hev).1
          simp; omega
        | ret x e l => simp
      · intro e he
        simp only [List.cons_append, List.nil_append, arrCount_ret, arrCount_arrive, leadCount_ret,
          leadCount_arrive]
        by_cases hee : e = g.s.epoch
        · subst hee
          simp only [if_true, and_self, I.cnt_cur, I.lead_zero _ (Nat.le_refl _)]
          exact ⟨hsize, trivial⟩
        · have hlt' : e < g.s.epoch := by dsimp only at he; omega
          have := I.cnt_old e hlt'
          have hne : ¬ g.s.epoch = e := fun h => hee h.symm
          simp [hne, this]
      · intro e he
        dsimp only at he
        simp only [List.cons_append, List.nil_append, leadCount_ret, leadCount_arrive]
        have hne : ¬ g.s.epoch = e := by omega
        simp only [hne, false_and, if_false, Nat.add_zero]
        exact I.lead_zero e (by omega)
  | @resume t ep hsu hb =>
    rw [takeLeader_no_tokens I.tokens]
    have hold : ep < g.s.epoch := by
      rcases I.susp_cases _ hsu with ⟨_, _, h3⟩ | ⟨h1, _⟩
      · simp only at h3; rw [hb] at h3; cases h3
      · exact h1
    constructor
    · exact I.bound
    · exact I.tokens
    · exact I.wlen
    · exact I.wnodup
    · exact List.Nodup.sublist (List.Sublist.map _ List.filter_sublist) I.snodup
    · intro p hp
      exact I.susp_cases p (List.mem_filter.1 hp).1
    · intro x hx
      refine List.mem_filter.2 ⟨I.w_susp x hx, ?_⟩
      simp only [bne_iff_ne, ne_eq]
      intro hxt
      subst hxt
      -- a waiter of the current generation is blocked
      rcases I.susp_cases _ (I.w_susp x hx) with ⟨_, _, h3⟩ | ⟨h1, _⟩
      · simp only at h3; rw [hb] at h3; cases h3
      · simp only at h1; omega
    · intro x
      rw [I.w_hist x]
      simp
    · intro x e b hx
      simp only [List.singleton_append, List.mem_cons] at hx
      rcases hx with hx | hx
      · cases hx
      · exact I.arr_le x e b hx
    · intro x e l hx
      simp only [List.singleton_append, List.mem_cons, BarEv.ret.injEq] at hx
      rcases hx with ⟨_, rfl, _⟩ | hx
      · exact hold
      · exact I.ret_lt x e l hx
    · simp only [List.singleton_append, arrCount_ret]
      exact I.cnt_cur
    · intro e he
      simp only [List.singleton_append, arrCount_ret, leadCount_ret]
      simpa using I.cnt_old e he
    · intro e he
      simp only [List.singleton_append, leadCount_ret]
      simpa using I.lead_zero e he

theorem barReach_inv {n : Nat} {h : List BarEv} {g : BarG} (hr : BarReach n h g) : BarInv n h g := by
  induction hr with
  | init => exact barInv_init n
  | step _ hs ih => exact barInv_step ih hs

/-! ### an executable presentation (for concrete reachable states) -/

inductive BarCmd where
  | arrive (t : Nat) (c : Clock)
  | resume (t : Nat)

def barDo (g : BarG) : BarCmd → Option (List BarEv × BarG)
  | .arrive t c =>
    if g.susp.all (fun p => p.1 != t) then
      match g.s.arrive t c (fun _ => Clock.new) with
      | .ok (s', .blocked ep, effs) =>
        some ([.arrive t ep false],
          ⟨s', fun x => if x = t then true else applyEffs g.blocked effs x, (t, ep) :: g.susp⟩)
      | .ok (s', .released ep, effs) =>
        some ([.ret t ep (s'.takeLeader ep).2, .arrive t ep true],
          ⟨(s'.takeLeader ep).1, applyEffs g.blocked effs, g.susp⟩)
      | .error _ => none
    else none
  | .resume t =>
    match g.susp.find? (fun p => p.1 == t) with
    | some (t', ep) =>
      if t' = t ∧ g.blocked t = false then
        some ([.ret t ep (g.s.takeLeader ep).2], ⟨(g.s.takeLeader ep).1, g.blocked, g.susp.filter (·.1 != t)⟩)
      else none
    | none => none

theorem barDo_sound {g : BarG} {cmd : BarCmd} {evs : List BarEv} {g' : BarG}
    (h : barDo g cmd = some (evs, g')) : BarStep g evs g' := by
  cases cmd with
  | arrive t c =>
    simp only [barDo] at h
    split at h
    · rename_i hall
      have hns : ∀ p ∈ g.susp, p.1 ≠ t := by
        intro p hp
        have := List.all_eq_true.1 hall p hp
        simpa using this
      split at h
      · rename_i s' ep effs ha
        simp only [Option.some.injEq, Prod.mk.injEq] at h
        obtain ⟨rfl, rfl⟩ := h
        exact BarStep.arriveBlocked hns ha
      · rename_i s' ep effs ha
        simp only [Option.some.injEq, Prod.mk.injEq] at h
        obtain ⟨rfl, rfl⟩ := h
        exact BarStep.arriveRelease hns ha
      · cases h
    · cases h
  | resume t =>
    simp only [barDo] at h
    split at h
    · rename_i t' ep hf
      split at h
      · rename_i hc
        obtain ⟨rfl, hb⟩ := hc
        simp only [Option.some.injEq, Prod.mk.injEq] at h
        obtain ⟨rfl, rfl⟩ := h
        exact BarStep.resume (List.mem_of_find?_eq_some hf) hb
      · cases h
    · cases h

def barRun : BarG → List BarEv → List BarCmd → Option (List BarEv × BarG)
  | g, h, [] => some (h, g)
  | g, h, c :: cs =>
    match barDo g c with
    | some (evs, g') => barRun g' (evs ++ h) cs
    | none => none

theorem barRun_reach {n : Nat} {cmds : List BarCmd} {g : BarG} {h : List BarEv} (hr : BarReach n h g)
    {h' : List BarEv} {g' : BarG} (hrun : barRun g h cmds = some (h', g')) : BarReach n h' g' := by
  induction cmds generalizing g h with
  | nil =>
    simp only [barRun, Option.some.injEq, Prod.mk.injEq] at hrun
    obtain ⟨rfl, rfl⟩ := hrun
    exact hr
  | cons c cs ih =>
    simp only [barRun] at hrun
    split at hrun
    · rename_i evs g1 hd
      exact ih (BarReach.step hr (barDo_sound hd)) hrun
    · cases hrun

end ShuttleProofs.C05
