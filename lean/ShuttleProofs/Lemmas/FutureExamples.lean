import ShuttleProofs.Lemmas.FutureKernelLoop
/-!
# C17 helpers: concrete programs for the non-vacuity examples of the kernel-level theorems, and a computable
iteration of the loop body (`iterate`) to exhibit reachable loop heads
-/

namespace ShuttleProofs.C17
open ShuttleModel ShuttleProofs.Kernel

variable {P : Program} {σ : Type}

/-- `n` continuing iterations of the loop body -/
def iterate (S : Scheduler σ) (segFuel : Nat) : Nat → ExecState P σ → Option (ExecState P σ)
  | 0, st => some st
  | n + 1, st =>
    match loopStep S segFuel st with
    | .inr st' => iterate S segFuel n st'
    | .inl _ => none

theorem iterate_reachN {S : Scheduler σ} {segFuel : Nat} :
    ∀ {n : Nat} {st st' : ExecState P σ}, iterate S segFuel n st = some st' → ReachN S segFuel n st st'
  | 0, st, st', h => by
    simp only [iterate, Option.some.injEq] at h
    subst h
    exact .refl _
  | n + 1, st, st', h => by
    simp only [iterate] at h
    cases hs : loopStep S segFuel st with
    | inl r => rw [hs] at h; cases h
    | inr st1 =>
      rw [hs] at h
      exact .head hs (iterate_reachN h)

/-- a program whose shared state is one number -/
def mkProg (bodies : Nat → Prog Nat Unit) : Program := { U := Nat, init := 0, bodies := bodies }

/-- the shared number -/
def uVal {b : Nat → Prog Nat Unit} {σ : Type} (st : ExecState (mkProg b) σ) : Nat := st.u

/-- what the examples observe of a task -/
def obsTask (k : Kernel) (i : Nat) : Option (TState × Bool × Bool) :=
  (k.tasks[i]?).map (fun tk => (tk.state, tk.woken, tk.detached))

/-- the only task invokes its own waker (as `yield_now` does inside `poll`), "returns `Pending`"
(`sleep_unless_woken(); switch()`), is polled again, returns `Pending` again — this time nobody woke it -/
def exSelfWake : Program :=
  mkProg fun _ => do
      Prog.lift (.wake 0)
      Prog.lift .sleepUnlessWoken
      Prog.lift .switch
      Prog.lift (.setU 1)
      Prog.lift .sleepUnlessWoken
      Prog.lift .switch
      Prog.lift (.setU 2)
      pure ()

/-- main spawns a task that returns `Pending` once with nobody holding its waker; main optionally detaches it
(drops the `JoinHandle`) and ends -/
def exPending (detach : Bool) : Program :=
  mkProg fun i => match i with
      | 0 => do
        let c ← Prog.lift (.spawn true 1)
        if detach then Prog.lift (.detach c) else pure ()
        Prog.lift .switch
        pure ()
      | _ => do
        Prog.lift .sleepUnlessWoken
        Prog.lift .switch
        Prog.lift (.setU 7)
        pure ()

/-- the child returns `Pending`; later main invokes the child's waker; the child is polled again and completes -/
def exWakeOther : Program :=
  mkProg fun i => match i with
      | 0 => do
        let c ← Prog.lift (.spawn true 1)
        Prog.lift .switch
        Prog.lift (.wake c)
        Prog.lift .switch
        pure ()
      | _ => do
        Prog.lift .sleepUnlessWoken
        Prog.lift .switch
        Prog.lift (.setU 7)
        pure ()

/-- main invokes the child's waker *before* the child's `sleep_unless_woken` (a wake "during the poll") -/
def exWakeEarly : Program :=
  mkProg fun i => match i with
      | 0 => do
        let c ← Prog.lift (.spawn true 1)
        Prog.lift (.wake c)
        Prog.lift .switch
        pure ()
      | _ => do
        Prog.lift .sleepUnlessWoken
        Prog.lift .switch
        Prog.lift (.setU 7)
        pure ()

/-- a state in which the execution has ended (`current_task = Finished`) with one finished and one sleeping task -/
def exEndedState (P : Program) : ExecState P Unit :=
  { k := { tasks := [{ state := .finished }, { state := .sleeping }], current := .finished },
    u := P.init, conts := [.pure (), .pure ()], sch := () }

end ShuttleProofs.C17
