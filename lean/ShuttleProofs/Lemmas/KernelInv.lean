import ShuttleProofs.Lemmas.KernelLoop
/-!
# Kernel lemmas, part 6: exact description of one loop iteration (`IterSpec`) and the loop-head invariant
-/

namespace ShuttleProofs.Kernel
open ShuttleModel

variable {P : Program} {σ : Type}

/-- the kernel in which task `t`'s segment starts after a consultation in `k0` that chose `t`
(`ts` = `k0.tasks`, except that a spuriously woken `t` has been unblocked) -/
def chosenK (k0 : Kernel) (ts : List Task) (t : Nat) : Kernel :=
  { atConsult k0 with tasks := ts, current := .some t, next := .none, schedRev := .task t :: k0.schedRev }

/-- the kernel after `schedule()` + `advance_to_next_task()` ended the execution with `c` -/
def endedK (k : Kernel) (c : Cur) : Kernel := { k with current := c, next := .none }

/-- tasks after the `unblock()` of a spuriously woken task -/
def wokenTasks (k0 : Kernel) (t : Nat) : List Task :=
  match k0.tasks[t]? with
  | some tk => if tk.runnable then k0.tasks else k0.tasks.set t { tk with state := .runnable, blockedInPark := false }
  | none => k0.tasks

/-- state in which the chosen task's segment starts -/
def segStart (st : ExecState P σ) (t : Nat) (s' : σ) : ExecState P σ :=
  { st with k := chosenK st.k (wokenTasks st.k t) t, sch := s', log := st.log.push (decEv st.k (some t)) }

/-- Everything one iteration of `run_to_completion` can do from a loop head `st` (with `next_task = None` and
one continuation per task). -/
inductive IterSpec (S : Scheduler σ) (segFuel : Nat) (st : ExecState P σ) :
    Result P σ ⊕ ExecState P σ → Prop
  | boundFail (n : Nat) : st.k.maxSteps = .failAfter n → st.k.stepBoundExceeded n = true →
      IterSpec S segFuel st (.inl ⟨.stepBoundFail n, { st with k := bump st.k }⟩)
  | boundStop (n : Nat) : st.k.maxSteps = .continueAfter n → st.k.stepBoundExceeded n = true →
      IterSpec S segFuel st (.inl ⟨.abandoned, { st with k := endedK (bump st.k) .stopped }⟩)
  | deadlock : BoundOK st.k → endsHere st.k = true → st.k.unfinishedAttached = true →
      IterSpec S segFuel st
        (.inl ⟨.deadlock st.k.deadlockList, { st with k := endedK (bump st.k) .finished }⟩)
  | ok : BoundOK st.k → endsHere st.k = true → st.k.unfinishedAttached = false →
      IterSpec S segFuel st (.inl ⟨.ok, { st with k := endedK (bump st.k) .finished }⟩)
  | schedPanic (msg : String) (s' : σ) : Consults st.k → ask S st.k st.sch = (.panic msg, s') →
      IterSpec S segFuel st (.inl ⟨.schedPanic msg, { st with k := atConsult st.k, sch := s' }⟩)
  | choseBad (t : Nat) (msg : String) (s' : σ) : Consults st.k →
      ask S st.k st.sch = (.choose (some t), s') → t ∉ st.k.offered →
      IterSpec S segFuel st (.inl ⟨.schedPanic msg, { st with k := atConsult st.k, sch := s' }⟩)
  | choseNone (s' : σ) : Consults st.k → ask S st.k st.sch = (.choose none, s') →
      IterSpec S segFuel st
        (.inl ⟨.stopped, { st with k := endedK (atConsult st.k) .stopped, sch := s',
                                    log := st.log.push (decEv st.k none) }⟩)
  | chose (t : Nat) (s' : σ) (p : Prog P.U Unit) : Consults st.k →
      ask S st.k st.sch = (.choose (some t), s') → t ∈ st.k.offered → st.conts[t]? = some p →
      IterSpec S segFuel st (finishSeg t (runSegment S t segFuel (segStart st t s') p))

theorem wokenTasks_length (k0 : Kernel) (t : Nat) : (wokenTasks k0 t).length = k0.tasks.length := by
  unfold wokenTasks
  split
  · split <;> simp
  · rfl

theorem byBound_some (k : Kernel) (e : Ev) : byBound k (some e) = false := by
  unfold byBound
  split <;> simp

theorem advance_stopped (k : Kernel) : Kernel.advance { k with next := .stopped } = endedK k .stopped := rfl
theorem advance_finished (k : Kernel) : Kernel.advance { k with next := .finished } = endedK k .finished := rfl
theorem advance_some (k : Kernel) (t : Nat) : Kernel.advance { k with next := .some t } =
    { k with current := .some t, next := .none, schedRev := .task t :: k.schedRev } := rfl
theorem endedK_current (k : Kernel) (c : Cur) : (endedK k c).current = c := rfl

theorem loopStep_spec (S : Scheduler σ) (segFuel : Nat) (st : ExecState P σ) (hn : st.k.next = .none)
    (hc : st.conts.length = st.k.tasks.length) : IterSpec S segFuel st (loopStep S segFuel st) := by
  have hs := schedule_spec S st.k st.sch
  unfold loopStep
  generalize st.k.schedule S st.sch = r at hs
  cases hs with
  | already h => exact absurd hn h
  | boundFail n h1 h2 h3 =>
    have hm : (bump st.k).maxSteps = .failAfter n := h2
    simp only [hm]
    exact IterSpec.boundFail n h2 h3
  | boundStop n h1 h2 h3 =>
    have hb : byBound (endedK (bump st.k) .stopped) none = true := by
      have hm : (endedK (bump st.k) .stopped).maxSteps = .continueAfter n := h2
      have he : (endedK (bump st.k) .stopped).stepBoundExceeded n = true := h3
      simp only [byBound, hm, he, Bool.and_self]
    simp only [afterOk, afterSched, advance_stopped, endedK_current, hb, if_true]
    exact IterSpec.boundStop n h2 h3
  | finished h1 h2 h3 =>
    simp only [afterOk, afterSched, advance_finished, endedK_current]
    cases hu : st.k.unfinishedAttached
    · have hu' : Kernel.unfinishedAttached (endedK (bump st.k) .finished) = false := hu
      simp only [hu', Bool.false_eq_true, if_false]
      exact IterSpec.ok h2 h3 hu
    · have hu' : Kernel.unfinishedAttached (endedK (bump st.k) .finished) = true := hu
      simp only [hu', if_true]
      exact IterSpec.deadlock h2 h3 hu
  | schedPanic msg s' h1 h2 => exact IterSpec.schedPanic msg s' h1 h2
  | choseNone s' h1 h2 =>
    simp only [afterOk, afterSched, advance_stopped, endedK_current, byBound_some, Bool.false_eq_true, if_false]
    exact IterSpec.choseNone s' h1 h2
  | choseBad t msg s' h1 h2 h3 => exact IterSpec.choseBad t msg s' h1 h2 h3
  | choseRunnable t tk s' h1 h2 h3 h4 =>
    have hmem : t ∈ st.k.offered := mem_offered.mpr ⟨tk, h3, Or.inl h4⟩
    have hlt : t < st.conts.length := by
      rw [hc]; exact (List.getElem?_eq_some_iff.mp h3).1
    have hw : wokenTasks st.k t = st.k.tasks := by simp [wokenTasks, h3, h4]
    simp only [afterOk, afterSched, advance_some, List.getElem?_eq_getElem hlt]
    have := IterSpec.chose (S := S) (segFuel := segFuel) t s' st.conts[t] h1 h2 hmem
      (List.getElem?_eq_getElem hlt)
    simp only [segStart, chosenK, hw] at this
    exact this
  | choseSpurious t tk s' h1 h2 h3 h4 =>
    have hsp := (Task.canSpuriouslyWakeup_iff tk).mpr h4
    have hmem : t ∈ st.k.offered := mem_offered.mpr ⟨tk, h3, Or.inr hsp⟩
    have hlt : t < st.conts.length := by
      rw [hc]; exact (List.getElem?_eq_some_iff.mp h3).1
    have hw : wokenTasks st.k t = st.k.tasks.set t { tk with state := .runnable, blockedInPark := false } := by
      simp [wokenTasks, h3, Task.spurious_not_runnable tk hsp]
    simp only [afterOk, afterSched, advance_some, List.getElem?_eq_getElem hlt]
    have := IterSpec.chose (S := S) (segFuel := segFuel) t s' st.conts[t] h1 h2 hmem
      (List.getElem?_eq_getElem hlt)
    simp only [segStart, chosenK, hw] at this
    exact this

/-! ### inversion: an iteration that continues -/

theorem IterSpec.inr_inv {S : Scheduler σ} {segFuel : Nat} {st b : ExecState P σ}
    {x : Result P σ ⊕ ExecState P σ} (h : IterSpec S segFuel st x) (hx : x = .inr b) :
    ∃ t s' p, Consults st.k ∧ ask S st.k st.sch = (.choose (some t), s') ∧ t ∈ st.k.offered ∧
      st.conts[t]? = some p ∧ finishSeg t (runSegment S t segFuel (segStart st t s') p) = .inr b := by
  cases h with
  | chose t s' p h1 h2 h3 h4 => exact ⟨t, s', p, h1, h2, h3, h4, hx⟩
  | _ => cases hx

theorem finishSeg_inr {t : Nat} {e : SegEnd P σ} {b : ExecState P σ} (h : finishSeg t e = .inr b) :
    (e = .atSwitch e.st ∨ e = .returned e.st) ∧
      ∃ ts, ts.length = e.st.k.tasks.length ∧ b = { e.st with k := { e.st.k with tasks := ts } } := by
  cases e with
  | atSwitch st' =>
    simp only [finishSeg, Sum.inr.injEq] at h
    subst h
    exact ⟨Or.inl rfl, st'.k.tasks, rfl, rfl⟩
  | returned st' =>
    simp only [finishSeg] at h
    cases hm : st'.k.modTask t (fun x => x.finish) with
    | error e => rw [hm] at h; cases h
    | ok k' =>
      rw [hm] at h
      simp only [Sum.inr.injEq] at h
      obtain ⟨tk, tk', _, _, rfl⟩ := modTask_ok hm
      subst h
      exact ⟨Or.inr rfl, st'.k.tasks.set t tk', by simp [SegEnd.st], rfl⟩
  | panicked msg st' => cases h
  | schedPanic msg st' => cases h
  | outOfFuel st' => cases h
  | aborted msg st' => cases h

/-- replacing the task list by one of the same length -/
theorem SegFrame.setTasks (me : Nat) (st : ExecState P σ) (ts : List Task) (hl : ts.length = st.k.tasks.length) :
    SegFrame me st { st with k := { st.k with tasks := ts } } :=
  ⟨rfl, rfl, rfl, rfl, rfl, Nat.le_of_eq hl.symm, fun _ h => by simpa [hl] using h, Nat.le_refl _,
    fun h => h, fun h => h⟩

/-- **Shape of a continuing iteration.** The scheduler was consulted, chose an offered task `t`, `t`'s segment
ran from `segStart st t s'` and ended at a `switch` or by returning; the next loop head `b` differs from the
segment's final state at most in task fields. -/
theorem iter_inr {S : Scheduler σ} {segFuel : Nat} {st b : ExecState P σ} (hn : st.k.next = .none)
    (hc : st.conts.length = st.k.tasks.length) (h : loopStep S segFuel st = .inr b) :
    ∃ t s' p e, Consults st.k ∧ ask S st.k st.sch = (.choose (some t), s') ∧ t ∈ st.k.offered ∧
      st.conts[t]? = some p ∧ e = runSegment S t segFuel (segStart st t s') p ∧
      SegTrace S t (segStart st t s') p e ∧ (e = .atSwitch e.st ∨ e = .returned e.st) ∧
      ∃ ts, ts.length = e.st.k.tasks.length ∧ b = { e.st with k := { e.st.k with tasks := ts } } := by
  have hs := loopStep_spec S segFuel st hn hc
  obtain ⟨t, s', p, h1, h2, h3, h4, h5⟩ := hs.inr_inv h
  obtain ⟨h6, h7⟩ := finishSeg_inr h5
  exact ⟨t, s', p, _, h1, h2, h3, h4, rfl, runSegment_trace S t segFuel _ p, h6, h7⟩

theorem iter_frame {S : Scheduler σ} {segFuel : Nat} {st b : ExecState P σ} (hn : st.k.next = .none)
    (hc : st.conts.length = st.k.tasks.length) (h : loopStep S segFuel st = .inr b) :
    ∃ t s', Consults st.k ∧ ask S st.k st.sch = (.choose (some t), s') ∧ t ∈ st.k.offered ∧
      SegFrame t (segStart st t s') b ∧ SegLog [] (segStart st t s') b := by
  obtain ⟨t, s', p, e, h1, h2, h3, _, _, htr, hend, ts, hl, rfl⟩ := iter_inr hn hc h
  refine ⟨t, s', h1, h2, h3, htr.frame.trans (SegFrame.setTasks t e.st ts hl), ?_⟩
  have hlog : SegLog [] (segStart st t s') e.st := by
    apply htr.log_of_not_schedPanic
    intro msg st' he
    rcases hend with h | h <;> rw [he] at h <;> cases h
  exact hlog.trans (SegLog.of_eq rfl rfl)

theorem mem_offered_lt {k : Kernel} {t : Nat} (h : t ∈ k.offered) : t < k.tasks.length := by
  obtain ⟨tk, h1, _⟩ := mem_offered.mp h
  exact (List.getElem?_eq_some_iff.mp h1).1

/-! ### the last choice recorded in a log -/

def choiceStep (acc : Option Nat) (ev : Ev) : Option Nat :=
  match ev with
  | .dec _ _ _ ch => ch
  | _ => acc

/-- the answer of the most recent consultation in the log (`none` if there is none) -/
def lastChoice (l : List Ev) : Option Nat := l.foldl choiceStep none

theorem foldl_choiceStep_nodec (evs : List Ev) (h : ∀ ev ∈ evs, isDec ev = false) (acc : Option Nat) :
    evs.foldl choiceStep acc = acc := by
  induction evs generalizing acc with
  | nil => rfl
  | cons ev evs ih =>
    have h1 : isDec ev = false := h ev (List.mem_cons_self)
    have : choiceStep acc ev = acc := by
      cases ev <;> first | rfl | (simp [isDec] at h1)
    rw [List.foldl_cons, this]
    exact ih (fun e he => h e (List.mem_cons_of_mem _ he)) acc

theorem lastChoice_append_nodec (l evs : List Ev) (h : ∀ ev ∈ evs, isDec ev = false) :
    lastChoice (l ++ evs) = lastChoice l := by
  unfold lastChoice
  rw [List.foldl_append]
  exact foldl_choiceStep_nodec evs h _

theorem lastChoice_append_dec (l : List Ev) (o : List Nat) (c : Option Nat) (y : Bool) (ch : Option Nat) :
    lastChoice (l ++ [.dec o c y ch]) = ch := by
  unfold lastChoice
  rw [List.foldl_append]
  rfl

/-! ### the loop-head invariant -/

structure LoopInv (ms : MaxSteps) (st : ExecState P σ) : Prop where
  next : st.k.next = .none
  maxSteps : st.k.maxSteps = ms
  conts : st.conts.length = st.k.tasks.length
  /-- `current_task` is what the last consultation answered -/
  cur : st.k.current.id = lastChoice st.log.toList
  /-- the execution has not been declared finished/stopped -/
  live : st.k.current ≠ .stopped ∧ st.k.current ≠ .finished
  /-- the recorded schedule is the projection of the log -/
  record : st.k.schedRev.reverse = logSteps st.log.toList
  reset : st.k.stepsResetAt ≤ st.k.schedLen
  /-- no consultation so far answered `None` -/
  noNone : ∀ ev ∈ st.log.toList, ∀ o c y, ev ≠ .dec o c y none

theorem LoopInv.init (P : Program) {σ : Type} (ms : MaxSteps) (seed : Nat) (s : σ) :
    LoopInv ms (initState P ms seed s) := by
  refine ⟨rfl, rfl, ?_, rfl, ⟨by simp [initState, Kernel.spawnTask], by simp [initState, Kernel.spawnTask]⟩,
    rfl, Nat.le_refl _, ?_⟩
  · simp [initState, Kernel.spawnTask]
  · intro ev hev
    simp [initState] at hev

theorem LoopInv.step {S : Scheduler σ} {segFuel : Nat} {ms : MaxSteps} {a b : ExecState P σ}
    (hi : LoopInv ms a) (h : loopStep S segFuel a = .inr b) : LoopInv ms b := by
  obtain ⟨t, s', _, _, hmem, hf, evs, hlog, hnd, hsr⟩ := iter_frame hi.next hi.conts h
  have hlog' : b.log.toList = a.log.toList ++ [decEv a.k (some t)] ++ evs := by
    rw [hlog]; simp [segStart]
  refine ⟨hf.next, hf.maxSteps.trans hi.maxSteps, ?_, ?_, ?_, ?_, ?_, ?_⟩
  · exact hf.conts (by simpa [segStart, chosenK, wokenTasks_length] using mem_offered_lt hmem)
      (by simpa [segStart, chosenK, wokenTasks_length] using hi.conts)
  · rw [hf.current, hlog', lastChoice_append_nodec _ _ hnd]
    unfold decEv
    rw [lastChoice_append_dec]
    rfl
  · rw [hf.current]
    exact ⟨by simp [segStart, chosenK], by simp [segStart, chosenK]⟩
  · rw [hsr, hlog', logSteps_append, logSteps_append, ← hi.record]
    simp [segStart, chosenK, logSteps, decEv, evSteps]
  · apply hf.reset
    have := hi.reset
    simp only [segStart, chosenK, atConsult, bump, Kernel.schedLen, List.length_cons] at this ⊢
    omega
  · intro ev hev o c y
    rw [hlog'] at hev
    rcases List.mem_append.mp hev with hev | hev
    · rcases List.mem_append.mp hev with hev | hev
      · exact hi.noNone ev hev o c y
      · simp only [List.mem_singleton] at hev
        rw [hev]; simp [decEv]
    · intro heq
      have := hnd ev hev
      rw [heq] at this
      simp [isDec] at this

theorem LoopInv.reach {S : Scheduler σ} {segFuel : Nat} {ms : MaxSteps} {a b : ExecState P σ}
    (hi : LoopInv ms a) (h : Reach S segFuel a b) : LoopInv ms b :=
  h.invariant (LoopInv ms) (fun _ _ hi hs => hi.step hs) hi

end ShuttleProofs.Kernel
