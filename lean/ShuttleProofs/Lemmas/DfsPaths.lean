import ShuttleProofs.Lemmas.DfsTree

/-! Facts about `paths`: membership, no duplicates, depth truncation. -/

namespace ShuttleProofs.Dfs

/-- `p` is a maximal root-to-leaf choice sequence of `t`. -/
inductive IsPath : Tree → List Nat → Prop
  | leaf : IsPath .leaf []
  | node {kids : Forest} {c : Nat} {t : Tree} {q : List Nat} :
      (c, t) ∈ kids → IsPath t q → IsPath (.node kids) (c :: q)

theorem mem_pathsF {p : List Nat} : ∀ {ks : Forest},
    p ∈ pathsF ks ↔ ∃ c t q, (c, t) ∈ ks ∧ q ∈ paths t ∧ p = c :: q
  | [] => by simp [pathsF]
  | (c, t) :: rest => by
    simp only [pathsF, List.mem_append, List.mem_map, mem_pathsF (ks := rest), List.mem_cons]
    constructor
    · rintro (⟨q, hq, rfl⟩ | ⟨c', t', q, hm, hq, rfl⟩)
      · exact ⟨c, t, q, Or.inl rfl, hq, rfl⟩
      · exact ⟨c', t', q, Or.inr hm, hq, rfl⟩
    · rintro ⟨c', t', q, hm | hm, hq, rfl⟩
      · cases hm; exact Or.inl ⟨q, hq, rfl⟩
      · exact Or.inr ⟨c', t', q, hm, hq, rfl⟩

theorem head_mem_of_mem_pathsF {p : List Nat} {ks : Forest} (h : p ∈ pathsF ks) :
    ∃ c q, p = c :: q ∧ c ∈ ks.map (·.1) := by
  obtain ⟨c, t, q, hm, _, rfl⟩ := mem_pathsF.1 h
  exact ⟨c, q, rfl, List.mem_map.2 ⟨(c, t), hm, rfl⟩⟩

theorem mem_paths_of_isPath {t : Tree} {p : List Nat} (h : IsPath t p) : p ∈ paths t := by
  induction h with
  | leaf => simp [paths]
  | node hm _ ih => simp only [paths]; exact mem_pathsF.2 ⟨_, _, _, hm, ih, rfl⟩

mutual
theorem isPath_of_mem_paths : (t : Tree) → ∀ p, p ∈ paths t → IsPath t p
  | .leaf, p, h => by simp [paths] at h; subst h; exact .leaf
  | .node kids, p, h => by
    simp only [paths] at h
    obtain ⟨c, t, q, hm, hq, rfl⟩ := isPath_of_mem_pathsF kids p h
    exact .node hm hq
theorem isPath_of_mem_pathsF : (ks : Forest) → ∀ p, p ∈ pathsF ks →
    ∃ c t q, (c, t) ∈ ks ∧ IsPath t q ∧ p = c :: q
  | [], p, h => by simp [pathsF] at h
  | (c, t) :: rest, p, h => by
    simp only [pathsF, List.mem_append, List.mem_map] at h
    rcases h with ⟨q, hq, rfl⟩ | h
    · exact ⟨c, t, q, by simp, isPath_of_mem_paths t q hq, rfl⟩
    · obtain ⟨c', t', q, hm, hq, rfl⟩ := isPath_of_mem_pathsF rest p h
      exact ⟨c', t', q, by simp [hm], hq, rfl⟩
end

theorem isPath_iff (t : Tree) (p : List Nat) : IsPath t p ↔ p ∈ paths t :=
  ⟨mem_paths_of_isPath, isPath_of_mem_paths t p⟩

mutual
theorem paths_ne_nil : (t : Tree) → t.WF → paths t ≠ []
  | .leaf, _ => by simp [paths]
  | .node [], h => by simp [Tree.WF] at h
  | .node ((c, t) :: rest), h => by
    simp only [Tree.WF, WFF] at h
    have := paths_ne_nil t h.2.2.1
    simp [paths, pathsF, this]
end

mutual
theorem nodup_paths : (t : Tree) → t.WF → (paths t).Nodup
  | .leaf, _ => by simp [paths]
  | .node kids, h => by
    simp only [Tree.WF] at h
    simp only [paths]; exact nodup_pathsF kids h.2.1 h.2.2
theorem nodup_pathsF : (ks : Forest) → (ks.map (·.1)).Nodup → WFF ks → (pathsF ks).Nodup
  | [], _, _ => by simp [pathsF]
  | (c, t) :: rest, hnd, hwf => by
    simp only [WFF] at hwf
    simp only [List.map_cons, List.nodup_cons] at hnd
    simp only [pathsF]
    refine List.nodup_append.2 ⟨?_, nodup_pathsF rest hnd.2 hwf.2, ?_⟩
    · exact List.Pairwise.map _ (fun a b hab h => hab (List.cons.inj h).2) (nodup_paths t hwf.1)
    · intro a ha b hb hab
      obtain ⟨q, _, rfl⟩ := List.mem_map.1 ha
      obtain ⟨c', q', rfl, hc'⟩ := head_mem_of_mem_pathsF hb
      cases hab
      exact hnd.1 hc'
end

/-! ### Depth truncation (`MaxSteps::ContinueAfter(n)`: the execution is cut after `n` decisions) -/

mutual
/-- depth-`n` cut: nodes at depth `n` become leaves -/
def truncate : Nat → Tree → Tree
  | _, .leaf => .leaf
  | 0, .node _ => .leaf
  | n + 1, .node kids => .node (truncateF n kids)
def truncateF : Nat → Forest → Forest
  | _, [] => []
  | n, (c, t) :: rest => (c, truncate n t) :: truncateF n rest
end

theorem truncateF_ids (n : Nat) : ∀ ks : Forest, (truncateF n ks).map (·.1) = ks.map (·.1)
  | [] => by simp [truncateF]
  | (c, t) :: rest => by simp [truncateF, truncateF_ids n rest]

mutual
theorem truncate_wf : (t : Tree) → ∀ n, t.WF → (truncate n t).WF
  | .leaf, n, _ => by cases n <;> simp [truncate, Tree.WF]
  | .node kids, 0, _ => by simp [truncate, Tree.WF]
  | .node kids, n + 1, h => by
    simp only [Tree.WF] at h
    simp only [truncate, Tree.WF, truncateF_ids]
    refine ⟨?_, h.2.1, truncateF_wf kids n h.2.2⟩
    intro he
    have := congrArg (List.map (·.1)) he
    rw [truncateF_ids] at this
    simp at this; exact h.1 this
theorem truncateF_wf : (ks : Forest) → ∀ n, WFF ks → WFF (truncateF n ks)
  | [], n, _ => by simp [truncateF, WFF]
  | (c, t) :: rest, n, h => by
    simp only [WFF] at h
    simp only [truncateF, WFF]
    exact ⟨truncate_wf t n h.1, truncateF_wf rest n h.2⟩
end

/-- keep the first occurrence of every element, preserving order -/
def dedup {α : Type} [DecidableEq α] : List α → List α
  | [] => []
  | x :: xs => x :: (dedup xs).filter (fun y => decide (y ≠ x))

section dedup
variable {α β : Type} [DecidableEq α] [DecidableEq β]

theorem mem_dedup {a : α} : ∀ {l : List α}, a ∈ dedup l ↔ a ∈ l
  | [] => by simp [dedup]
  | x :: xs => by
    simp only [dedup, List.mem_cons, List.mem_filter, mem_dedup (l := xs), decide_eq_true_eq]
    by_cases h : a = x <;> simp [h]

theorem nodup_dedup : ∀ l : List α, (dedup l).Nodup
  | [] => by simp [dedup]
  | x :: xs => by
    simp only [dedup, List.nodup_cons, List.mem_filter, decide_eq_true_eq]
    exact ⟨fun h => h.2 rfl, (nodup_dedup xs).sublist List.filter_sublist⟩

theorem dedup_append_disjoint : ∀ (l1 l2 : List α), (∀ a, a ∈ l1 → a ∉ l2) →
    dedup (l1 ++ l2) = dedup l1 ++ dedup l2
  | [], l2, _ => by simp [dedup]
  | x :: l1, l2, h => by
    have ih := dedup_append_disjoint l1 l2 (fun a ha => h a (by simp [ha]))
    have hx : x ∉ dedup l2 := fun hm => h x (by simp) (mem_dedup.1 hm)
    have hf : (dedup l2).filter (fun y => decide (y ≠ x)) = dedup l2 := by
      apply List.filter_eq_self.2
      intro a ha; simp only [decide_eq_true_eq]; intro e; exact hx (e ▸ ha)
    simp only [List.cons_append, dedup, ih, List.filter_append, hf]

theorem dedup_map_inj (f : α → β) (hf : ∀ a b, f a = f b → a = b) : ∀ l : List α,
    dedup (l.map f) = (dedup l).map f
  | [] => by simp [dedup]
  | x :: xs => by
    simp only [List.map_cons, dedup, dedup_map_inj f hf xs, List.filter_map]
    congr 2
    apply List.filter_congr
    intro a _
    simp only [Function.comp, decide_eq_decide]
    exact ⟨fun h e => h (congrArg f e), fun h e => h (hf _ _ e)⟩

theorem dedup_const (x : α) : ∀ l : List α, l ≠ [] → (∀ a ∈ l, a = x) → dedup l = [x]
  | [], h, _ => absurd rfl h
  | [a], _, h => by simp [dedup, h a (by simp)]
  | a :: b :: l, _, h => by
    have ih := dedup_const x (b :: l) (by simp) (fun y hy => h y (by simp [hy]))
    have ha := h a (by simp)
    rw [dedup, ih, ha]; simp
end dedup

mutual
theorem paths_truncate : (t : Tree) → ∀ n, t.WF →
    paths (truncate n t) = dedup ((paths t).map (List.take n))
  | .leaf, n, _ => by cases n <;> simp [truncate, paths, dedup]
  | .node kids, 0, h => by
    have hne := paths_ne_nil (.node kids) h
    simp only [truncate, paths] at hne ⊢
    rw [dedup_const [] _ (by simpa using hne) (by simp)]
  | .node kids, n + 1, h => by
    simp only [Tree.WF] at h
    simp only [truncate, paths]
    exact pathsF_truncateF kids n h.2.1 h.2.2
theorem pathsF_truncateF : (ks : Forest) → ∀ n, (ks.map (·.1)).Nodup → WFF ks →
    pathsF (truncateF n ks) = dedup ((pathsF ks).map (List.take (n + 1)))
  | [], n, _, _ => by simp [truncateF, pathsF, dedup]
  | (c, t) :: rest, n, hnd, hwf => by
    simp only [WFF] at hwf
    simp only [List.map_cons, List.nodup_cons] at hnd
    simp only [truncateF, pathsF, List.map_append, List.map_map]
    have hcomp : (List.take (n + 1) ∘ fun x => c :: x) = ((fun x => c :: x) ∘ List.take n) := by
      funext x; simp
    rw [hcomp, ← List.map_map, dedup_append_disjoint, dedup_map_inj _ (fun a b h => (List.cons.inj h).2),
      paths_truncate t n hwf.1, pathsF_truncateF rest n hnd.2 hwf.2]
    intro a ha hb
    obtain ⟨q, _, rfl⟩ := List.mem_map.1 ha
    obtain ⟨p, hp, hpe⟩ := List.mem_map.1 hb
    obtain ⟨c', q', rfl, hc'⟩ := head_mem_of_mem_pathsF hp
    simp only [List.take_succ_cons] at hpe
    cases hpe
    exact hnd.1 hc'
end

end ShuttleProofs.Dfs
