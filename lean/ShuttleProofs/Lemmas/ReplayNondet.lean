import ShuttleProofs.Lemmas.ReplaySeed
import ShuttleProofs.Lemmas.ReplayInv
import ShuttleProofs.Lemmas.ReplaySched
import ShuttleModel.Sched.NondetCheck
/-!
# Replay lemmas, part 6: the uncontrolled-nondeterminism checker

* recording mode: the wrapped scheduler follows the inner scheduler state for state (`recording_follows`), and
  its `previous_schedule` is the projection `recsOf` of the event log (`recording_logInv`);
* checking mode: the wrapped scheduler follows any log whose projection is its `previous_schedule`
  (`checking_follows`).
-/

namespace ShuttleProofs.Replay
open ShuttleModel ShuttleModel.NondetCheck ShuttleProofs.Kernel

variable {σ : Type}

/-- the `ScheduleRecord` the checker stores for an event -/
def recOf : Ev → List Record
  | .dec off _ y ch => [.task ch off y]
  | .draw v => [.random v]
  | .obs _ => []

def recsOf (l : List Ev) : List Record := l.flatMap recOf

theorem recsOf_append (l l' : List Ev) : recsOf (l ++ l') = recsOf l ++ recsOf l' := by
  unfold recsOf; exact List.flatMap_append

/-! ### recording mode -/

structure RecR (s : σ) (_evs : List Ev) (ns : NondetState σ) : Prop where
  inner : ns.scheduler = s
  recording : ns.recording = true

theorem recording_follows (F : FullScheduler σ) : Follows F.sched (check F).sched (RecR (σ := σ)) where
  dec := by
    intro s ns views off cur y ch evs s1 hR _ _ hn
    refine ⟨{ ns with scheduler := s1,
                      previousSchedule := ns.previousSchedule ++ [.task ch (views.map (·.id)) y] }, ?_, ⟨rfl, hR.recording⟩⟩
    show nextTask F ns views cur y = _
    unfold nextTask
    rw [hR.recording, hR.inner]
    simp only [if_true]
    rw [hn]
  draw := by
    intro s ns v evs s1 hR hn
    refine ⟨{ ns with scheduler := s1, previousSchedule := ns.previousSchedule ++ [.random v] }, ?_,
      ⟨rfl, hR.recording⟩⟩
    show nextU64 F ns = _
    unfold nextU64
    rw [hR.recording, hR.inner]
    simp only [if_true]
    rw [hn]
  obs := fun _ _ _ _ hR => ⟨hR.inner, hR.recording⟩

/-- in recording mode `previous_schedule` is the projection of the log -/
structure RecJ (ns : NondetState σ) (l : List Ev) : Prop where
  recording : ns.recording = true
  prev : ns.previousSchedule = recsOf l
  step : ns.currentStep = 0

theorem recording_logInv (F : FullScheduler σ) : LogInv (check F).sched (RecJ (σ := σ)) where
  dec := by
    intro ns l views cur y ch ns1 hJ hn
    have hn' : nextTask F ns views cur y = (.choose ch, ns1) := hn
    unfold nextTask at hn'
    rw [hJ.recording] at hn'
    simp only [if_true] at hn'
    split at hn'
    · simp only [Prod.mk.injEq, SchedAns.choose.injEq] at hn'
      obtain ⟨h1, h2⟩ := hn'
      subst h1 h2
      exact ⟨rfl, by simp [hJ.prev, recsOf, recOf], hJ.step⟩
    · simp only [Prod.mk.injEq] at hn'; cases hn'.1
  draw := by
    intro ns l v ns1 hJ hn
    have hn' : nextU64 F ns = (.ok v, ns1) := hn
    unfold nextU64 at hn'
    rw [hJ.recording] at hn'
    simp only [if_true] at hn'
    split at hn'
    · simp only [Prod.mk.injEq, Except.ok.injEq] at hn'
      obtain ⟨h1, h2⟩ := hn'
      subst h1 h2
      exact ⟨rfl, by simp [hJ.prev, recsOf, recOf], hJ.step⟩
    · simp only [Prod.mk.injEq] at hn'; cases hn'.1
  obs := by
    intro ns l x hJ
    exact ⟨hJ.recording, by simp [hJ.prev, recsOf, recOf], hJ.step⟩

/-- in recording mode the checker only panics when the inner scheduler does, with the same message -/
theorem recording_panic_from_inner (F : FullScheduler σ) (ns : NondetState σ) (h : ns.recording = true) :
    (∀ views cur y msg ns', (check F).sched.nextTask ns views cur y = (.panic msg, ns') →
      ∃ s', F.sched.nextTask ns.scheduler views cur y = (.panic msg, s')) ∧
    (∀ msg ns', (check F).sched.nextU64 ns = (.error msg, ns') →
      ∃ s', F.sched.nextU64 ns.scheduler = (.error msg, s')) := by
  constructor
  · intro views cur y msg ns' hn
    have hn' : nextTask F ns views cur y = (.panic msg, ns') := hn
    unfold nextTask at hn'
    rw [h] at hn'
    simp only [if_true] at hn'
    split at hn'
    · simp only [Prod.mk.injEq] at hn'; cases hn'.1
    · rename_i m inner heq
      simp only [Prod.mk.injEq, SchedAns.panic.injEq] at hn'
      rw [← hn'.1]
      exact ⟨inner, heq⟩
  · intro msg ns' hn
    have hn' : nextU64 F ns = (.error msg, ns') := hn
    unfold nextU64 at hn'
    rw [h] at hn'
    simp only [if_true] at hn'
    split at hn'
    · simp only [Prod.mk.injEq] at hn'; cases hn'.1
    · rename_i m inner heq
      simp only [Prod.mk.injEq, Except.error.injEq] at hn'
      rw [← hn'.1]
      exact ⟨inner, heq⟩

/-! ### checking mode -/

structure ChkR {τ : Type} (recs : List Record) (sc : σ) (_s : τ) (evs : List Ev) (ns : NondetState σ) : Prop where
  inner : ns.scheduler = sc
  recording : ns.recording = false
  prev : ns.previousSchedule = recs
  le : ns.currentStep ≤ recs.length
  rest : recs.drop ns.currentStep = recsOf evs

/-- **In checking mode the checker follows every log whose projection is its recording**: none of its
"possible nondeterminism" panics fires. -/
theorem checking_follows {τ : Type} (S : Scheduler τ) (F : FullScheduler σ) (recs : List Record) (sc : σ) :
    Follows S (check F).sched (ChkR (τ := τ) recs sc) where
  dec := by
    intro s ns views off cur y ch evs s1 hR hv _ _
    have hrest := hR.rest
    simp only [recsOf, List.flatMap_cons, recOf, List.cons_append, List.nil_append] at hrest
    obtain ⟨hget, hdrop, hle⟩ := getElem?_of_drop_eq_cons hrest
    refine ⟨{ ns with currentStep := ns.currentStep + 1 }, ?_, ⟨hR.inner, hR.recording, hR.prev, hle, hdrop⟩⟩
    show nextTask F ns views cur y = _
    unfold nextTask
    rw [hR.recording, hR.prev, hget, hv]
    simp
  draw := by
    intro s ns v evs s1 hR _
    have hrest := hR.rest
    simp only [recsOf, List.flatMap_cons, recOf, List.cons_append, List.nil_append] at hrest
    obtain ⟨hget, hdrop, hle⟩ := getElem?_of_drop_eq_cons hrest
    refine ⟨{ ns with currentStep := ns.currentStep + 1 }, ?_, ⟨hR.inner, hR.recording, hR.prev, hle, hdrop⟩⟩
    show nextU64 F ns = _
    unfold nextU64
    rw [hR.recording, hR.prev, hget]
    simp
  obs := by
    intro s ns x evs hR
    exact ⟨hR.inner, hR.recording, hR.prev, hR.le, by simpa [recsOf, recOf] using hR.rest⟩

theorem ChkR.finished {τ : Type} {recs : List Record} {sc : σ} {s : τ} {ns : NondetState σ}
    (h : ChkR recs sc s [] ns) : ns.currentStep = ns.previousSchedule.length := by
  have h1 := h.rest
  simp only [recsOf, List.flatMap_nil] at h1
  have h2 := h.le
  rw [h.prev]
  rcases Nat.lt_or_ge ns.currentStep recs.length with h3 | h3
  · have := List.drop_eq_nil_iff.mp h1; omega
  · omega

/-! ### a pair of executions -/

/-- the checker is ready to start a new recording: not recording, and the previous recording has been checked
to its end -/
def Idle (ns : NondetState σ) : Prop :=
  ns.recording = false ∧ ns.currentStep = ns.previousSchedule.length

/-- state at the start of a recording execution (inner scheduler state `inner`) -/
def recStart (inner : σ) : NondetState σ :=
  { scheduler := inner, recording := true, previousSchedule := [], currentStep := 0 }

/-- state at the end of a recording execution that logged `l` -/
def recEnd (s : σ) (l : List Ev) : NondetState σ :=
  { scheduler := s, recording := true, previousSchedule := recsOf l, currentStep := 0 }

/-- state at the start of the checking execution -/
def chkStart (s : σ) (l : List Ev) : NondetState σ :=
  { scheduler := s, recording := false, previousSchedule := recsOf l, currentStep := 0 }

theorem idle_new (s : σ) : Idle (NondetCheck.new s) := ⟨rfl, rfl⟩

/-- `new_execution` in an idle state: the "ended earlier than expected" panic does not fire, and the inner
scheduler's `new_execution` is consulted -/
theorem newExec_idle (F : FullScheduler σ) (ns : NondetState σ) (h : Idle ns) :
    (check F).newExec ns =
      match F.newExec ns.scheduler with
      | .none => .none
      | .panic m => .panic m
      | .some seed inner => .some seed (recStart inner) := by
  show NondetCheck.newExec F ns = _
  unfold NondetCheck.newExec
  rw [h.1, h.2]
  simp only [Bool.not_false, if_true, bne_self_eq_false, Bool.false_eq_true, if_false]
  cases F.newExec ns.scheduler <;> rfl

/-- `new_execution` after a recording: the checking execution is started with the dummy seed 0 and the inner
scheduler's `new_execution` is NOT consulted -/
theorem newExec_recEnd (F : FullScheduler σ) (s : σ) (l : List Ev) :
    (check F).newExec (recEnd s l) = .some 0 (chkStart s l) := rfl

/-- **The recording execution is the inner scheduler's execution**, and it ends with `previous_schedule` = the
projection of its log. -/
theorem recording_exec (F : FullScheduler σ) (P : Program) (ms : MaxSteps) (seed : Nat) (inner : σ)
    (fuel segFuel : Nat)
    (hne : ∀ msg, (execute P F.sched ms seed inner fuel segFuel).outcome ≠ .schedPanic msg) :
    execute P (check F).sched ms seed (recStart inner) fuel segFuel =
      reRes (execute P F.sched ms seed inner fuel segFuel)
        (recEnd (execute P F.sched ms seed inner fuel segFuel).st.sch
          (execute P F.sched ms seed inner fuel segFuel).st.log.toList) := by
  obtain ⟨ns1, h1, h2⟩ := execute_follows (recording_follows F) P ms seed inner (recStart inner) fuel segFuel hne
    ⟨rfl, rfl⟩
  have hJ := execute_logInv (recording_logInv F) P ms seed (recStart inner) fuel segFuel ⟨rfl, rfl, rfl⟩
    (by rw [h1]; exact hne)
  rw [h1] at hJ ⊢
  have e : ns1 = recEnd (execute P F.sched ms seed inner fuel segFuel).st.sch
      (execute P F.sched ms seed inner fuel segFuel).st.log.toList := by
    obtain ⟨a, b, c, d⟩ := ns1
    have h3 := h2.inner
    have h4 := hJ.recording
    have h5 := hJ.prev
    have h6 := hJ.step
    simp only [reRes, reSt_sch, reSt_log] at h3 h4 h5 h6
    subst h3 h4 h5 h6
    rfl
  rw [e]

/-- **The checking execution never rejects**: it is the same execution again (up to the dummy seed 0 stored in
the kernel) — in particular its outcome is the recording's outcome, never one of the checker's panics — and it
leaves the checker idle (`current_step = previous_schedule.len()`), with the inner scheduler untouched. -/
theorem checking_exec (F : FullScheduler σ) (P : Program) (ms : MaxSteps) (seed : Nat) (inner : σ)
    (fuel segFuel : Nat)
    (hne : ∀ msg, (execute P F.sched ms seed inner fuel segFuel).outcome ≠ .schedPanic msg) :
    ∃ nsF, execute P (check F).sched ms 0
        (chkStart (execute P F.sched ms seed inner fuel segFuel).st.sch
          (execute P F.sched ms seed inner fuel segFuel).st.log.toList) fuel segFuel =
        reRes (resSeed 0 (execute P F.sched ms seed inner fuel segFuel)) nsF ∧
      Idle nsF ∧ nsF.scheduler = (execute P F.sched ms seed inner fuel segFuel).st.sch := by
  have hs := execute_seed P F.sched ms seed 0 inner fuel segFuel
  have hne0 : ∀ msg, (execute P F.sched ms 0 inner fuel segFuel).outcome ≠ .schedPanic msg := by
    rw [hs]; exact hne
  obtain ⟨nsF, h1, h2⟩ := execute_follows
    (checking_follows F.sched F (recsOf (execute P F.sched ms seed inner fuel segFuel).st.log.toList)
      (execute P F.sched ms seed inner fuel segFuel).st.sch) P ms 0 inner
    (chkStart (execute P F.sched ms seed inner fuel segFuel).st.sch
      (execute P F.sched ms seed inner fuel segFuel).st.log.toList) fuel segFuel hne0
    ⟨rfl, rfl, rfl, Nat.zero_le _, by rw [hs]; rfl⟩
  rw [hs] at h1
  exact ⟨nsF, h1, ⟨h2.recording, h2.finished⟩, h2.inner⟩

/-! ### whole runs of the `Runner` under the checker -/

/-- what is assumed of the inner scheduler on program `P`: its own executions never end with a scheduler panic
(it never panics itself and never answers with a task that was not offered), and a panic of its
`new_execution` does not carry one of the checker's messages -/
structure InnerOK (F : FullScheduler σ) (P : Program) (ms : MaxSteps) (fuel segFuel : Nat) : Prop where
  noSchedPanic : ∀ seed s msg, (execute P F.sched ms seed s fuel segFuel).outcome ≠ .schedPanic msg
  newExecMsg : ∀ s msg, F.newExec s = .panic msg → isNondetMsg msg = false

/-- the checker has just finished a recording execution -/
def Mid (F : FullScheduler σ) (P : Program) (ms : MaxSteps) (fuel segFuel : Nat) (ns : NondetState σ) : Prop :=
  ∃ seed inner, ns = recEnd (execute P F.sched ms seed inner fuel segFuel).st.sch
    (execute P F.sched ms seed inner fuel segFuel).st.log.toList

/-- no execution of the run ended with a scheduler panic (in particular none of the checker's), and if
`new_execution` panicked it was not with one of the checker's messages -/
def RunOK {P : Program} (res : RunnerResult P (NondetState σ)) : Prop :=
  (∀ x ∈ res.execs, ∀ msg, x.2.outcome ≠ .schedPanic msg) ∧
  (∀ msg, res.newExecPanic = some msg → isNondetMsg msg = false)

theorem runner_check_ok {F : FullScheduler σ} {P : Program} {ms : MaxSteps} {fuel segFuel : Nat}
    (hF : InnerOK F P ms fuel segFuel) :
    ∀ (iters : Nat) (ns : NondetState σ) (acc : List (Nat × Result P (NondetState σ))),
      (Idle ns ∨ Mid F P ms fuel segFuel ns) → (∀ x ∈ acc, ∀ msg, x.2.outcome ≠ .schedPanic msg) →
      RunOK (runner P (check F) ms fuel segFuel iters ns acc)
  | 0, ns, acc, _, hacc => by
    rw [runner]
    refine ⟨fun x hx => hacc x (by simpa using hx), ?_⟩
    intro msg hm
    simp only [Option.some.injEq] at hm
    subst hm
    decide
  | iters + 1, ns, acc, hns, hacc => by
    rw [runner]
    rcases hns with hidle | ⟨seed, inner, rfl⟩
    · rw [newExec_idle F ns hidle]
      cases hn : F.newExec ns.scheduler with
      | none => exact ⟨fun x hx => hacc x (by simpa using hx), fun msg hm => by cases hm⟩
      | panic m =>
        refine ⟨fun x hx => hacc x (by simpa using hx), ?_⟩
        intro msg hm
        simp only [Option.some.injEq] at hm
        subst hm
        exact hF.newExecMsg _ _ hn
      | some seed inner =>
        simp only
        rw [recording_exec F P ms seed inner fuel segFuel (hF.noSchedPanic seed inner)]
        have hacc' : ∀ x ∈ (seed, reRes (execute P F.sched ms seed inner fuel segFuel)
            (recEnd (execute P F.sched ms seed inner fuel segFuel).st.sch
              (execute P F.sched ms seed inner fuel segFuel).st.log.toList)) :: acc,
            ∀ msg, x.2.outcome ≠ .schedPanic msg := by
          intro x hx
          rcases List.mem_cons.mp hx with rfl | hx
          · exact hF.noSchedPanic seed inner
          · exact hacc x hx
        split
        · exact ⟨fun x hx => hacc' x (List.mem_reverse.mp hx), fun msg hm => by cases hm⟩
        · exact runner_check_ok hF iters _ _ (Or.inr ⟨seed, inner, rfl⟩) hacc'
    · rw [newExec_recEnd]
      simp only
      obtain ⟨nsF, h1, h2, _⟩ := checking_exec F P ms seed inner fuel segFuel (hF.noSchedPanic seed inner)
      rw [h1]
      have hacc' : ∀ x ∈ (0, reRes (resSeed 0 (execute P F.sched ms seed inner fuel segFuel)) nsF) :: acc,
          ∀ msg, x.2.outcome ≠ .schedPanic msg := by
        intro x hx
        rcases List.mem_cons.mp hx with rfl | hx
        · exact hF.noSchedPanic seed inner
        · exact hacc x hx
      split
      · exact ⟨fun x hx => hacc' x (List.mem_reverse.mp hx), fun msg hm => by cases hm⟩
      · exact runner_check_ok hF iters _ _ (Or.inl h2) hacc'

end ShuttleProofs.Replay
