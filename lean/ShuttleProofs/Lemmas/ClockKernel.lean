import ShuttleModel.Kernel
import ShuttleProofs.Lemmas.ClockBasic
/-!
# Vector-clock lemmas, part 3: the kernel never lowers a clock

`ClockMono k k'` : every task of `k` is still there in `k'` with a pointwise larger-or-equal clock.
`runSegment_clockMono` : one task segment (any program, any fuel, whatever way it ends) is `ClockMono`;
`schedule`, `advance`, `finish` do not touch clocks. The four requests that write a clock are
`updateClock`, `incClock`, `joinClockOf` and `spawn` (`spawnTask`): each replaces a clock by
`increment` / `update` / `extend` of itself — see `ClockBasic`.
-/

namespace ShuttleProofs.Clock
open ShuttleModel

def ClockMono (k k' : Kernel) : Prop :=
  ∀ t tk, k.getTask? t = some tk → ∃ tk', k'.getTask? t = some tk' ∧ ple tk.clock tk'.clock

theorem ClockMono.refl (k : Kernel) : ClockMono k k := fun _ tk h => ⟨tk, h, ple_refl _⟩

theorem ClockMono.trans {a b c : Kernel} (h1 : ClockMono a b) (h2 : ClockMono b c) : ClockMono a c := by
  intro t tk h
  obtain ⟨tk', h', p1⟩ := h1 t tk h
  obtain ⟨tk'', h'', p2⟩ := h2 t tk' h'
  exact ⟨tk'', h'', ple_trans p1 p2⟩

theorem ClockMono.of_tasks_eq {k k' : Kernel} (h : k'.tasks = k.tasks) : ClockMono k k' := by
  intro t tk ht
  refine ⟨tk, ?_, ple_refl _⟩
  unfold Kernel.getTask? at *
  rw [h]; exact ht

theorem setTask_mono (k : Kernel) (t : Nat) (tk' : Task)
    (h : ∀ tk, k.getTask? t = some tk → ple tk.clock tk'.clock) : ClockMono k (k.setTask t tk') := by
  intro u tku hu
  unfold Kernel.getTask? Kernel.setTask at *
  by_cases hut : t = u
  · subst hut
    have hlt : t < k.tasks.length := by
      rcases Nat.lt_or_ge t k.tasks.length with hh | hh
      · exact hh
      · rw [List.getElem?_eq_none hh] at hu; cases hu
    exact ⟨tk', by simp [List.getElem?_set_self hlt], h tku hu⟩
  · exact ⟨tku, by simp [List.getElem?_set_ne hut, hu], ple_refl _⟩

theorem modTask_mono {k k' : Kernel} {t : Nat} {f : Task → Except String Task}
    (h : k.modTask t f = .ok k') (hf : ∀ tk tk', f tk = .ok tk' → ple tk.clock tk'.clock) :
    ClockMono k k' := by
  unfold Kernel.modTask at h
  cases hg : k.getTask? t with
  | none => rw [hg] at h; cases h
  | some tk =>
    rw [hg] at h
    simp only at h
    cases hft : f tk with
    | error e => rw [hft] at h; cases h
    | ok tk' =>
      rw [hft] at h
      simp only [Except.ok.injEq] at h
      subst h
      refine setTask_mono k t tk' (fun tk0 h0 => ?_)
      rw [hg] at h0
      cases h0
      exact hf tk tk' hft

/-! ### the `Task` transitions keep the clock -/

theorem Task.block_clock {t t' : Task} {sp : Bool} (h : t.block sp = .ok t') : t'.clock = t.clock := by
  unfold Task.block at h; split at h
  · cases h
  · cases h; rfl

theorem Task.sleep_clock {t t' : Task} (h : t.sleep = .ok t') : t'.clock = t.clock := by
  unfold Task.sleep at h; split at h
  · cases h
  · cases h; rfl

theorem Task.unblock_clock {t t' : Task} (h : t.unblock = .ok t') : t'.clock = t.clock := by
  unfold Task.unblock at h; split at h
  · cases h
  · cases h; rfl

theorem Task.finish_clock {t t' : Task} (h : t.finish = .ok t') : t'.clock = t.clock := by
  unfold Task.finish at h; split at h
  · cases h
  · cases h; rfl

theorem Task.sleepUnlessWoken_clock {t t' : Task} (h : t.sleepUnlessWoken = .ok t') : t'.clock = t.clock := by
  unfold Task.sleepUnlessWoken at h; split at h
  · cases h; rfl
  · have := Task.sleep_clock h; exact this

theorem Task.wake_clock {t t' : Task} (h : t.wake = .ok t') : t'.clock = t.clock := by
  unfold Task.wake at h
  simp only at h
  split at h
  · have := Task.unblock_clock h; exact this
  · cases h; rfl

theorem Task.unpark_clock {t t' : Task} (h : t.unpark = .ok t') : t'.clock = t.clock := by
  unfold Task.unpark at h
  split at h
  · split at h
    · cases h
    · split at h
      · cases h
      · exact Task.unblock_clock h
  · cases h; rfl

theorem Task.park_clock {t t' : Task} {b : Bool} (h : t.park = .ok (b, t')) : t'.clock = t.clock := by
  unfold Task.park at h
  split at h
  · cases h
  · split at h
    · cases h
    · split at h
      · cases h; rfl
      · split at h
        · rename_i t2 hb
          cases h
          have := Task.block_clock hb; exact this
        · cases h

theorem Task.setWaiter_clock {t t' : Task} {w : Nat} {b : Bool} (h : t.setWaiter w = .ok (b, t')) :
    t'.clock = t.clock := by
  unfold Task.setWaiter at h
  split at h
  · cases h
  · split at h
    · cases h; rfl
    · cases h; rfl

theorem ple_of_clock_eq {a b : Task} (h : b.clock = a.clock) : ple a.clock b.clock := by
  rw [h]; exact ple_refl _

/-! ### `spawnTask` -/

theorem getTask?_append_left (k : Kernel) (extra : List Task) (t : Nat) (tk : Task)
    (h : k.getTask? t = some tk) : ({ k with tasks := k.tasks ++ extra } : Kernel).getTask? t = some tk := by
  unfold Kernel.getTask? at *
  have hlt : t < k.tasks.length := by
    rcases Nat.lt_or_ge t k.tasks.length with hh | hh
    · exact hh
    · rw [List.getElem?_eq_none hh] at h; cases h
  show (k.tasks ++ extra)[t]? = some tk
  rw [List.getElem?_append_left hlt]; exact h

theorem append_mono (k : Kernel) (extra : List Task) : ClockMono k { k with tasks := k.tasks ++ extra } :=
  fun t tk h => ⟨tk, getTask?_append_left k extra t tk h, ple_refl _⟩

/-- **spawning never lowers a clock**: the parent's clock is incremented and zero-extended, every other
task is untouched, the child is new. -/
theorem spawnTask_mono (k : Kernel) (parent : Option Nat) : ClockMono k (k.spawnTask parent).2 := by
  unfold Kernel.spawnTask
  cases parent with
  | none => exact append_mono k _
  | some p =>
    simp only
    cases hg : k.getTask? p with
    | none => exact ClockMono.refl k
    | some ptk =>
      simp only
      refine ClockMono.trans (setTask_mono k p _ (fun tk h => ?_)) (append_mono _ _)
      rw [hg] at h; cases h
      exact ple_trans (ple_increment _ _) (ple_extend _ _)

/-! ### one segment -/

variable {P : Program} {σ : Type}

def _root_.ShuttleModel.SegEnd.kernel : SegEnd P σ → Kernel
  | .atSwitch st => st.k
  | .returned st => st.k
  | .panicked _ st => st.k
  | .schedPanic _ st => st.k
  | .outOfFuel st => st.k
  | .aborted _ st => st.k

theorem via {k0 : Kernel} (e : SegEnd P σ) (k1 : Kernel) (h1 : ClockMono k0 k1) (h2 : ClockMono k1 e.kernel) :
    ClockMono k0 e.kernel := h1.trans h2

/-- **`own_clock_monotone` (kernel part).** Whatever a task does in one segment — any program over the
kernel API, any fuel, and however the segment ends — every task's clock afterwards dominates its clock
before. -/
theorem runSegment_clockMono (S : Scheduler σ) (me : Nat) :
    ∀ (fuel : Nat) (st : ExecState P σ) (p : Prog P.U Unit),
      ClockMono st.k (runSegment S me fuel st p).kernel
  | 0, st, p => by rw [runSegment]; exact ClockMono.refl _
  | fuel + 1, st, .pure () => by
    rw [runSegment]
    repeat' split
    all_goals exact ClockMono.refl _
  | fuel + 1, st, .panic msg => by
    rw [runSegment]
    split
    · split
      · exact ClockMono.refl _
      · refine via _ _ ?_ (runSegment_clockMono S me fuel _ (P.unwind me))
        exact ClockMono.of_tasks_eq rfl
    · refine via _ _ ?_ (runSegment_clockMono S me fuel _ (P.unwind me))
      exact ClockMono.of_tasks_eq rfl
  | fuel + 1, st, .op o kont => by
    have nop : ∀ (b : _) , ClockMono st.k (runSegment S me fuel st (kont b)).kernel :=
      fun b => runSegment_clockMono S me fuel st (kont b)
    have onTask : ∀ (t : Nat) (f : Task → Except String Task) (cont : Prog P.U Unit),
        (∀ tk tk', f tk = .ok tk' → ple tk.clock tk'.clock) →
        ClockMono st.k
          (match st.k.modTask t f with
            | .ok k' => runSegment S me fuel { st with k := k' } cont
            | .error e => SegEnd.panicked e st).kernel := by
      intro t f cont hf
      cases h : st.k.modTask t f with
      | error e => exact ClockMono.refl _
      | ok k' =>
        exact ClockMono.trans (modTask_mono h hf) (runSegment_clockMono S me fuel { st with k := k' } cont)
    have setT : ∀ (t : Nat) (tk' : Task) (cont : Prog P.U Unit),
        (∀ tk, st.k.getTask? t = some tk → ple tk.clock tk'.clock) →
        ClockMono st.k (runSegment S me fuel { st with k := st.k.setTask t tk' } cont).kernel := by
      intro t tk' cont hf
      refine via _ _ ?_ (runSegment_clockMono S me fuel _ cont)
      exact setTask_mono st.k t tk' hf
    cases o with
    | switch => rw [runSegment]; exact ClockMono.refl _
    | me => rw [runSegment]; exact nop _
    | getU => rw [runSegment]; exact nop _
    | setU u =>
      rw [runSegment]
      refine via _ _ ?_ (runSegment_clockMono S me fuel _ (kont ()))
      exact ClockMono.refl _
    | emit s =>
      rw [runSegment]
      refine via _ _ ?_ (runSegment_clockMono S me fuel _ (kont ()))
      exact ClockMono.refl _
    | block sp => rw [runSegment]; exact onTask _ _ _ (fun _ _ h => ple_of_clock_eq (Task.block_clock h))
    | blockTask t => rw [runSegment]; exact onTask _ _ _ (fun _ _ h => ple_of_clock_eq (Task.block_clock h))
    | sleepUnlessWoken =>
      rw [runSegment]; exact onTask _ _ _ (fun _ _ h => ple_of_clock_eq (Task.sleepUnlessWoken_clock h))
    | unblock t => rw [runSegment]; exact onTask _ _ _ (fun _ _ h => ple_of_clock_eq (Task.unblock_clock h))
    | wake t =>
      rw [runSegment]
      split
      · exact nop _
      · split
        · exact ClockMono.refl _
        · split
          · exact nop _
          · exact onTask _ _ _ (fun _ _ h => ple_of_clock_eq (Task.wake_clock h))
    | isFinished t => rw [runSegment]; exact nop _
    | requestYield =>
      rw [runSegment]
      refine via _ _ ?_ (runSegment_clockMono S me fuel _ (kont ()))
      exact ClockMono.of_tasks_eq rfl
    | rand =>
      rw [runSegment]
      split
      · rename_i v s' _
        refine via _ _ ?_ (runSegment_clockMono S me fuel _ (kont v))
        exact ClockMono.of_tasks_eq rfl
      · exact ClockMono.of_tasks_eq rfl
    | spawn fut body =>
      rw [runSegment]
      split
      rename_i tid k' hsp
      refine via _ _ ?_ (runSegment_clockMono S me fuel _ (kont tid))
      have := spawnTask_mono st.k (some me)
      rw [hsp] at this
      exact this
    | park =>
      rw [runSegment]
      split
      · exact ClockMono.refl _
      · rename_i tk hg
        split
        · rename_i b tk' hp
          exact setT _ _ _ (fun tk0 h0 => by
            rw [hg] at h0; cases h0; exact ple_of_clock_eq (Task.park_clock hp))
        · exact ClockMono.refl _
    | unpark t => rw [runSegment]; exact onTask _ _ _ (fun _ _ h => ple_of_clock_eq (Task.unpark_clock h))
    | setWaiter target =>
      rw [runSegment]
      split
      · exact ClockMono.refl _
      · rename_i tk hg
        split
        · rename_i b tk' hp
          exact setT _ _ _ (fun tk0 h0 => by
            rw [hg] at h0; cases h0; exact ple_of_clock_eq (Task.setWaiter_clock hp))
        · exact ClockMono.refl _
    | takeWaiter =>
      rw [runSegment]
      split
      · exact ClockMono.refl _
      · rename_i tk hg
        exact setT _ _ _ (fun tk0 h0 => by rw [hg] at h0; cases h0; exact ple_refl _)
    | detach t => rw [runSegment]; exact onTask _ _ _ (fun _ _ h => by cases h; exact ple_refl _)
    | clock => rw [runSegment]; exact nop _
    | clockOf t => rw [runSegment]; exact nop _
    | updateClock c =>
      rw [runSegment]
      exact onTask _ _ _ (fun tk _ h => by cases h; exact ple_updateClock_self tk.clock c me)
    | incClock =>
      rw [runSegment]
      split
      · exact ClockMono.refl _
      · rename_i tk hg
        exact setT _ _ _ (fun tk0 h0 => by rw [hg] at h0; cases h0; exact ple_increment _ _)
    | joinClockOf t c =>
      rw [runSegment]
      exact onTask _ _ _ (fun tk _ h => by cases h; exact ple_update_left tk.clock c)
    | exitTruncates => rw [runSegment]; exact nop _
    | resetSteps =>
      rw [runSegment]
      refine via _ _ ?_ (runSegment_clockMono S me fuel _ (kont ()))
      exact ClockMono.of_tasks_eq rfl
    | ctxSwitches => rw [runSegment]; exact nop _
    | isPanicking => rw [runSegment]; exact nop _

/-! ### between segments: `schedule`, `advance`, `finish` -/

theorem advance_mono (k : Kernel) : ClockMono k k.advance := by
  unfold Kernel.advance
  simp only
  split <;> exact ClockMono.of_tasks_eq rfl

theorem finish_mono {k k' : Kernel} {t : Nat} (h : k.modTask t (·.finish) = .ok k') : ClockMono k k' :=
  modTask_mono h (fun _ _ hh => ple_of_clock_eq (Task.finish_clock hh))

/-- `schedule()` may unblock the chosen task; it never touches a clock -/
theorem schedule_mono {σ : Type} (k : Kernel) (S : Scheduler σ) (s : σ) (k' : Kernel) (s' : σ) (ev : Option Ev)
    (h : k.schedule S s = .ok k' s' ev) : ClockMono k k' := by
  unfold Kernel.schedule at h
  split at h
  · cases h; exact ClockMono.refl _
  · dsimp only at h
    repeat' (split at h)
    all_goals first
      | (cases h; done)
      | (cases h; exact ClockMono.refl _)
      | (cases h; exact ClockMono.of_tasks_eq rfl)
      | skip
    rename_i tk hg _ _ _ _ tk' hub
    cases h
    refine ClockMono.trans (setTask_mono k _ tk' (fun tk0 h0 => ?_)) (ClockMono.of_tasks_eq rfl)
    have hg' : k.getTask? _ = some tk := hg
    rw [hg'] at h0; cases h0
    exact ple_of_clock_eq (Task.unblock_clock hub)

/-! ### the whole run loop -/

def _root_.ShuttleModel.Kernel.SchedStep.kernel : Kernel.SchedStep σ → Kernel
  | .ok k _ _ => k
  | .err _ k _ => k
  | .schedPanic _ k _ => k

/-- `schedule()` never touches a clock, whatever its outcome -/
theorem schedule_mono_all (k : Kernel) (S : Scheduler σ) (s : σ) : ClockMono k (k.schedule S s).kernel := by
  unfold Kernel.schedule
  split
  · exact ClockMono.refl _
  · dsimp only
    repeat' split
    all_goals first
      | exact ClockMono.of_tasks_eq rfl
      | skip
    rename_i tk hg _ _ _ _ tk' hub
    refine ClockMono.trans (setTask_mono k _ tk' (fun tk0 h0 => ?_)) (ClockMono.of_tasks_eq rfl)
    have hg' : k.getTask? _ = some tk := hg
    rw [hg'] at h0; cases h0
    exact ple_of_clock_eq (Task.unblock_clock hub)

theorem seg_end_mono {S : Scheduler σ} {me fuel : Nat} {st : ExecState P σ} {p : Prog P.U Unit} {e : SegEnd P σ}
    (h : runSegment S me fuel st p = e) : ClockMono st.k e.kernel := h ▸ runSegment_clockMono S me fuel st p

/-- **`own_clock_monotone` for a whole execution**: from any state of the run loop to its result, every
task's clock only grows (scheduling decisions, task segments, task exits). -/
theorem runLoop_clockMono (S : Scheduler σ) (segFuel : Nat) :
    ∀ (fuel : Nat) (st : ExecState P σ), ClockMono st.k (runLoop S segFuel fuel st).st.k
  | 0, st => by rw [runLoop]; exact ClockMono.refl _
  | fuel + 1, st => by
    rw [runLoop]
    have hsch := schedule_mono_all st.k S st.sch
    cases hs : st.k.schedule S st.sch with
    | err e k s =>
      rw [hs] at hsch
      cases e <;> exact hsch
    | schedPanic msg k s => rw [hs] at hsch; exact hsch
    | ok k s ev =>
      rw [hs] at hsch
      have hadv : ClockMono st.k k.advance := hsch.trans (advance_mono k)
      clear hsch hs
      dsimp only
      split
      · exact hadv
      · exact hadv
      · split <;> exact hadv
      · rename_i t hcur
        split
        · exact hadv
        · rename_i p hp
          split
          · rename_i st' he
            have hseg : ClockMono k.advance st'.k := seg_end_mono he
            exact hadv.trans (hseg.trans (runLoop_clockMono S segFuel fuel st'))
          · rename_i st' he
            have hseg : ClockMono k.advance st'.k := seg_end_mono he
            split
            · rename_i k' hf
              exact hadv.trans (hseg.trans ((finish_mono hf).trans (runLoop_clockMono S segFuel fuel { st' with k := k' })))
            · exact hadv.trans hseg
          all_goals
            rename_i st' he
            have hseg : ClockMono k.advance st'.k := seg_end_mono he
            exact hadv.trans hseg

end ShuttleProofs.Clock
