import ShuttleProofs.Lemmas.CondvarBasic
/-
  C05 / Condvar, part 2: the labelled transition system of one `Condvar` under a most general
  client, its histories, and the invariant all the C05 condvar theorems are read off.

  * State `CvG`: the `CondvarState` of the model plus the ghost set `blocked` of tasks the condvar
    has left blocked (set by the `block(false)` of `wait`'s first stage, then driven by the
    `Eff.unblock` / `Eff.block` effects the pure transitions emit).
  * Any task may perform any operation at any time, except that a task suspended inside `wait`
    does nothing else (this is exactly when the model's `assert_ne!` / `debug_assert!` hold, so the
    transitions are "the pure function returned `.ok`"), and the second stage of `wait` runs only
    when the task is not blocked.
  * Histories are newest-first lists of `CvEv`; the outputs of the transitions (epoch of a
    `notify_one`, what a returning waiter was woken by) are part of the events.
-/
namespace ShuttleProofs.C05
open ShuttleModel ShuttleModel.CondvarState

structure CvG where
  s : CondvarState
  blocked : Nat → Bool

inductive CvEv where
  /-- first stage of `wait` by task `t` (mutex released, registered, blocked) -/
  | register (t : Nat)
  /-- `notify_one` by `t`; `epoch` is the epoch it was given -/
  | notifyOne (t : Nat) (epoch : Nat)
  /-- `notify_all` by `t` -/
  | notifyAll (t : Nat)
  /-- second stage of `wait` by `t`: `none` = woken by a broadcast, `some e` = by the
  `notify_one` of epoch `e` -/
  | woke (t : Nat) (by_ : Option Nat)
deriving DecidableEq, Repr

def CvEv.isNotify : CvEv → Bool
  | .notifyOne _ _ => true
  | .notifyAll _ => true
  | _ => false

inductive CvStep : CvG → CvEv → CvG → Prop where
  | register {g : CvG} {t : Nat} {s' : CondvarState} :
      g.s.register t = .ok s' →
      CvStep g (.register t) ⟨s', fun x => if x = t then true else g.blocked x⟩
  | notifyOne {g : CvG} {t : Nat} {c : Clock} {s' : CondvarState} {effs : List Eff} :
      g.s.notifyOne t c = .ok (s', effs) →
      CvStep g (.notifyOne t g.s.nextEpoch) ⟨s', applyEffs g.blocked effs⟩
  | notifyAll {g : CvG} {t : Nat} {c : Clock} {s' : CondvarState} {effs : List Eff} :
      g.s.notifyAll t c = .ok (s', effs) →
      CvStep g (.notifyAll t) ⟨s', applyEffs g.blocked effs⟩
  | wake {g : CvG} {t : Nat} {s' : CondvarState} {c : Clock} {effs : List Eff} :
      g.blocked t = false → g.s.wake t = .ok (s', c, effs) →
      CvStep g (.woke t (wokenBy g.s t)) ⟨s', applyEffs g.blocked effs⟩

def cvInit : CvG := ⟨{}, fun _ => false⟩

/-- `CvReach h g`: `g` is reachable from a fresh condvar with history `h` (newest event first) -/
inductive CvReach : List CvEv → CvG → Prop where
  | init : CvReach [] cvInit
  | step {h : List CvEv} {g : CvG} {e : CvEv} {g' : CvG} : CvReach h g → CvStep g e g' → CvReach (e :: h) g'

/-- the events after the latest `register t` (all of `h` if there is none) -/
def since (t : Nat) (h : List CvEv) : List CvEv := h.takeWhile (fun e => e != .register t)

theorem since_cons_ne {t : Nat} {e : CvEv} (h : List CvEv) (hne : e ≠ .register t) :
    since t (e :: h) = e :: since t h := by
  simp [since, hne]

@[simp] theorem since_cons_self (t : Nat) (h : List CvEv) : since t (.register t :: h) = [] := by
  simp [since]

theorem since_subset (t : Nat) (h : List CvEv) : ∀ e ∈ since t h, e ∈ h :=
  fun _ he => (List.takeWhile_sublist _).subset he

/-- the invariant -/
structure CvInv (h : List CvEv) (g : CvG) : Prop where
  nodup : (g.s.waiters.map (·.1)).Nodup
  blocked_iff : ∀ p ∈ g.s.waiters, (g.blocked p.1 = true ↔ p.2 = .waiting)
  sig : ∀ p ∈ g.s.waiters, ∀ eps, p.2 = .signal eps →
      eps ≠ [] ∧ (eps.map (·.1)).Nodup ∧
      ∀ x ∈ eps, x.1 < g.s.nextEpoch ∧ (∃ n, CvEv.notifyOne n x.1 ∈ since p.1 h) ∧
        ∀ t', CvEv.woke t' (some x.1) ∉ h
  hist_lt : ∀ e ∈ h, (∀ n ep, e = CvEv.notifyOne n ep → ep < g.s.nextEpoch) ∧
      (∀ t ep, e = CvEv.woke t (some ep) → ep < g.s.nextEpoch)
  bcast : ∀ p ∈ g.s.waiters, (∃ n, CvEv.notifyAll n ∈ since p.1 h) ↔ ∃ c, p.2 = .broadcast c
  pending : ∀ p ∈ g.s.waiters, ∀ n ep, CvEv.notifyOne n ep ∈ since p.1 h →
      (∀ t', CvEv.woke t' (some ep) ∉ h) →
      (∃ c, p.2 = .broadcast c) ∨ (∃ eps, p.2 = .signal eps ∧ ep ∈ eps.map (·.1))
  reg : ∀ p ∈ g.s.waiters, CvEv.register p.1 ∈ h

theorem inv_init : CvInv [] cvInit := by
  constructor <;> simp [cvInit]

theorem key_unique {ws : List (Nat × CvStatus)} (hnd : (ws.map (·.1)).Nodup) {p q : Nat × CvStatus}
    (hp : p ∈ ws) (hq : q ∈ ws) (hk : p.1 = q.1) : p = q := by
  induction ws with
  | nil => cases hp
  | cons a l ih =>
    simp only [List.map_cons, List.nodup_cons] at hnd
    rcases List.mem_cons.1 hp with rfl | hp' <;> rcases List.mem_cons.1 hq with rfl | hq'
    · rfl
    · exact absurd (hk ▸ List.mem_map_of_mem hq') hnd.1
    · exact absurd (hk ▸ List.mem_map_of_mem hp') hnd.1
    · exact ih hnd.2 hp' hq'

/-! ### preservation -/

theorem inv_register {h : List CvEv} {g : CvG} (I : CvInv h g) {t : Nat} {s' : CondvarState}
    (hr : g.s.register t = .ok s') :
    CvInv (.register t :: h) ⟨s', fun x => if x = t then true else g.blocked x⟩ := by
  obtain ⟨hnot, rfl⟩ := register_ok hr
  have hsince : ∀ p ∈ g.s.waiters, since p.1 (CvEv.register t :: h) = CvEv.register t :: since p.1 h := by
    intro p hp
    apply since_cons_ne
    intro heq
    injection heq with heq
    exact hnot p hp heq.symm
  constructor
  · simp only [List.map_append, List.map_cons, List.map_nil]
    rw [List.nodup_append]
    refine ⟨I.nodup, by simp, ?_⟩
    intro a ha b hb
    simp only [List.mem_singleton] at hb
    subst hb
    obtain ⟨p, hp, rfl⟩ := List.mem_map.1 ha
    exact hnot p hp
  · intro p hp
    rcases List.mem_append.1 hp with hp | hp
    · have := hnot p hp
      simp only [this, if_false]
      exact I.blocked_iff p hp
    · simp only [List.mem_singleton] at hp
      subst hp
      simp
  · intro p hp eps he
    rcases List.mem_append.1 hp with hp | hp
    · obtain ⟨h1, h2, h3⟩ := I.sig p hp eps he
      refine ⟨h1, h2, ?_⟩
      intro x hx
      obtain ⟨a, ⟨n, b⟩, c⟩ := h3 x hx
      refine ⟨a, ⟨n, ?_⟩, ?_⟩
      · rw [hsince p hp]; exact List.mem_cons_of_mem _ b
      · intro t' hm
        rcases List.mem_cons.1 hm with hm | hm
        · cases hm
        · exact c t' hm
    · simp only [List.mem_singleton] at hp
      subst hp
      cases he
  · intro e he
    rcases List.mem_cons.1 he with rfl | he
    · exact ⟨fun _ _ h => (by cases h), fun _ _ h => (by cases h)⟩
    · exact I.hist_lt e he
  · intro p hp
    rcases List.mem_append.1 hp with hp | hp
    · rw [hsince p hp, ← I.bcast p hp]
      constructor
      · rintro ⟨n, hn⟩
        rcases List.mem_cons.1 hn with hn | hn
        · cases hn
        · exact ⟨n, hn⟩
      · rintro ⟨n, hn⟩
        exact ⟨n, List.mem_cons_of_mem _ hn⟩
    · simp only [List.mem_singleton] at hp
      subst hp
      simp
  · intro p hp n ep hn hun
    rcases List.mem_append.1 hp with hp | hp
    · rw [hsince p hp] at hn
      rcases List.mem_cons.1 hn with hn | hn
      · cases hn
      · exact I.pending p hp n ep hn (fun t' hm => hun t' (List.mem_cons_of_mem _ hm))
    · simp only [List.mem_singleton] at hp
      subst hp
      simp at hn
  · intro p hp
    rcases List.mem_append.1 hp with hp | hp
    · exact List.mem_cons_of_mem _ (I.reg p hp)
    · simp only [List.mem_singleton] at hp
      subst hp
      exact List.mem_cons_self ..

theorem signalStatus_ne_waiting (ep : Nat) (c : Clock) (st : CvStatus) : signalStatus ep c st ≠ .waiting := by
  cases st <;> simp [signalStatus]

theorem inv_notifyOne {h : List CvEv} {g : CvG} (I : CvInv h g) {t : Nat} {c : Clock}
    {s' : CondvarState} {effs : List Eff} (hr : g.s.notifyOne t c = .ok (s', effs)) :
    CvInv (.notifyOne t g.s.nextEpoch :: h) ⟨s', applyEffs g.blocked effs⟩ := by
  obtain ⟨_, rfl, rfl⟩ := notifyOne_ok hr
  have hsince : ∀ u, since u (CvEv.notifyOne t g.s.nextEpoch :: h) =
      CvEv.notifyOne t g.s.nextEpoch :: since u h := fun u => since_cons_ne _ (by intro h; cases h)
  have hfresh : ∀ t', CvEv.woke t' (some g.s.nextEpoch) ∉ CvEv.notifyOne t g.s.nextEpoch :: h := by
    intro t' hm
    rcases List.mem_cons.1 hm with hm | hm
    · cases hm
    · exact absurd ((I.hist_lt _ hm).2 t' _ rfl) (Nat.lt_irrefl _)
  constructor
  · simp only [List.map_map]
    exact I.nodup
  · intro p hp
    obtain ⟨q, hq, rfl⟩ := List.mem_map.1 hp
    simp only [applyEffs_unblocks]
    have : q.1 ∈ g.s.waiters.map (·.1) := List.mem_map_of_mem hq
    simp [this, signalStatus_ne_waiting]
  · intro p hp eps he
    obtain ⟨q, hq, rfl⟩ := List.mem_map.1 hp
    simp only at he
    cases hq2 : q.2 with
    | waiting =>
      rw [hq2] at he
      simp only [signalStatus, CvStatus.signal.injEq] at he
      subst he
      refine ⟨by simp, by simp, ?_⟩
      intro x hx
      simp only [List.mem_singleton] at hx
      subst hx
      exact ⟨Nat.lt_succ_self _, ⟨t, by rw [hsince]; exact List.mem_cons_self ..⟩, hfresh⟩
    | broadcast b => rw [hq2] at he; simp [signalStatus] at he
    | signal eps0 =>
      rw [hq2] at he
      simp only [signalStatus, CvStatus.signal.injEq] at he
      subst he
      obtain ⟨h1, h2, h3⟩ := I.sig q hq eps0 hq2
      refine ⟨by simp, ?_, ?_⟩
      · simp only [List.map_append, List.map_cons, List.map_nil]
        rw [List.nodup_append]
        refine ⟨h2, by simp, ?_⟩
        intro a ha b hb
        simp only [List.mem_singleton] at hb
        subst hb
        obtain ⟨x, hx, rfl⟩ := List.mem_map.1 ha
        exact Nat.ne_of_lt (h3 x hx).1
      · intro x hx
        rcases List.mem_append.1 hx with hx | hx
        · obtain ⟨a, ⟨n, b⟩, d⟩ := h3 x hx
          refine ⟨Nat.lt_succ_of_lt a, ⟨n, by rw [hsince]; exact List.mem_cons_of_mem _ b⟩, ?_⟩
          intro t' hm
          rcases List.mem_cons.1 hm with hm | hm
          · cases hm
          · exact d t' hm
        · simp only [List.mem_singleton] at hx
          subst hx
          exact ⟨Nat.lt_succ_self _, ⟨t, by rw [hsince]; exact List.mem_cons_self ..⟩, hfresh⟩
  · intro e he
    rcases List.mem_cons.1 he with rfl | he
    · exact ⟨fun _ _ h => (by cases h; exact Nat.lt_succ_self _), fun _ _ h => (by cases h)⟩
    · exact ⟨fun n ep h => Nat.lt_succ_of_lt ((I.hist_lt e he).1 n ep h),
             fun n ep h => Nat.lt_succ_of_lt ((I.hist_lt e he).2 n ep h)⟩
  · intro p hp
    obtain ⟨q, hq, rfl⟩ := List.mem_map.1 hp
    simp only [hsince]
    have hb := I.bcast q hq
    constructor
    · rintro ⟨n, hn⟩
      rcases List.mem_cons.1 hn with hn | hn
      · cases hn
      · obtain ⟨b, hb⟩ := hb.1 ⟨n, hn⟩
        exact ⟨b, by rw [hb]; rfl⟩
    · rintro ⟨b, hb'⟩
      have : ∃ b, q.2 = .broadcast b := by
        cases hq2 : q.2 with
        | waiting => rw [hq2] at hb'; simp [signalStatus] at hb'
        | signal e0 => rw [hq2] at hb'; simp [signalStatus] at hb'
        | broadcast b0 => exact ⟨b0, rfl⟩
      obtain ⟨n, hn⟩ := hb.2 this
      exact ⟨n, List.mem_cons_of_mem _ hn⟩
  · intro p hp n ep hn hun
    obtain ⟨q, hq, rfl⟩ := List.mem_map.1 hp
    simp only [hsince] at hn
    rcases List.mem_cons.1 hn with hn | hn
    · injection hn with h1 h2
      subst h2
      cases hq2 : q.2 with
      | waiting => right; exact ⟨_, rfl, by simp⟩
      | signal e0 => right; exact ⟨_, rfl, by simp⟩
      | broadcast b0 => left; exact ⟨b0, rfl⟩
    · rcases I.pending q hq n ep hn (fun t' hm => hun t' (List.mem_cons_of_mem _ hm)) with ⟨b, hb⟩ | ⟨e0, he0, hm⟩
      · left; exact ⟨b, by simp only [hb]; rfl⟩
      · right
        refine ⟨e0 ++ [(g.s.nextEpoch, c)], by simp only [he0]; rfl, ?_⟩
        simp only [List.map_append, List.mem_append]
        exact Or.inl hm
  · intro p hp
    obtain ⟨q, hq, rfl⟩ := List.mem_map.1 hp
    exact List.mem_cons_of_mem _ (I.reg q hq)

theorem inv_notifyAll {h : List CvEv} {g : CvG} (I : CvInv h g) {t : Nat} {c : Clock}
    {s' : CondvarState} {effs : List Eff} (hr : g.s.notifyAll t c = .ok (s', effs)) :
    CvInv (.notifyAll t :: h) ⟨s', applyEffs g.blocked effs⟩ := by
  obtain ⟨_, rfl, rfl⟩ := notifyAll_ok hr
  have hsince : ∀ u, since u (CvEv.notifyAll t :: h) = CvEv.notifyAll t :: since u h :=
    fun u => since_cons_ne _ (by intro h; cases h)
  constructor
  · simp only [List.map_map]
    exact I.nodup
  · intro p hp
    obtain ⟨q, hq, rfl⟩ := List.mem_map.1 hp
    simp only [applyEffs_unblocks]
    have : q.1 ∈ g.s.waiters.map (·.1) := List.mem_map_of_mem hq
    simp [this]
  · intro p hp eps he
    obtain ⟨q, hq, rfl⟩ := List.mem_map.1 hp
    cases he
  · intro e he
    rcases List.mem_cons.1 he with rfl | he
    · exact ⟨fun _ _ h => (by cases h), fun _ _ h => (by cases h)⟩
    · exact I.hist_lt e he
  · intro p hp
    obtain ⟨q, hq, rfl⟩ := List.mem_map.1 hp
    simp only [hsince]
    exact ⟨fun _ => ⟨c, rfl⟩, fun _ => ⟨t, List.mem_cons_self ..⟩⟩
  · intro p hp n ep hn hun
    obtain ⟨q, hq, rfl⟩ := List.mem_map.1 hp
    exact Or.inl ⟨c, rfl⟩
  · intro p hp
    obtain ⟨q, hq, rfl⟩ := List.mem_map.1 hp
    exact List.mem_cons_of_mem _ (I.reg q hq)

theorem consume1_broadcast_iff (e : Nat) (st : CvStatus) :
    (∃ c, consume1 e st = .broadcast c) ↔ ∃ c, st = .broadcast c := by
  cases st with
  | waiting => simp
  | broadcast b => simp
  | signal eps =>
    rcases consume1_signal_cases e eps with ⟨h1, _⟩ | ⟨eps', h1, _⟩ <;> simp [h1]

theorem inv_wake {h : List CvEv} {g : CvG} (I : CvInv h g) {t : Nat} {c : Clock}
    {s' : CondvarState} {effs : List Eff} (hr : g.s.wake t = .ok (s', c, effs)) :
    CvInv (.woke t (wokenBy g.s t) :: h) ⟨s', applyEffs g.blocked effs⟩ := by
  obtain ⟨st, hmem, _, hcase⟩ := wake_ok hr
  have hsince : ∀ u r, since u (CvEv.woke t r :: h) = CvEv.woke t r :: since u h :=
    fun u r => since_cons_ne _ (by intro h; cases h)
  have hsub : ∀ p ∈ g.s.waiters.filter (·.1 != t), p ∈ g.s.waiters := fun p hp => (List.mem_filter.1 hp).1
  have hndf : ((g.s.waiters.filter (·.1 != t)).map (·.1)).Nodup :=
    List.Nodup.sublist (List.Sublist.map _ List.filter_sublist) I.nodup
  rcases hcase with ⟨rfl, hw, rfl, rfl⟩ | ⟨e, rest, rfl, hw, rfl, rfl⟩
  · -- woken by a broadcast
    rw [hw]
    simp only [applyEffs_nil]
    constructor
    · exact hndf
    · exact fun p hp => I.blocked_iff p (hsub p hp)
    · intro p hp eps he
      obtain ⟨h1, h2, h3⟩ := I.sig p (hsub p hp) eps he
      refine ⟨h1, h2, ?_⟩
      intro x hx
      simp only [hsince]
      obtain ⟨a, ⟨n, b⟩, d⟩ := h3 x hx
      refine ⟨a, ⟨n, List.mem_cons_of_mem _ b⟩, ?_⟩
      intro t' hm
      rcases List.mem_cons.1 hm with hm | hm
      · cases hm
      · exact d t' hm
    · intro e he
      rcases List.mem_cons.1 he with rfl | he
      · exact ⟨fun _ _ h => (by cases h), fun _ _ h => (by cases h)⟩
      · exact I.hist_lt e he
    · intro p hp
      rw [← I.bcast p (hsub p hp)]
      simp only [hsince]
      constructor
      · rintro ⟨n, hn⟩
        rcases List.mem_cons.1 hn with hn | hn
        · cases hn
        · exact ⟨n, hn⟩
      · rintro ⟨n, hn⟩
        exact ⟨n, List.mem_cons_of_mem _ hn⟩
    · intro p hp n ep hn hun
      simp only [hsince] at hn
      rcases List.mem_cons.1 hn with hn | hn
      · cases hn
      · exact I.pending p (hsub p hp) n ep hn (fun t' hm => hun t' (List.mem_cons_of_mem _ hm))
    · exact fun p hp => List.mem_cons_of_mem _ (I.reg p (hsub p hp))
  · -- woken by the `notify_one` of epoch `e`
    rw [hw]
    obtain ⟨_, _, hme⟩ := I.sig _ hmem _ rfl
    obtain ⟨helt, _, hfresh⟩ := hme (e, c) (by simp)
    simp only at helt hfresh
    constructor
    · simp only [List.map_map]
      exact hndf
    · intro p hp
      obtain ⟨q, hq, rfl⟩ := List.mem_map.1 hp
      have hqw := hsub q hq
      simp only [applyEffs_blocks]
      have hmemiff : q.1 ∈ ((g.s.waiters.filter (·.1 != t)).filter (fun p => reblocked e p.2)).map (·.1) ↔
          reblocked e q.2 = true := by
        constructor
        · intro hm
          obtain ⟨q', hq', hk⟩ := List.mem_map.1 hm
          have hq'' := List.mem_filter.1 hq'
          have : q' = q := key_unique I.nodup (hsub q' hq''.1) hqw hk
          rw [← this]; exact hq''.2
        · intro hre
          exact List.mem_map_of_mem (List.mem_filter.2 ⟨hq, hre⟩)
      have hIH := I.blocked_iff q hqw
      simp only [hmemiff]
      cases hq2 : q.2 with
      | waiting =>
        rw [hq2] at hIH
        have hb : g.blocked q.1 = true := hIH.2 rfl
        simp [hb]
      | broadcast b =>
        rw [hq2] at hIH
        have hb : ¬ g.blocked q.1 = true := fun hb => by cases hIH.1 hb
        simp [hb]
      | signal eps =>
        rw [hq2] at hIH
        have hb : ¬ g.blocked q.1 = true := fun hb => by cases hIH.1 hb
        rcases consume1_signal_cases e eps with ⟨h1, h2⟩ | ⟨eps', h1, h2, _⟩
        · simp [h1, h2]
        · simp [h1, h2, hb]
    · intro p hp eps' he
      obtain ⟨q, hq, rfl⟩ := List.mem_map.1 hp
      have hqw := hsub q hq
      simp only at he
      cases hq2 : q.2 with
      | waiting => rw [hq2] at he; simp at he
      | broadcast b => rw [hq2] at he; simp at he
      | signal eps =>
        rw [hq2] at he
        obtain ⟨h1, h2, h3⟩ := I.sig q hqw eps hq2
        rcases consume1_signal_cases e eps with ⟨hc, _⟩ | ⟨eps'', hc, _, hsl, hne, huniq⟩
        · rw [hc] at he; cases he
        · rw [hc] at he
          injection he with he
          subst he
          refine ⟨hne h1, List.Nodup.sublist (List.Sublist.map _ hsl) h2, ?_⟩
          intro x hx
          have hxe := hsl.subset hx
          obtain ⟨a, ⟨n, b⟩, d⟩ := h3 x hxe
          simp only [hsince]
          refine ⟨a, ⟨n, List.mem_cons_of_mem _ b⟩, ?_⟩
          intro t' hm
          rcases List.mem_cons.1 hm with hm | hm
          · injection hm with _ hm
            injection hm with hm
            have hm' : x.1 = e := hm
            apply huniq h2 x hx hm'
            simp only [List.any_eq_true]
            exact ⟨x, hxe, by simp [hm']⟩
          · exact d t' hm
    · intro ev he
      rcases List.mem_cons.1 he with rfl | he
      · refine ⟨fun _ _ h => (by cases h), fun _ _ h => ?_⟩
        injection h with _ h
        injection h with h
        subst h
        exact helt
      · exact I.hist_lt ev he
    · intro p hp
      obtain ⟨q, hq, rfl⟩ := List.mem_map.1 hp
      simp only [consume1_broadcast_iff]
      rw [← I.bcast q (hsub q hq)]
      simp only [hsince]
      constructor
      · rintro ⟨n, hn⟩
        rcases List.mem_cons.1 hn with hn | hn
        · cases hn
        · exact ⟨n, hn⟩
      · rintro ⟨n, hn⟩
        exact ⟨n, List.mem_cons_of_mem _ hn⟩
    · intro p hp n ep hn hun
      obtain ⟨q, hq, rfl⟩ := List.mem_map.1 hp
      simp only [hsince] at hn
      rcases List.mem_cons.1 hn with hn | hn
      · cases hn
      · have hne : ep ≠ e := by
          intro heq
          subst heq
          exact hun t (List.mem_cons_self ..)
        rcases I.pending q (hsub q hq) n ep hn (fun t' hm => hun t' (List.mem_cons_of_mem _ hm)) with
          ⟨b, hb⟩ | ⟨e0, he0, hm⟩
        · left; exact ⟨b, by simp only [hb]; rfl⟩
        · right
          obtain ⟨x, hx, hxe⟩ := List.mem_map.1 hm
          obtain ⟨eps', h1, h2, _⟩ := consume1_ne_waiting_of_mem (epoch := e) hx (by rw [hxe]; exact hne)
          exact ⟨eps', by simp only [he0]; exact h1, List.mem_map.2 ⟨x, h2, hxe⟩⟩
    · intro p hp
      obtain ⟨q, hq, rfl⟩ := List.mem_map.1 hp
      exact List.mem_cons_of_mem _ (I.reg q (hsub q hq))

theorem inv_step {h : List CvEv} {g : CvG} (I : CvInv h g) {e : CvEv} {g' : CvG} (hs : CvStep g e g') :
    CvInv (e :: h) g' := by
  cases hs with
  | register hr => exact inv_register I hr
  | notifyOne hr => exact inv_notifyOne I hr
  | notifyAll hr => exact inv_notifyAll I hr
  | wake _ hr => exact inv_wake I hr

theorem reach_inv {h : List CvEv} {g : CvG} (hr : CvReach h g) : CvInv h g := by
  induction hr with
  | init => exact inv_init
  | step _ hs ih => exact inv_step ih hs

/-! ### enabledness of the second stage -/

theorem find_of_mem_nodup {ws : List (Nat × CvStatus)} (hnd : (ws.map (·.1)).Nodup) {p : Nat × CvStatus}
    (hp : p ∈ ws) : ws.find? (·.1 == p.1) = some p := by
  cases hf : ws.find? (·.1 == p.1) with
  | none =>
    rw [List.find?_eq_none] at hf
    exact absurd (by simp) (hf p hp)
  | some q =>
    have hq := List.mem_of_find?_eq_some hf
    have hk : q.1 = p.1 := by simpa using List.find?_some hf
    rw [key_unique hnd hq hp hk]

/-- the second stage succeeds on every registered waiter whose status is `Broadcast` or a
non-empty `Signal` -/
theorem wake_enabled {s : CondvarState} {t : Nat} (hex : ∃ q ∈ s.waiters, q.1 = t)
    (hst : ∀ q ∈ s.waiters, q.1 = t → q.2 ≠ .waiting ∧ q.2 ≠ .signal []) :
    ∃ s' c effs, s.wake t = .ok (s', c, effs) := by
  obtain ⟨q0, hq0, hk0⟩ := hex
  cases hf : s.waiters.find? (·.1 == t) with
  | none =>
    rw [List.find?_eq_none] at hf
    exact absurd (by simp [hk0]) (hf q0 hq0)
  | some q =>
    have hq := List.mem_of_find?_eq_some hf
    have hk : q.1 = t := by simpa using List.find?_some hf
    obtain ⟨h1, h2⟩ := hst q hq hk
    obtain ⟨k, st⟩ := q
    simp only at h1 h2
    unfold CondvarState.wake
    rw [hf]
    cases st with
    | waiting => exact absurd rfl h1
    | broadcast c => exact ⟨_, _, _, rfl⟩
    | signal eps =>
      cases eps with
      | nil => exact absurd rfl h2
      | cons x rest =>
        obtain ⟨e, c⟩ := x
        exact ⟨_, _, _, rfl⟩

/-- after a `notify_one` on waiters that were all `Waiting`, the return of `t` sends every other
waiter back to `Waiting` -/
theorem win_list (ws : List (Nat × CvStatus)) (ep : Nat) (c : Clock) (t : Nat)
    (hall : ∀ q ∈ ws, q.2 = .waiting) :
    ((ws.map (fun p => (p.1, CvStatus.signal [(ep, c)]))).filter (·.1 != t)).map
        (fun q => (q.1, consume1 ep q.2)) = ws.filter (·.1 != t) := by
  induction ws with
  | nil => rfl
  | cons a l ih =>
    obtain ⟨k, st⟩ := a
    have hst : st = .waiting := hall (k, st) (by simp)
    subst hst
    have ih' := ih (fun q hq => hall q (by simp [hq]))
    have hc : consume1 ep (CvStatus.signal [(ep, c)]) = .waiting := by simp [consume1]
    by_cases hk : k = t
    · simp [hk, ih']
    · simp [hk, hc, ih']

/-! ### an executable presentation of the LTS (used to build concrete reachable states) -/

inductive CvCmd where
  | register (t : Nat)
  | notifyOne (t : Nat) (c : Clock)
  | notifyAll (t : Nat) (c : Clock)
  | wake (t : Nat)

def cvDo (g : CvG) : CvCmd → Option (CvEv × CvG)
  | .register t =>
    match g.s.register t with
    | .ok s' => some (.register t, ⟨s', fun x => if x = t then true else g.blocked x⟩)
    | .error _ => none
  | .notifyOne t c =>
    match g.s.notifyOne t c with
    | .ok (s', effs) => some (.notifyOne t g.s.nextEpoch, ⟨s', applyEffs g.blocked effs⟩)
    | .error _ => none
  | .notifyAll t c =>
    match g.s.notifyAll t c with
    | .ok (s', effs) => some (.notifyAll t, ⟨s', applyEffs g.blocked effs⟩)
    | .error _ => none
  | .wake t =>
    if g.blocked t = false then
      match g.s.wake t with
      | .ok (s', _, effs) => some (.woke t (wokenBy g.s t), ⟨s', applyEffs g.blocked effs⟩)
      | .error _ => none
    else none

theorem cvDo_sound {g : CvG} {cmd : CvCmd} {e : CvEv} {g' : CvG} (h : cvDo g cmd = some (e, g')) :
    CvStep g e g' := by
  cases cmd with
  | register t =>
    simp only [cvDo] at h
    split at h
    · rename_i s' hs
      simp only [Option.some.injEq, Prod.mk.injEq] at h
      obtain ⟨rfl, rfl⟩ := h
      exact CvStep.register hs
    · cases h
  | notifyOne t c =>
    simp only [cvDo] at h
    split at h
    · rename_i s' effs hs
      simp only [Option.some.injEq, Prod.mk.injEq] at h
      obtain ⟨rfl, rfl⟩ := h
      exact CvStep.notifyOne hs
    · cases h
  | notifyAll t c =>
    simp only [cvDo] at h
    split at h
    · rename_i s' effs hs
      simp only [Option.some.injEq, Prod.mk.injEq] at h
      obtain ⟨rfl, rfl⟩ := h
      exact CvStep.notifyAll hs
    · cases h
  | wake t =>
    simp only [cvDo] at h
    split at h
    · rename_i hb
      split at h
      · rename_i s' c effs hs
        simp only [Option.some.injEq, Prod.mk.injEq] at h
        obtain ⟨rfl, rfl⟩ := h
        exact CvStep.wake hb hs
      · cases h
    · cases h

def cvRun : CvG → List CvEv → List CvCmd → Option (List CvEv × CvG)
  | g, h, [] => some (h, g)
  | g, h, c :: cs =>
    match cvDo g c with
    | some (e, g') => cvRun g' (e :: h) cs
    | none => none

theorem cvRun_reach {cmds : List CvCmd} {g : CvG} {h : List CvEv} (hr : CvReach h g) {h' : List CvEv} {g' : CvG}
    (hrun : cvRun g h cmds = some (h', g')) : CvReach h' g' := by
  induction cmds generalizing g h with
  | nil =>
    simp only [cvRun, Option.some.injEq, Prod.mk.injEq] at hrun
    obtain ⟨rfl, rfl⟩ := hrun
    exact hr
  | cons c cs ih =>
    simp only [cvRun] at hrun
    split at hrun
    · rename_i e g1 hd
      exact ih (CvReach.step hr (cvDo_sound hd)) hrun
    · cases hrun

end ShuttleProofs.C05
