import ShuttleProofs.Lemmas.ChanReach
/-
  C06 — no reachable, enabled transition panics: the `assert!`s / `expect`s / index panics of
  mpsc.rs are unreachable for a well-formed client (one receiver, endpoints used while alive).
-/
set_option linter.unusedSimpArgs false
namespace ShuttleModel.C06
open ShuttleModel

theorem sendPush_total {s : ChanState} (v : Nat) (c : Clock)
    (h1 : s.bound = none → s.waitingSenders = [])
    (h2 : s.bound ≠ some 0 → s.receiverClock ≠ some []) : ∃ x, s.sendPush v c = .ok x := by
  rcases s with ⟨b, m, rc, ks, kr, ws, wr⟩
  unfold ChanState.sendPush
  simp only [ChanState.nextSenderAfterPush, ChanState.isRdv]
  rcases ws with _ | ⟨w, ws⟩ <;> rcases b with _ | _ | k <;> rcases rc with _ | _ | ⟨x, l⟩ <;>
    simp at h1 h2 ⊢

theorem recvPop_total {s : ChanState} (h0 : s.messages ≠ [])
    (h1 : s.bound = none → s.waitingSenders = []) : ∃ x, s.recvPop = .ok x := by
  rcases s with ⟨b, m, rc, ks, kr, ws, wr⟩
  unfold ChanState.recvPop
  rcases m with _ | ⟨it, m⟩
  · simp at h0
  · rcases ws with _ | ⟨w, ws⟩ <;> rcases b with _ | k <;> simp at h1 ⊢

theorem recvAck_total {s : ChanState} (mine : Clock)
    (h1 : s.bound = none → s.receiverClock = none)
    (h2 : ∀ l k, s.receiverClock = some l → s.bound = some (k + 1) → l.length < k + 1) :
    ∃ x, s.recvAck mine = .ok x := by
  rcases s with ⟨b, m, rc, ks, kr, ws, wr⟩
  unfold ChanState.recvAck
  rcases rc with _ | l <;> rcases b with _ | _ | k <;> simp at h1 h2 ⊢
  rw [if_neg (by omega)]
  simp

theorem sendSeg_total {first : ChanStep SendStage} {v : Nat} {c : Clock} {s1 : ChanState}
    {st : SendStage} {e1 : List Eff} (hfirst : first = .ok (s1, st, e1))
    (hpush : st = .push → ∃ y, s1.sendPush v c = .ok y) : ∃ x, sendSeg first v c = .ok x := by
  subst hfirst
  unfold sendSeg bindStep
  cases st with
  | done r => simp
  | blocked => simp
  | push =>
    obtain ⟨⟨s2, o, e2⟩, hy⟩ := hpush rfl
    simp [bindStep, hy]

theorem recvSeg_total {first : ChanStep RecvStage} {mine : Clock} {s1 : ChanState}
    {st : RecvStage} {e1 : List Eff} (hfirst : first = .ok (s1, st, e1))
    (hpop : st = .pop → ∃ s2 item e2, s1.recvPop = .ok (s2, item, e2) ∧
      ∃ y, s2.recvAck mine = .ok y) : ∃ x, recvSeg first mine = .ok x := by
  subst hfirst
  unfold recvSeg bindStep
  cases st with
  | done r => simp
  | blocked => simp
  | pop =>
    obtain ⟨s2, item, e2, hp, ⟨s3, u, e3⟩, ha⟩ := hpop rfl
    simp [bindStep, hp, ha]

theorem recvStart_never_panics (s : ChanState) (me : Nat) (cb : Bool) :
    ∃ x, s.recvStart me cb = .ok x := by
  unfold ChanState.recvStart
  simp only []
  repeat' split
  all_goals simp

/-- no reachable enabled transition panics -/
theorem fire_total {b : Option Nat} {c : Cfg} {l : Label} (h : Reachable b c) (he : enabled c l) :
    ∃ c', fire c l = .ok c' := by
  have hi := reachable_inv h
  have hunb : c.ch.bound = none → c.ch.waitingSenders = [] := fun hb => (hi.unb hb).1
  cases l with
  | sendStart t v cb clk =>
    obtain ⟨⟨s1, st, e1⟩, hx⟩ := sendStart_never_panics c.ch t cb
    have : ∃ x, sendSeg1 c.ch t v cb clk = .ok x := by
      refine sendSeg_total hx (fun hst => ?_)
      subst hst
      obtain ⟨-, hs⟩ := sendStart_ok hx
      rcases hs with ⟨-, -, hst⟩ | ⟨-, -, -, -, hst⟩ | ⟨-, -, -, -, hst⟩ | ⟨h0, hm, hs1, -⟩
      · cases hst
      · cases hst
      · cases hst
      · obtain ⟨hroom, -, -⟩ := not_mustBlock hm
        subst hs1
        refine sendPush_total v clk hunb (fun hz hc => ?_)
        rcases hbb : c.ch.bound with _ | k
        · rw [(hi.unb hbb).2] at hc; cases hc
        · obtain ⟨l, hl, hlen⟩ := hi.rc k hbb
          rw [hl] at hc
          cases hc
          have hk : 0 < k := by
            rcases k with _ | k
            · exact absurd hbb hz
            · omega
          have := hlen hk
          have := (hroom k hbb).2 hk
          simp at *; omega
    obtain ⟨x, hx⟩ := this
    exact ⟨c.afterSend t v x false, by simp [fire, hx]⟩
  | sendWake t clk =>
    simp only [enabled] at he
    have : ∃ x, sendSeg2 c.ch t (c.pv t) clk = .ok x := by
      by_cases h0 : c.ch.knownReceivers = 0
      · refine sendSeg_total (st := .done .disconnected) (e1 := [])
          (s1 := { c.ch with waitingSenders := c.ch.waitingSenders.filter (· != t) })
          (by simp [sendSeg2, ChanState.sendWake, h0]) ?_
        intro hst; cases hst
      · have hh := hi.sub_head h0 t he.2 he.1
        rcases hw : c.ch.waitingSenders with _ | ⟨w, rest⟩
        · simp [hw] at hh
        · simp [hw] at hh; subst hh
          refine sendSeg_total (s1 := { c.ch with waitingSenders := rest }) (st := .push) (e1 := [])
            (by simp [ChanState.sendWake, h0, hw, ChanState.popHead]) (fun _ => ?_)
          refine sendPush_total _ clk ?_ (fun hz hc => ?_)
          · intro hb; have := hunb hb; rw [hw] at this; cases this
          · simp only [] at hz hc
            rcases hbb : c.ch.bound with _ | k
            · have := hunb hbb; rw [hw] at this; cases this
            · obtain ⟨l, hl, hlen⟩ := hi.rc k hbb
              rw [hl] at hc
              cases hc
              have hk : 0 < k := by
                rcases k with _ | k
                · exact absurd hbb hz
                · omega
              have := hlen hk
              have := (hi.sub_room h0 w he.2 he.1 k hbb).1 hk
              simp at *; omega
    obtain ⟨x, hx⟩ := this
    exact ⟨c.afterSend t (c.pv t) x true, by simp [fire, hx]⟩
  | recvStart t cb mine =>
    simp only [enabled] at he
    obtain ⟨⟨s1, st, e1⟩, hx⟩ := recvStart_never_panics c.ch t cb
    have : ∃ x, recvSeg1 c.ch t cb mine = .ok x := by
      refine recvSeg_total hx (fun hst => ?_)
      subst hst
      rcases recvStart_ok he.2.1 hx with ⟨-, -, -, hst, -⟩ | ⟨-, -, -, -, -, hst, -⟩ |
          ⟨-, -, -, -, hst, -⟩ | ⟨hm, rfl, -, -⟩
      · cases hst
      · cases hst
      · cases hst
      · obtain ⟨⟨s2, item, e2⟩, hp⟩ := recvPop_total hm hunb
        refine ⟨s2, item, e2, hp, ?_⟩
        obtain ⟨rest, hmm, rfl, -⟩ := recvPop_ok hp
        refine recvAck_total mine (fun hb => (hi.unb hb).2) (fun l k hl hb => ?_)
        obtain ⟨l', hl', hlen⟩ := hi.rc (k + 1) hb
        simp only [] at hl
        rw [hl'] at hl; cases hl
        have := hlen (by omega)
        rw [hmm] at this
        simp at this; omega
    obtain ⟨x, hx⟩ := this
    exact ⟨c.afterRecv t x false, by simp [fire, hx]⟩
  | recvWake t mine =>
    simp only [enabled] at he
    have : ∃ x, recvSeg2 c.ch t mine = .ok x := by
      by_cases h0 : c.ch.messages = [] ∧ c.ch.knownSenders = 0
      · refine recvSeg_total (st := .done .disconnected) (e1 := [])
          (s1 := { c.ch with waitingReceivers := c.ch.waitingReceivers.filter (· != t) })
          (by simp [ChanState.recvWake, h0.1, h0.2]) ?_
        intro hst; cases hst
      · have hwl := hi.wr_le
        rcases hw : c.ch.waitingReceivers with _ | ⟨w, rest⟩
        · rw [hw] at he; simp at he
        · rw [hw] at hwl he
          simp at hwl; subst hwl
          simp at he
          obtain ⟨rfl, hub⟩ := he
          have hm : c.ch.messages ≠ [] := by
            rcases hi.rub t hub (by simp [hw]) with hm | hk
            · exact hm
            · intro hm; exact h0 ⟨hm, hk⟩
          have h0' : ¬ (c.ch.messages.isEmpty = true ∧ c.ch.knownSenders = 0) := by
            simp; intro hm'; exact absurd hm' hm
          refine recvSeg_total (s1 := { c.ch with waitingReceivers := [] }) (st := .pop) (e1 := [])
            (by simp [ChanState.recvWake, hm, hw, ChanState.popHead]) (fun _ => ?_)
          obtain ⟨⟨s2, item, e2⟩, hp⟩ :=
            recvPop_total (s := { c.ch with waitingReceivers := [] }) hm hunb
          refine ⟨s2, item, e2, hp, ?_⟩
          obtain ⟨rest, hmm, rfl, -⟩ := recvPop_ok hp
          refine recvAck_total mine (fun hb => (hi.unb hb).2) (fun l k hl hb => ?_)
          obtain ⟨l', hl', hlen⟩ := hi.rc (k + 1) hb
          simp only [] at hl hmm
          rw [hl'] at hl; cases hl
          have := hlen (by omega)
          rw [hmm] at this
          simp at this; omega
    obtain ⟨x, hx⟩ := this
    exact ⟨c.afterRecv t x true, by simp [fire, hx]⟩
  | cloneS => simp [fire, ChanState.cloneSenderStep]
  | dropS stop =>
    simp only [enabled] at he
    cases stop
    · have : c.ch.knownSenders ≠ 0 := by have := hi.ks_ge; omega
      simp [fire, ChanState.dropSenderStep, this]
    · simp [fire, ChanState.dropSenderStep]
  | dropR stop =>
    simp only [enabled] at he
    cases stop
    · have : c.ch.knownReceivers ≠ 0 := by have := hi.kr_ge he.1; omega
      simp [fire, ChanState.dropReceiverStep, this]
    · simp [fire, ChanState.dropReceiverStep]

end ShuttleModel.C06
