import ShuttleProofs.Lemmas.PctExec

/-!
# Packaged specification of `ShuttleModel.Pct.nextTask`
-/

namespace ShuttleProofs.Pct
open ShuttleModel ShuttleModel.Pct

/-- The priority of task `k` in state `s` (`self.priorities.get(&k)`). -/
def prio (s : PctState) (k : Nat) : Option Nat := mapGet s.priorities k

/-- pct.rs:141-142: `runnable.len() > 1 && (self.change_points.contains(&self.steps) || is_yielding)`. -/
def Demote (s : PctState) (runnable : List Nat) (isYielding : Bool) : Prop :=
  runnable.length > 1 ∧ (s.steps ∈ s.changePoints ∨ isYielding = true)

instance (s r y) : Decidable (Demote s r y) := by unfold Demote; infer_instance

theorem mapGet_mapInsert (m : List (Nat × Nat)) (k v j : Nat) :
    mapGet (mapInsert m k v) j = if j = k then some v else mapGet m j := by
  induction m with
  | nil => simp [mapInsert, mapGet]
  | cons p m ih =>
    obtain ⟨k', v'⟩ := p
    simp only [mapInsert]
    by_cases h1 : k = k'
    · subst h1; simp only [if_true, mapGet]; split <;> rfl
    · simp only [h1, if_false]
      by_cases h2 : k < k'
      · simp only [h2, if_true, mapGet]
      · simp only [h2, if_false, mapGet, ih]
        by_cases h3 : j = k'
        · subst h3; simp; intro h; exact absurd h.symm h1
        · simp [h3]

theorem MInv.get_inj {m np} (h : MInv m np) {j k v : Nat} (hj : mapGet m j = some v) (hk : mapGet m k = some v) :
    j = k := by
  rw [mapGet_eq h.keys] at hj hk
  obtain ⟨hj1, hj2⟩ := List.getElem?_eq_some_iff.1 hj
  obtain ⟨hk1, hk2⟩ := List.getElem?_eq_some_iff.1 hk
  exact (List.getElem_inj h.nodup).1 (hj2.trans hk2.symm)

theorem MInv.get_lt {m np} (h : MInv m np) {k v : Nat} (hk : mapGet m k = some v) : v < np :=
  h.bound v (mapGet_mem_vals h.keys hk)

theorem MInv.get_of_lt {m np} (h : MInv m np) {k : Nat} (hk : k < m.length) : ∃ v, mapGet m k = some v :=
  Option.isSome_iff_exists.1 ((mapGet_isSome_iff h.keys k).2 hk)

/-- Along the new-task loop a known task either keeps its priority value or is moved to a fresh (larger than every
    value in use before the loop) one; `next_priority` only grows; the invariant is kept. -/
theorem NewTaskInserts.mono {m np m' np'} (h : NewTaskInserts m np m' np') : MInv m np →
    np ≤ np' ∧ MInv m' np' ∧ m.length ≤ m'.length ∧ ∀ k v, mapGet m k = some v →
      mapGet m' k = some v ∨ ∃ v', mapGet m' k = some v' ∧ np ≤ v' := by
  induction h with
  | done m np => intro hI; exact ⟨Nat.le_refl _, hI, Nat.le_refl _, fun k v hk => Or.inl hk⟩
  | @fresh m np m' np' _ ih =>
    intro hI
    obtain ⟨h1, h2, h3, h4⟩ := ih hI.insert_new_fresh
    rw [length_insert_end hI.keys] at h3
    refine ⟨by omega, h2, by omega, ?_⟩
    intro k v hk
    have hkl := mapGet_lt hI.keys hk
    have : mapGet (mapInsert m m.length np) k = some v := by
      rw [mapGet_mapInsert, if_neg (by omega)]; exact hk
    rcases h4 k v this with h | ⟨v', h, hv⟩
    · exact Or.inl h
    · exact Or.inr ⟨v', h, by omega⟩
  | @swap m np m' np' t old ht1 htl hg _ ih =>
    intro hI
    obtain ⟨h1, h2, h3, h4⟩ := ih (hI.insert_new_swap hg)
    have hlen : (mapInsert (mapInsert m t np) m.length old).length = m.length + 1 := by
      have := length_insert_end (hI.insert_known htl).keys old
      rw [length_insert_lt hI.keys htl] at this
      exact this
    rw [hlen] at h3
    refine ⟨by omega, h2, by omega, ?_⟩
    intro k v hk
    have hkl := mapGet_lt hI.keys hk
    by_cases hkt : k = t
    · subst hkt
      have : mapGet (mapInsert (mapInsert m k np) m.length old) k = some np := by
        rw [mapGet_mapInsert, if_neg (by omega), mapGet_mapInsert, if_pos rfl]
      rcases h4 k np this with h | ⟨v', h, hv⟩
      · exact Or.inr ⟨np, h, Nat.le_refl _⟩
      · exact Or.inr ⟨v', h, by omega⟩
    · have : mapGet (mapInsert (mapInsert m t np) m.length old) k = some v := by
        rw [mapGet_mapInsert, if_neg (by omega), mapGet_mapInsert, if_neg hkt]; exact hk
      rcases h4 k v this with h | ⟨v', h, hv⟩
      · exact Or.inl h
      · exact Or.inr ⟨v', h, by omega⟩

/-- Everything `next_task` does when it returns (i.e. does not panic). -/
theorem nextTask_spec {s s' : PctState} {runnable : List Nat} {current : Option Nat} {y : Bool} {c : Nat}
    (hI : Inv s) (h : nextTask s runnable current y = .ok c s') :
    ∃ mx mid npMid,
      listMax runnable = some mx ∧
      NewTaskInserts s.priorities s.nextPriority mid npMid ∧ MInv mid npMid ∧
      mid.length = max s.priorities.length (mx + 1) ∧
      npMid = s.nextPriority + (mid.length - s.priorities.length) ∧
      (Demote s runnable y → ∃ cur, current = some cur ∧ cur < mid.length ∧
        s'.priorities = mapInsert mid cur npMid ∧ s'.nextPriority = npMid + 1) ∧
      (¬ Demote s runnable y → s'.priorities = mid ∧ s'.nextPriority = npMid) ∧
      s'.priorities.length = mid.length ∧
      s'.maxIterations = s.maxIterations ∧ s'.maxDepth = s.maxDepth ∧ s'.iterations = s.iterations ∧
      s'.changePoints = s.changePoints ∧ s'.data = s.data ∧
      s'.steps = (if runnable.length > 1 then s.steps + 1 else s.steps) ∧
      s'.maxSteps = (if runnable.length > 1 then max s.maxSteps (s.steps + 1) else s.maxSteps) ∧
      minByKey (mapGet s'.priorities) runnable = some c := by
  obtain ⟨mx, st, hmx, hl, hc, hk⟩ := nextTask_ok h
  obtain ⟨a1, a2, a3, a4⟩ := newTaskLoop_spec _
    { priorities := s.priorities, nextPriority := s.nextPriority, rng := s.rng } st hI hl
  obtain ⟨b1, b2, b3, b4, _, b6, b7, b8, hd, hnd⟩ := changeStep_spec hc
  simp only at a1 a2 a3 a4
  have hlenmid : st.priorities.length = max s.priorities.length (mx + 1) := by omega
  have hlen' : s'.priorities.length = st.priorities.length := by
    by_cases hdc : Demote s runnable y
    · obtain ⟨cur, _, hsome, hp, _⟩ := hd hdc
      rw [hp]; exact length_insert_lt a2.keys ((mapGet_isSome_iff a2.keys cur).1 hsome) _
    · rw [(hnd hdc).1]
  refine ⟨mx, st.priorities, st.nextPriority, hmx, a1, a2, hlenmid, by omega, ?_, ?_, hlen', b1, b2, b3, b4, b6, b7, b8, hk⟩
  · intro hdc
    obtain ⟨cur, hcur, hsome, hp, hnp⟩ := hd hdc
    exact ⟨cur, hcur, (mapGet_isSome_iff a2.keys cur).1 hsome, hp, hnp⟩
  · intro hdc; exact hnd hdc

end ShuttleProofs.Pct

namespace ShuttleProofs.Pct
open ShuttleModel ShuttleModel.Pct

/-- If the new-task loop did not grow the map, it did nothing. -/
theorem NewTaskInserts.eq_of_length {m np m' np'} (h : NewTaskInserts m np m' np') (hI : MInv m np)
    (hl : m'.length = m.length) : m' = m ∧ np' = np := by
  cases h with
  | done => exact ⟨rfl, rfl⟩
  | fresh h1 =>
    have := (h1.mono hI.insert_new_fresh).2.2.1
    rw [length_insert_end hI.keys] at this; omega
  | swap t old ht1 htl hg h1 =>
    have := (h1.mono (hI.insert_new_swap hg)).2.2.1
    have hlen : (mapInsert (mapInsert m t np) m.length old).length = m.length + 1 := by
      have := length_insert_end (hI.insert_known htl).keys old
      rw [length_insert_lt hI.keys htl] at this
      exact this
    omega

instance (m) : Decidable (KeysOk m) := by unfold KeysOk; infer_instance

instance (m np) : Decidable (MInv m np) :=
  decidable_of_iff (KeysOk m ∧ (vals m).Nodup ∧ ∀ v ∈ vals m, v < np)
    ⟨fun ⟨a, b, c⟩ => ⟨a, b, c⟩, fun ⟨a, b, c⟩ => ⟨a, b, c⟩⟩

instance (s) : Decidable (Inv s) := by unfold Inv; infer_instance

end ShuttleProofs.Pct
