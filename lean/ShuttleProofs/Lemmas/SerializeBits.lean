import ShuttleModel.Serialize

namespace ShuttleModel

@[simp] theorem natToBits_length (w n : Nat) : (natToBits w n).length = w := by
  induction w generalizing n with
  | zero => rfl
  | succ w ih => simp [natToBits, ih]

theorem bitsToNat_natToBits (w n : Nat) : bitsToNat (natToBits w n) = n % 2 ^ w := by
  induction w generalizing n with
  | zero => simp [natToBits, bitsToNat, Nat.mod_one]
  | succ w ih =>
    simp only [natToBits, bitsToNat, ih]
    rw [Nat.pow_succ, Nat.mul_comm (2 ^ w) 2, Nat.mod_mul]
    have h2 : n % 2 = 0 ∨ n % 2 = 1 := by omega
    rcases h2 with h | h <;> simp [h]

theorem bitsToNat_natToBits_of_lt {w n : Nat} (h : n < 2 ^ w) : bitsToNat (natToBits w n) = n := by
  rw [bitsToNat_natToBits, Nat.mod_eq_of_lt h]

theorem bitsToNat_lt (l : List Bool) : bitsToNat l < 2 ^ l.length := by
  induction l with
  | nil => simp [bitsToNat]
  | cons b bs ih =>
    simp only [bitsToNat, List.length_cons, Nat.pow_succ]
    cases b <;> simp <;> omega

/-- Storing a loaded value back gives the same bits, zero-padded to the store width. -/
theorem natToBits_bitsToNat (l : List Bool) (w : Nat) (h : l.length ≤ w) :
    natToBits w (bitsToNat l) = l ++ List.replicate (w - l.length) false := by
  induction l generalizing w with
  | nil =>
    simp only [bitsToNat, List.length_nil, Nat.sub_zero, List.nil_append]
    clear h
    induction w with
    | zero => rfl
    | succ w ih => simp [natToBits, List.replicate_succ, ih]
  | cons b bs ih =>
    cases w with
    | zero => simp at h
    | succ w =>
      simp only [List.length_cons, Nat.add_le_add_iff_right] at h
      have hdiv : ((if b = true then 1 else 0) + 2 * bitsToNat bs) / 2 = bitsToNat bs := by
        cases b <;> simp <;> omega
      have hmod : (((if b = true then 1 else 0) + 2 * bitsToNat bs) % 2 == 1) = b := by
        cases b <;> simp <;> omega
      simp only [natToBits, bitsToNat, hdiv, hmod, ih w h, List.length_cons, Nat.add_sub_add_right,
        List.cons_append]

@[simp] theorem bytesToBits_length (bs : List Nat) : (bytesToBits bs).length = 8 * bs.length := by
  induction bs with
  | nil => rfl
  | cons b bs ih => simp [bytesToBits, ih]; omega

theorem bytesToBits_take (j : Nat) (bs : List Nat) :
    bytesToBits (bs.take j) = (bytesToBits bs).take (8 * j) := by
  induction j generalizing bs with
  | zero => simp [bytesToBits]
  | succ j ih =>
    cases bs with
    | nil => simp [bytesToBits]
    | cons b bs =>
      have e : 8 * (j + 1) - (natToBits 8 b).length = 8 * j := by simp; omega
      rw [List.take_succ_cons, bytesToBits, bytesToBits, ih, List.take_append, e,
        List.take_of_length_le (l := natToBits 8 b) (by simp; omega)]

@[simp] theorem packBytes_length (k : Nat) (bits : List Bool) : (packBytes k bits).length = k := by
  induction k generalizing bits with
  | zero => rfl
  | succ k ih => simp [packBytes, ih]

theorem packBytes_lt (k : Nat) (bits : List Bool) : ∀ b ∈ packBytes k bits, b < 256 := by
  induction k generalizing bits with
  | zero => simp [packBytes]
  | succ k ih =>
    intro b hb
    simp only [packBytes, List.mem_cons] at hb
    rcases hb with rfl | hb
    · have := bitsToNat_lt (bits.take 8)
      have h8 : (bits.take 8).length ≤ 8 := by simp; omega
      calc bitsToNat (bits.take 8) < 2 ^ (bits.take 8).length := this
        _ ≤ 2 ^ 8 := Nat.pow_le_pow_right (by omega) h8
    · exact ih _ b hb

/-- Reading back the storage of a bit vector gives the written bits followed by zero padding. -/
theorem bytesToBits_packBytes (k : Nat) (bits : List Bool) (h : bits.length ≤ 8 * k) :
    bytesToBits (packBytes k bits) = bits ++ List.replicate (8 * k - bits.length) false := by
  induction k generalizing bits with
  | zero =>
    have : bits = [] := by cases bits <;> simp_all
    subst this; rfl
  | succ k ih =>
    simp only [packBytes, bytesToBits]
    rw [ih (bits.drop 8) (by simp; omega)]
    rw [natToBits_bitsToNat _ 8 (by simp; omega)]
    by_cases h8 : 8 ≤ bits.length
    · have e1 : 8 - (List.take 8 bits).length = 0 := by simp; omega
      rw [e1]
      simp only [List.replicate_zero, List.append_nil, List.length_drop]
      rw [← List.append_assoc, List.take_append_drop]
      congr 2; omega
    · have hlt : bits.length < 8 := by omega
      rw [List.take_of_length_le (by omega), List.drop_eq_nil_of_le (by omega)]
      simp only [List.length_nil, Nat.sub_zero, List.nil_append, List.append_assoc,
        List.replicate_append_replicate]
      congr 2; omega

end ShuttleModel
