import ShuttleProofs.Lemmas.PctStep

/-!
# Specification lemmas for `ShuttleModel.Pct.newExecution`
-/

namespace ShuttleProofs.Pct
open ShuttleModel ShuttleModel.Pct

theorem take_succ_set {l : List Nat} {i : Nat} (hi : i < l.length) (a : Nat) :
    (l.set i a).take (i + 1) = l.take i ++ [a] := by
  rw [List.take_add_one, List.take_set_of_le (Nat.le_refl i)]
  simp [hi]

theorem reinsertLoop_spec : ∀ (ps : List Nat) (m : List (Nat × Nat)) (i : Nat), KeysOk m →
    i + ps.length = m.length →
    ∃ m', reinsertLoop m i ps = some m' ∧ KeysOk m' ∧ m'.length = m.length ∧ vals m' = (vals m).take i ++ ps := by
  intro ps
  induction ps with
  | nil =>
    intro m i hk hl
    refine ⟨m, rfl, hk, rfl, ?_⟩
    simp at hl; subst hl; rw [← vals_length m, List.take_length]; simp
  | cons p ps ih =>
    intro m i hk hl
    have hi : i < m.length := by simp at hl; omega
    have hg : (mapGet m i).isSome := (mapGet_isSome_iff hk i).2 hi
    obtain ⟨old, hold⟩ := Option.isSome_iff_exists.1 hg
    simp only [reinsertLoop, hold]
    have hk1 := keysOk_insert_lt hk hi p
    have hl1 := length_insert_lt hk hi p
    obtain ⟨m', h1, h2, h3, h4⟩ := ih (mapInsert m i p) (i + 1) hk1 (by rw [hl1]; simp at hl; omega)
    refine ⟨m', h1, h2, by omega, ?_⟩
    rw [h4, vals_insert_lt hk hi, take_succ_set (by simpa using hi)]
    simp

/-- Everything `new_execution` does, when it returns `Some`. -/
theorem newExecution_some {s s' : PctState} {seed : Nat} (hI : Inv s) (h : newExecution s = .some seed s') :
    s.iterations < s.maxIterations ∧
    s'.maxIterations = s.maxIterations ∧ s'.maxDepth = s.maxDepth ∧ s'.iterations = s.iterations + 1 ∧
    s'.steps = 0 ∧ s'.maxSteps = s.maxSteps ∧ (seed, s'.data) = s.data.reinitialize ∧
    (s.iterations = 0 → s'.priorities = s.priorities ∧ s'.nextPriority = s.nextPriority ∧
      s'.changePoints = s.changePoints ∧ s'.rng = s.rng) ∧
    (s.iterations > 0 → 0 < s.maxSteps ∧
      ∃ prios g cps,
        Rng.shuffle s.rng (List.range s.priorities.length) = some (prios, g) ∧
        KeysOk s'.priorities ∧ s'.priorities.length = s.priorities.length ∧ vals s'.priorities = prios ∧
        s'.nextPriority = s.priorities.length ∧
        Rng.indexSample g (s.maxSteps - 1) (min (s.maxDepth - 1) (s.maxSteps - 1)) = some (cps, s'.rng) ∧
        s'.changePoints = cps.map (· + 1)) := by
  unfold newExecution at h
  by_cases hit : s.iterations ≥ s.maxIterations
  · simp [hit] at h
  · simp only [hit, if_false] at h
    by_cases h0 : s.iterations > 0
    · simp only [h0, if_true] at h
      by_cases hms : s.maxSteps > 0
      · simp only [hms, not_true_eq_false, if_false] at h
        cases hsh : Rng.shuffle s.rng (List.range s.priorities.length) with
        | none => simp [hsh] at h
        | some pg =>
          obtain ⟨prios, g⟩ := pg
          simp only [hsh] at h
          have hperm := shuffle_perm hsh
          obtain ⟨m', r1, r2, r3, r4⟩ := reinsertLoop_spec prios s.priorities 0 hI.keys
            (by rw [hperm.length_eq]; simp)
          simp only [r1] at h
          cases hix : Rng.indexSample g (s.maxSteps - 1) (min (s.maxDepth - 1) (s.maxSteps - 1)) with
          | none => simp [hix] at h
          | some cg =>
            obtain ⟨cps, g'⟩ := cg
            simp only [hix, NewExec.some.injEq] at h
            obtain ⟨rfl, rfl⟩ := h
            refine ⟨by omega, rfl, rfl, rfl, rfl, rfl, rfl, fun h => by omega, fun _ => ⟨hms, prios, g, cps, rfl, r2, r3, ?_, r3, hix, rfl⟩⟩
            simpa using r4
      · simp [hms] at h
    · simp only [h0, if_false, NewExec.some.injEq] at h
      obtain ⟨rfl, rfl⟩ := h
      exact ⟨by omega, rfl, rfl, rfl, rfl, rfl, rfl, fun _ => ⟨rfl, rfl, rfl, rfl⟩, fun h => absurd h h0⟩

theorem inv_newFromSeed (seed d it : Nat) : Inv (PctState.newFromSeed seed d it) := by
  refine ⟨?_, ?_, ?_⟩
  · simp [PctState.newFromSeed, KeysOk, keys, List.map_map, Function.comp_def]
  · simp [PctState.newFromSeed, vals, List.map_map, Function.comp_def, List.nodup_range]
  · simp [PctState.newFromSeed, vals, List.map_map, Function.comp_def]

theorem inv_newExecution {s s' : PctState} {seed : Nat} (hI : Inv s) (h : newExecution s = .some seed s') :
    Inv s' := by
  obtain ⟨_, _, _, _, _, _, _, hz, hp⟩ := newExecution_some hI h
  by_cases h0 : s.iterations > 0
  · obtain ⟨_, prios, g, cps, hsh, hk, hl, hv, hnp, _, _⟩ := hp h0
    have hperm := shuffle_perm hsh
    refine ⟨hk, ?_, ?_⟩
    · rw [hv]; exact (hperm.nodup_iff).2 List.nodup_range
    · rw [hv, hnp]; intro v hv'
      have := (hperm.mem_iff).1 hv'
      simpa using this
  · obtain ⟨a, b, _, _⟩ := hz (by omega)
    unfold Inv; rw [a, b]; exact hI

theorem inv_nextU64 {s : PctState} (hI : Inv s) : Inv (nextU64 s).2 := by
  unfold nextU64
  cases s.data.nextU64 with
  | mk v ds => exact hI

theorem inv_nextTask {s s' : PctState} {runnable : List Nat} {current : Option Nat} {y : Bool} {c : Nat}
    (hI : Inv s) (h : nextTask s runnable current y = .ok c s') : Inv s' := by
  obtain ⟨mx, st, _, hl, hc, _⟩ := nextTask_ok h
  obtain ⟨_, hI1, _, _⟩ := newTaskLoop_spec _
    { priorities := s.priorities, nextPriority := s.nextPriority, rng := s.rng } st hI hl
  obtain ⟨_, _, _, _, _, _, _, _, hd, hnd⟩ := changeStep_spec hc
  by_cases hdc : DemoteCond { s with priorities := st.priorities, nextPriority := st.nextPriority, rng := st.rng }
      runnable.length y
  · obtain ⟨cur, _, hsome, hp, hnp⟩ := hd hdc
    unfold Inv; rw [hp, hnp]
    exact MInv.insert_known hI1 ((mapGet_isSome_iff hI1.keys cur).1 hsome)
  · obtain ⟨hp, hnp⟩ := hnd hdc
    unfold Inv; rw [hp, hnp]; exact hI1

end ShuttleProofs.Pct
