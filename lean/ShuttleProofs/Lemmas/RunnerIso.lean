import ShuttleModel.Runner
import ShuttleProofs.Lemmas.KernelLoop
/-
  `Runner::run` hands an execution nothing but the scheduler: helper definitions and lemmas for C14.
-/
namespace ShuttleProofs.RunnerIso
open ShuttleModel ShuttleProofs.Kernel

variable {P : Program} {σ : Type}

/-- `Chain s es`: starting with scheduler state `s`, each element `(seed, r)` of `es` is what a stand-alone
`Execution::run` produces from the state `new_execution` returned, and the next element starts from the
scheduler state that execution left behind — and from nothing else -/
inductive Chain (P : Program) (F : FullScheduler σ) (ms : MaxSteps) (fuel segFuel : Nat) :
    σ → List (Nat × Result P σ) → Prop
  | nil (s : σ) : Chain P F ms fuel segFuel s []
  | cons {s s' : σ} {seed : Nat} {rest : List (Nat × Result P σ)}
      (hnew : F.newExec s = .some seed s')
      (hrest : Chain P F ms fuel segFuel (execute P F.sched ms seed s' fuel segFuel).st.sch rest) :
      Chain P F ms fuel segFuel s ((seed, execute P F.sched ms seed s' fuel segFuel) :: rest)

theorem runner_step_ok (F : FullScheduler σ) (ms : MaxSteps) (fuel segFuel n : Nat) {s s' : σ} {seed : Nat}
    (acc : List (Nat × Result P σ)) (hne : F.newExec s = .some seed s')
    (hf : (execute P F.sched ms seed s' fuel segFuel).outcome.isFailure = false) :
    runner P F ms fuel segFuel (n + 1) s acc =
      runner P F ms fuel segFuel n (execute P F.sched ms seed s' fuel segFuel).st.sch
        ((seed, execute P F.sched ms seed s' fuel segFuel) :: acc) := by
  rw [runner]; simp only [hne, hf]; simp

theorem runner_step_fail (F : FullScheduler σ) (ms : MaxSteps) (fuel segFuel n : Nat) {s s' : σ} {seed : Nat}
    (acc : List (Nat × Result P σ)) (hne : F.newExec s = .some seed s')
    (hf : (execute P F.sched ms seed s' fuel segFuel).outcome.isFailure = true) :
    runner P F ms fuel segFuel (n + 1) s acc =
      { execs := ((seed, execute P F.sched ms seed s' fuel segFuel) :: acc).reverse, count := none,
        final := (execute P F.sched ms seed s' fuel segFuel).st.sch } := by
  rw [runner]; simp only [hne, hf]; simp

/-- the accumulator of `runner` is only ever prepended to the result -/
theorem runner_acc (F : FullScheduler σ) (ms : MaxSteps) (fuel segFuel : Nat) :
    ∀ (iters : Nat) (s : σ) (acc : List (Nat × Result P σ)),
      (runner P F ms fuel segFuel iters s acc).execs =
        acc.reverse ++ (runner P F ms fuel segFuel iters s []).execs ∧
      (runner P F ms fuel segFuel iters s acc).final = (runner P F ms fuel segFuel iters s []).final ∧
      (runner P F ms fuel segFuel iters s acc).newExecPanic = (runner P F ms fuel segFuel iters s []).newExecPanic ∧
      (runner P F ms fuel segFuel iters s acc).count =
        (runner P F ms fuel segFuel iters s []).count.map (· + acc.length) := by
  intro iters
  induction iters with
  | zero => intro s acc; simp [runner]
  | succ n ih =>
    intro s acc
    cases hne : F.newExec s with
    | none => simp [runner, hne]
    | panic msg => simp [runner, hne]
    | some seed s' =>
      cases hf : (execute P F.sched ms seed s' fuel segFuel).outcome.isFailure with
      | true => rw [runner_step_fail F ms fuel segFuel n acc hne hf, runner_step_fail F ms fuel segFuel n [] hne hf]; simp
      | false =>
        rw [runner_step_ok F ms fuel segFuel n acc hne hf, runner_step_ok F ms fuel segFuel n [] hne hf]
        have h1 := ih (execute P F.sched ms seed s' fuel segFuel).st.sch
          ((seed, execute P F.sched ms seed s' fuel segFuel) :: acc)
        have h2 := ih (execute P F.sched ms seed s' fuel segFuel).st.sch
          [(seed, execute P F.sched ms seed s' fuel segFuel)]
        refine ⟨?_, ?_, ?_, ?_⟩
        · rw [h1.1, h2.1]; simp
        · rw [h1.2.1, h2.2.1]
        · rw [h1.2.2.1, h2.2.2.1]
        · rw [h1.2.2.2, h2.2.2.2]
          cases (runner P F ms fuel segFuel n (execute P F.sched ms seed s' fuel segFuel).st.sch []).count with
          | none => rfl
          | some c => simp; omega

theorem runner_chain (F : FullScheduler σ) (ms : MaxSteps) (fuel segFuel : Nat) :
    ∀ (iters : Nat) (s : σ), Chain P F ms fuel segFuel s (runner P F ms fuel segFuel iters s []).execs := by
  intro iters
  induction iters with
  | zero => intro s; simp [runner]; exact .nil s
  | succ n ih =>
    intro s
    cases hne : F.newExec s with
    | none => simp only [runner, hne]; exact .nil s
    | panic msg => simp only [runner, hne]; exact .nil s
    | some seed s' =>
      cases hf : (execute P F.sched ms seed s' fuel segFuel).outcome.isFailure with
      | true =>
        rw [runner_step_fail F ms fuel segFuel n [] hne hf]
        exact .cons hne (.nil _)
      | false =>
        rw [runner_step_ok F ms fuel segFuel n [] hne hf, (runner_acc F ms fuel segFuel n _ _).1]
        exact .cons hne (ih _)

/-- element `i` of a chain, with the scheduler state the runner held just before it -/
theorem Chain.get {F : FullScheduler σ} {ms : MaxSteps} {fuel segFuel : Nat} {s : σ}
    {es : List (Nat × Result P σ)} (h : Chain P F ms fuel segFuel s es) :
    ∀ (i : Nat) (hi : i < es.length),
      ∃ sBefore s', F.newExec sBefore = .some es[i].1 s' ∧
        es[i].2 = execute P F.sched ms es[i].1 s' fuel segFuel ∧
        (i = 0 → sBefore = s) ∧
        (∀ j (hj : j + 1 = i), sBefore = (es[j]'(by omega)).2.st.sch) := by
  induction h with
  | nil s => intro i hi; simp at hi
  | @cons s s' seed rest hnew hrest ih =>
    intro i hi
    cases i with
    | zero => exact ⟨s, s', hnew, rfl, fun _ => rfl, fun j hj => by omega⟩
    | succ j =>
      have hj : j < rest.length := by simpa using hi
      obtain ⟨sb, s'', h1, h2, h3, h4⟩ := ih j hj
      refine ⟨sb, s'', by simpa using h1, by simpa using h2, fun h => by omega, ?_⟩
      intro j' hj'
      have : j' = j := by omega
      subst this
      cases j' with
      | zero => simpa using h3 rfl
      | succ j'' => simpa using h4 j'' rfl

end ShuttleProofs.RunnerIso
