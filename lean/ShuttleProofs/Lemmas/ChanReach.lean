import ShuttleProofs.Lemmas.ChanInvSend
import ShuttleProofs.Lemmas.ChanInvRecv
/-
  C06 — every reachable configuration satisfies the invariant.
-/
namespace ShuttleModel.C06
open ShuttleModel

theorem inv_step {c c' : Cfg} {l : Label} (hi : Inv c) (he : enabled c l) (hf : fire c l = .ok c') :
    Inv c' := by
  cases l with
  | sendStart t v cb clk => exact inv_sendStart hi he hf
  | sendWake t clk => exact inv_sendWake hi he hf
  | recvStart t cb mine => exact inv_recvStart hi he hf
  | recvWake t mine => exact inv_recvWake hi he hf
  | cloneS => exact inv_clone hi he hf
  | dropS stop => exact inv_dropS hi he hf
  | dropR stop => exact inv_dropR hi he hf

theorem reachable_inv {b : Option Nat} {c : Cfg} (h : Reachable b c) : Inv c := by
  induction h with
  | init => exact inv_init b
  | step l _ he hf ih => exact inv_step ih he hf

/-- the channel's bound never changes -/
theorem fire_bound {c c' : Cfg} {l : Label} (hf : fire c l = .ok c') : c'.ch.bound = c.ch.bound := by
  cases l with
  | sendStart t v cb clk =>
    obtain ⟨s', r, e, hx, rfl⟩ := fire_sendStart hf
    rcases sendSeg1_ok hx with ⟨h0, rfl, rfl, hu⟩ | ⟨h0, hm, rfl, rfl, rfl, hu⟩ |
        ⟨h0, hm, rfl, rfl, rfl, hu⟩ | ⟨h0, hm, rfl, o, e', hp, hu⟩
    · rfl
    · rfl
    · rfl
    · obtain ⟨rfl, -, -⟩ := sendPush_state hp; rfl
  | sendWake t clk =>
    obtain ⟨s', r, e, hx, rfl⟩ := fire_sendWake hf
    rcases sendSeg2_ok hx with ⟨h0, rfl, rfl, hu⟩ | ⟨h0, rfl, rest, o, e', hw, hp, hu⟩
    · rfl
    · obtain ⟨rfl, -, -⟩ := sendPush_state hp; rfl
  | recvStart t cb mine =>
    obtain ⟨s', r, e, hx, rfl⟩ := fire_recvStart hf
    simp only [recvSeg1] at hx
    obtain ⟨s1, st, e1, hfst, hc⟩ := recvSeg_ok hx
    have hb1 : s1.bound = c.ch.bound := by
      unfold ChanState.recvStart at hfst
      simp only [] at hfst
      repeat' split at hfst
      all_goals (simp at hfst; try (obtain ⟨rfl, -, -⟩ := hfst; rfl))
    rcases hc with ⟨res, -, rfl, -, -⟩ | ⟨-, rfl, -, -⟩ | ⟨-, s2, item, e2, hp, ha, -, -⟩
    · exact hb1
    · exact hb1
    · obtain ⟨rest, -, rfl, -⟩ := recvPop_ok hp
      have := recvAck_state ha
      subst this
      exact hb1
  | recvWake t mine =>
    obtain ⟨s', r, e, hx, rfl⟩ := fire_recvWake hf
    rcases recvSeg2_ok hx with ⟨hm, hk, rfl, rfl, hu⟩ | ⟨h0, wrest, item, rest, hw, hm, rfl, hu, ha⟩
    · rfl
    · have := recvAck_state ha
      subst this
      rfl
  | cloneS => simp [fire, ChanState.cloneSenderStep] at hf; subst hf; rfl
  | dropS stop =>
    simp only [fire, ChanState.dropSenderStep] at hf
    cases stop
    · by_cases h0 : c.ch.knownSenders = 0
      · simp [h0] at hf
      · simp [h0] at hf; subst hf; rfl
    · simp at hf; subst hf; rfl
  | dropR stop =>
    simp only [fire, ChanState.dropReceiverStep] at hf
    cases stop
    · by_cases h0 : c.ch.knownReceivers = 0
      · simp [h0] at hf
      · simp [h0] at hf; subst hf; rfl
    · simp at hf; subst hf; rfl

theorem reachable_bound {b : Option Nat} {c : Cfg} (h : Reachable b c) : c.ch.bound = b := by
  induction h with
  | init => rfl
  | step l _ _ hf ih => rw [fire_bound hf, ih]

end ShuttleModel.C06
