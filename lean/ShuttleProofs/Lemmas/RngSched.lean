/-
  Helper definitions and lemmas for C10 `iteration_reproducible`:
  a deterministic "program" driven by the `RandomScheduler` model, and the fact that an execution
  depends only on the two generators that `new_execution` re-seeds.
-/
import ShuttleModel.Rng

namespace ShuttleProofs.Rng
open ShuttleModel.Rng

/-- What the scheduler answered so far in the current execution. -/
inductive Event
  | chose (id : Nat)    -- answer of `next_task`
  | drew (v : Nat)      -- answer of `next_u64`
  deriving DecidableEq, Repr

/-- What the program under test asks next. -/
inductive Request
  | offer (ids : List Nat)   -- a scheduling point with these runnable task ids
  | draw                     -- a `shuttle::rand` draw
  | stop                     -- the execution is over
  deriving Repr

/-- An arbitrary deterministic program: the next request is a function of the answers received
    so far in this execution (the abstract offered-list oracle). -/
abbrev Program := List Event → Request

/-- One execution (after `new_execution`): serve at most `k` requests. Returns the history of
    answers and the final scheduler state. A `next_task` panic (empty offer) ends the execution. -/
def runExec (prog : Program) : Nat → RandomScheduler → List Event → List Event × RandomScheduler
  | 0, s, h => (h, s)
  | k + 1, s, h =>
    match prog h with
    | .stop => (h, s)
    | .draw => runExec prog k (s.nextU64).2 (h ++ [.drew (s.nextU64).1])
    | .offer ids =>
      match s.nextTask ids with
      | (some id, s') => runExec prog k s' (h ++ [.chose id])
      | (none, _) => (h, s)

/-- The whole test: up to `n` rounds of `new_execution` followed by one execution; returns, per
    execution, the schedule seed handed out by `new_execution` and the history of answers. -/
def runAll (prog : Program) (k : Nat) : Nat → RandomScheduler → List (Nat × List Event)
  | 0, _ => []
  | n + 1, s =>
    match s.newExecution with
    | none => []
    | some (seed, s') => (seed, (runExec prog k s' []).1) :: runAll prog k n (runExec prog k s' []).2

-- The PCG arithmetic is never unfolded in this file (unfolding it makes definitional-equality
-- checks explode); all proofs go through rewriting and case analysis on opaque results.
attribute [local irreducible] seedFromU64 ShuttleModel.Rng.nextU64 ShuttleModel.Rng.choose

/-- The part of the scheduler state an execution can observe. -/
def Sim (s t : RandomScheduler) : Prop := s.rng = t.rng ∧ s.dataSource = t.dataSource

theorem Sim.refl (s : RandomScheduler) : Sim s s := ⟨rfl, rfl⟩

theorem nextU64_sim {s t : RandomScheduler} (h : Sim s t) :
    (s.nextU64).1 = (t.nextU64).1 ∧ Sim (s.nextU64).2 (t.nextU64).2 := by
  obtain ⟨h1, h2⟩ := h
  unfold RandomScheduler.nextU64 Sim
  rw [h2]
  generalize t.dataSource.nextU64 = X
  cases X with
  | mk v ds => exact ⟨rfl, h1, rfl⟩

theorem nextTask_sim {s t : RandomScheduler} (h : Sim s t) (ids : List Nat) :
    (s.nextTask ids).1 = (t.nextTask ids).1 ∧ Sim (s.nextTask ids).2 (t.nextTask ids).2 := by
  obtain ⟨h1, h2⟩ := h
  unfold RandomScheduler.nextTask
  rw [h1]
  generalize choose t.rng ids = X
  match X with
  | some (some id, g) => exact ⟨rfl, rfl, h2⟩
  | some (none, g) => exact ⟨rfl, h1, h2⟩
  | none => exact ⟨rfl, h1, h2⟩

/-- An execution is a function of the choice rng and the data source only. -/
theorem runExec_sim (prog : Program) (k : Nat) :
    ∀ (s t : RandomScheduler) (h : List Event), Sim s t →
      (runExec prog k s h).1 = (runExec prog k t h).1 ∧
      Sim (runExec prog k s h).2 (runExec prog k t h).2 := by
  induction k with
  | zero => intro s t h hs; exact ⟨rfl, hs⟩
  | succ k ih =>
    intro s t h hs
    unfold runExec
    cases hp : prog h with
    | stop => exact ⟨rfl, hs⟩
    | draw =>
      obtain ⟨e1, e2⟩ := nextU64_sim hs
      simp only [e1]
      exact ih _ _ _ e2
    | offer ids =>
      obtain ⟨e1, e2⟩ := nextTask_sim hs ids
      simp only
      cases hs1 : s.nextTask ids with
      | mk o1 s1 =>
        cases ht1 : t.nextTask ids with
        | mk o2 t1 =>
          rw [hs1, ht1] at e1 e2
          simp only at e1 e2
          subst e1
          cases o1 with
          | none => exact ⟨rfl, hs⟩
          | some id => exact ih _ _ _ e2

/-- After `new_execution` hands out `seed`, both generators are functions of `seed` alone. -/
theorem newExecution_spec {s s' : RandomScheduler} {seed : Nat}
    (h : s.newExecution = some (seed, s')) :
    s'.rng = seedFromU64 seed ∧ s'.dataSource = { rng := seedFromU64 seed, nextSeed := none } := by
  unfold RandomScheduler.newExecution at h
  split at h
  · cases h
  · simp only [RandomDataSource.reinitialize, Option.some.injEq, Prod.mk.injEq] at h
    obtain ⟨h1, h2⟩ := h
    subst h2
    subst h1
    exact ⟨rfl, rfl⟩

/-- The first `new_execution` of `new_from_seed(seed, 1)` hands out `seed` itself. -/
theorem newFromSeed_newExecution (seed : Nat) :
    ∃ t, (RandomScheduler.newFromSeed seed 1).newExecution = some (seed, t) := by
  simp [RandomScheduler.newFromSeed, RandomScheduler.newExecution, RandomDataSource.initialize,
    RandomDataSource.reinitialize]

theorem runAll_zero (prog : Program) (k : Nat) (s : RandomScheduler) : runAll prog k 0 s = [] := by
  unfold runAll; rfl

theorem runAll_succ_none (prog : Program) (k n : Nat) {s : RandomScheduler}
    (h : s.newExecution = none) : runAll prog k (n + 1) s = [] := by
  unfold runAll; rw [h]

theorem runAll_succ_some (prog : Program) (k n : Nat) {s s' : RandomScheduler} {seed : Nat}
    (h : s.newExecution = some (seed, s')) :
    runAll prog k (n + 1) s =
      (seed, (runExec prog k s' []).1) :: runAll prog k n (runExec prog k s' []).2 := by
  conv => lhs; unfold runAll
  rw [h]

/-- Replaying with the handed-out seed, from a fresh single-iteration scheduler, reproduces the
    execution — whatever state `s` the original scheduler was in. -/
theorem newExecution_replay (prog : Program) (k : Nat) {s s' : RandomScheduler} {seed : Nat}
    (h : s.newExecution = some (seed, s')) :
    runAll prog k 1 (RandomScheduler.newFromSeed seed 1) = [(seed, (runExec prog k s' []).1)] := by
  obtain ⟨t, ht⟩ := newFromSeed_newExecution seed
  rw [runAll_succ_some prog k 0 ht, runAll_zero]
  obtain ⟨a1, a2⟩ := newExecution_spec h
  obtain ⟨b1, b2⟩ := newExecution_spec ht
  have hsim : Sim t s' := ⟨b1.trans a1.symm, b2.trans a2.symm⟩
  rw [(runExec_sim prog k t s' [] hsim).1]

theorem runAll_getElem_replay (prog : Program) (k : Nat) :
    ∀ (n : Nat) (s : RandomScheduler) (i seed : Nat) (trace : List Event),
      (runAll prog k n s)[i]? = some (seed, trace) →
      runAll prog k 1 (RandomScheduler.newFromSeed seed 1) = [(seed, trace)] := by
  intro n
  induction n with
  | zero =>
    intro s i seed trace h
    rw [runAll_zero] at h
    cases h
  | succ n ih =>
    intro s i seed trace h
    cases hne : s.newExecution with
    | none =>
      rw [runAll_succ_none prog k n hne] at h
      cases h
    | some p =>
      obtain ⟨sd, s'⟩ := p
      rw [runAll_succ_some prog k n hne] at h
      cases i with
      | zero =>
        simp only [List.getElem?_cons_zero, Option.some.injEq, Prod.mk.injEq] at h
        obtain ⟨rfl, rfl⟩ := h
        exact newExecution_replay prog k hne
      | succ i =>
        rw [List.getElem?_cons_succ] at h
        exact ih _ i seed trace h

end ShuttleProofs.Rng
