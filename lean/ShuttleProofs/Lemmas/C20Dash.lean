/-
  Helper lemmas for C20 (DashMap part): purity of read-mode ops, `seqRun` over appended logs, and the invariant
  of the concurrent semantics `DashMap.step`.
-/
import ShuttleModel.Wrap.DashMap

namespace ShuttleProofs.C20Dash
open ShuttleModel.DetMap (Entries lookup replaceVal eraseKey retain)
open ShuttleModel.DashMap

variable {K V : Type} [DecidableEq K]

/-- ops that take the lock in read mode do not change the map -/
theorem read_pure (op : Op K V) (m : Entries K V) (h : lockMode op = .read) : (dashOp op m).2 = m := by
  cases op <;> simp_all [dashOp, lockMode]

theorem getElem?_append_of_some {α : Type} {l l' : List α} {i : Nat} {x : α} (h : l[i]? = some x) :
    (l ++ l')[i]? = some x := by
  have hi : i < l.length := (List.getElem?_eq_some_iff.mp h).1
  rw [List.getElem?_append_left hi]; exact h

theorem seqRun_append (es : List (Ev K V)) (e : Ev K V) (m : Entries K V) :
    seqRun (es ++ [e]) m =
      ((seqRun es m).1 ++ [(evalEv e (seqRun es m).2).1], (evalEv e (seqRun es m).2).2) := by
  induction es generalizing m with
  | nil => simp [seqRun]
  | cons a es ih => simp [seqRun, ih]

theorem seqRun_length (es : List (Ev K V)) (m : Entries K V) : (seqRun es m).1.length = es.length := by
  induction es generalizing m with
  | nil => simp [seqRun]
  | cons a es ih => simp [seqRun, ih]

/-- the events of the acquisition log -/
def evs (σ : Conc K V) : List (Ev K V) := σ.acq.map Prod.snd

/-- results / contents of the plain map under the acquisition order so far -/
def seqRes (m0 : Entries K V) (σ : Conc K V) : List (Res K V) := (seqRun (evs σ) m0).1
def seqMap (m0 : Entries K V) (σ : Conc K V) : Entries K V := (seqRun (evs σ) m0).2

theorem seqRes_length (m0 : Entries K V) (σ : Conc K V) : (seqRes m0 σ).length = σ.acq.length := by
  simp [seqRes, seqRun_length, evs]

/-- the invariant tying the concurrent state to the sequential replay of its acquisition log -/
structure Inv (m0 : Entries K V) (σ : Conc K V) : Prop where
  holder_ok : ∀ h ∈ σ.holders, σ.acq[h.2.1]? = some (h.1, (h.2.2, false)) ∧
      (seqRes m0 σ)[h.2.1]? = some (dashOp h.2.2 σ.map).1
  readers : (∀ h ∈ σ.holders, lockMode h.2.2 = .read) → σ.map = seqMap m0 σ
  writer : ∀ h ∈ σ.holders, lockMode h.2.2 = .write →
      σ.holders = [h] ∧ (dashOp h.2.2 σ.map).2 = seqMap m0 σ
  done_ok : ∀ d ∈ σ.done, (∃ l, σ.acq[d.1]? = some (d.2.1, (d.2.2.1, l))) ∧
      (seqRes m0 σ)[d.1]? = some d.2.2.2

theorem inv_init (progs : Nat → List (Op K V)) (m0 : Entries K V) : Inv m0 (Conc.init progs m0) := by
  constructor <;> simp [Conc.init, seqMap, seqRes, evs, seqRun]

theorem seq_push (m0 : Entries K V) (σ σ' : Conc K V) (t : Nat) (e : Ev K V)
    (h : σ'.acq = σ.acq ++ [(t, e)]) :
    seqRes m0 σ' = seqRes m0 σ ++ [(evalEv e (seqMap m0 σ)).1] ∧
      seqMap m0 σ' = (evalEv e (seqMap m0 σ)).2 := by
  simp [seqRes, seqMap, evs, h, seqRun_append]

theorem seq_same (m0 : Entries K V) (σ σ' : Conc K V) (h : σ'.acq = σ.acq) :
    seqRes m0 σ' = seqRes m0 σ ∧ seqMap m0 σ' = seqMap m0 σ := by
  simp [seqRes, seqMap, evs, h]

/-- if some holder is in read mode, every holder is -/
theorem all_read_of_read {m0 : Entries K V} {σ : Conc K V} (I : Inv m0 σ) {h : Holder K V}
    (hm : h ∈ σ.holders) (hr : lockMode h.2.2 = .read) : ∀ h' ∈ σ.holders, lockMode h'.2.2 = .read := by
  intro h' hm'
  cases hw : lockMode h'.2.2 with
  | read => rfl
  | write =>
    have := (I.writer h' hm' hw).1
    rw [this] at hm
    simp at hm
    subst hm
    rw [hr] at hw
    cases hw

/-- (A) effect + release by a task inside the lock -/
theorem inv_release {m0 : Entries K V} {σ σ' : Conc K V} (I : Inv m0 σ) (t : Nat) (h : Holder K V)
    (hm : h ∈ σ.holders) (ht : h.1 = t)
    (hmap : σ'.map = (dashOp h.2.2 σ.map).2)
    (hhold : σ'.holders = σ.holders.filter (fun h' => h'.1 != t))
    (hacq : σ'.acq = σ.acq)
    (hdone : σ'.done = σ.done ++ [(h.2.1, t, h.2.2, (dashOp h.2.2 σ.map).1)]) : Inv m0 σ' := by
  obtain ⟨hres, hsm⟩ := seq_same m0 σ σ' hacq
  have hok := I.holder_ok h hm
  have hdone' : ∀ d ∈ σ'.done, (∃ l, σ'.acq[d.1]? = some (d.2.1, (d.2.2.1, l))) ∧
      (seqRes m0 σ')[d.1]? = some d.2.2.2 := by
    intro d hd
    rw [hdone, List.mem_append] at hd
    rw [hacq, hres]
    rcases hd with hd | hd
    · exact I.done_ok d hd
    · simp at hd
      subst hd
      refine ⟨⟨false, ?_⟩, hok.2⟩
      rw [← ht]; exact hok.1
  cases hmode : lockMode h.2.2 with
  | write =>
    obtain ⟨hone, heff⟩ := I.writer h hm hmode
    have hnil : σ'.holders = [] := by
      rw [hhold, hone]; simp [ht]
    refine ⟨?_, ?_, ?_, hdone'⟩
    · intro h' hm'; rw [hnil] at hm'; cases hm'
    · intro _; rw [hmap, hsm]; exact heff
    · intro h' hm'; rw [hnil] at hm'; cases hm'
  | read =>
    have hall := all_read_of_read I hm hmode
    have hmeq : σ'.map = σ.map := by rw [hmap]; exact read_pure _ _ hmode
    have hsub : ∀ h' ∈ σ'.holders, h' ∈ σ.holders := by
      intro h' hm'; rw [hhold] at hm'; exact (List.mem_filter.mp hm').1
    refine ⟨?_, ?_, ?_, hdone'⟩
    · intro h' hm'
      rw [hacq, hres, hmeq]
      exact I.holder_ok h' (hsub h' hm')
    · intro _; rw [hmeq, hsm]; exact I.readers hall
    · intro h' hm' hw
      have := hall h' (hsub h' hm')
      rw [this] at hw; cases hw

/-- old facts about the acquisition log survive an append -/
theorem done_push {m0 : Entries K V} {σ σ' : Conc K V} (I : Inv m0 σ) (t : Nat) (e : Ev K V)
    (hacq : σ'.acq = σ.acq ++ [(t, e)]) (d : Nat × Nat × Op K V × Res K V) (hd : d ∈ σ.done) :
    (∃ l, σ'.acq[d.1]? = some (d.2.1, (d.2.2.1, l))) ∧ (seqRes m0 σ')[d.1]? = some d.2.2.2 := by
  obtain ⟨⟨l, h1⟩, h2⟩ := I.done_ok d hd
  rw [hacq, (seq_push m0 σ σ' t e hacq).1]
  exact ⟨⟨l, getElem?_append_of_some h1⟩, getElem?_append_of_some h2⟩

/-- (B) acquisition -/
theorem inv_acquire {m0 : Entries K V} {σ σ' : Conc K V} (I : Inv m0 σ) (t : Nat) (o : Op K V)
    (hcan : canAcquire (lockMode o) σ.holders = true)
    (hmap : σ'.map = σ.map)
    (hhold : σ'.holders = σ.holders ++ [(t, σ.acq.length, o)])
    (hacq : σ'.acq = σ.acq ++ [(t, (o, false))])
    (hdone : σ'.done = σ.done) : Inv m0 σ' := by
  obtain ⟨hres, hsm⟩ := seq_push m0 σ σ' t (o, false) hacq
  simp only [evalEv, Bool.false_eq_true, ↓reduceIte] at hres hsm
  have hlen := seqRes_length m0 σ
  have hdone' : ∀ d ∈ σ'.done, (∃ l, σ'.acq[d.1]? = some (d.2.1, (d.2.2.1, l))) ∧
      (seqRes m0 σ')[d.1]? = some d.2.2.2 := by
    intro d hd; rw [hdone] at hd; exact done_push I t (o, false) hacq d hd
  have hnew_acq : σ'.acq[σ.acq.length]? = some (t, (o, false)) := by
    rw [hacq]; simp
  have hnew_res : (seqRes m0 σ')[σ.acq.length]? = some (dashOp o (seqMap m0 σ)).1 := by
    rw [hres, ← hlen]; simp
  cases hmode : lockMode o with
  | write =>
    rw [hmode] at hcan
    have hnil : σ.holders = [] := by simpa [canAcquire] using hcan
    have hms : σ.map = seqMap m0 σ := I.readers (by intro h hm; rw [hnil] at hm; cases hm)
    have hone : σ'.holders = [(t, σ.acq.length, o)] := by rw [hhold, hnil]; rfl
    refine ⟨?_, ?_, ?_, hdone'⟩
    · intro h hm
      rw [hone] at hm; simp at hm; subst hm
      exact ⟨hnew_acq, by rw [hmap, hms]; exact hnew_res⟩
    · intro hall
      have := hall (t, σ.acq.length, o) (by rw [hone]; simp)
      rw [hmode] at this; cases this
    · intro h hm _
      rw [hone] at hm; simp at hm; subst hm
      exact ⟨hone, by rw [hmap, hms, hsm]⟩
  | read =>
    rw [hmode] at hcan
    have hall : ∀ h ∈ σ.holders, lockMode h.2.2 = .read := by
      intro h hm
      have hc : ∀ (a a_1 : Nat) (b : Op K V), (a, a_1, b) ∈ σ.holders → lockMode b = LockMode.read := by
        simpa [canAcquire] using hcan
      exact hc h.1 h.2.1 h.2.2 hm
    have hms : σ.map = seqMap m0 σ := I.readers hall
    have hsm' : seqMap m0 σ' = seqMap m0 σ := by rw [hsm]; exact read_pure _ _ hmode
    refine ⟨?_, ?_, ?_, hdone'⟩
    · intro h hm
      rw [hhold, List.mem_append] at hm
      rcases hm with hm | hm
      · obtain ⟨h1, h2⟩ := I.holder_ok h hm
        rw [hacq, hres, hmap]
        exact ⟨getElem?_append_of_some h1, getElem?_append_of_some h2⟩
      · simp at hm; subst hm
        exact ⟨hnew_acq, by rw [hmap, hms]; exact hnew_res⟩
    · intro _; rw [hmap, hsm']; exact hms
    · intro h hm hw
      rw [hhold, List.mem_append] at hm
      rcases hm with hm | hm
      · rw [hall h hm] at hw; cases hw
      · simp at hm; subst hm; rw [hmode] at hw; cases hw

/-- (C) a locked-out `try_*` call -/
theorem inv_locked {m0 : Entries K V} {σ σ' : Conc K V} (I : Inv m0 σ) (t : Nat) (o : Op K V)
    (hmap : σ'.map = σ.map)
    (hhold : σ'.holders = σ.holders)
    (hacq : σ'.acq = σ.acq ++ [(t, (o, true))])
    (hdone : σ'.done = σ.done ++ [(σ.acq.length, t, o, .locked)]) : Inv m0 σ' := by
  obtain ⟨hres, hsm⟩ := seq_push m0 σ σ' t (o, true) hacq
  simp only [evalEv, ↓reduceIte] at hres hsm
  have hlen := seqRes_length m0 σ
  refine ⟨?_, ?_, ?_, ?_⟩
  · intro h hm
    rw [hhold] at hm
    obtain ⟨h1, h2⟩ := I.holder_ok h hm
    rw [hacq, hres, hmap]
    exact ⟨getElem?_append_of_some h1, getElem?_append_of_some h2⟩
  · intro hall
    rw [hhold] at hall
    rw [hmap, hsm]; exact I.readers hall
  · intro h hm hw
    rw [hhold] at hm ⊢
    rw [hmap, hsm]; exact I.writer h hm hw
  · intro d hd
    rw [hdone, List.mem_append] at hd
    rcases hd with hd | hd
    · exact done_push I t (o, true) hacq d hd
    · simp at hd; subst hd
      refine ⟨⟨true, by rw [hacq]; simp⟩, ?_⟩
      rw [hres, ← hlen]; simp

/-- every move preserves the invariant -/
theorem inv_step {m0 : Entries K V} {σ : Conc K V} (I : Inv m0 σ) (t : Nat) : Inv m0 (step t σ) := by
  unfold step
  split
  · next h hfind =>
    have hm : h ∈ σ.holders := List.mem_of_find?_eq_some hfind
    have ht : h.1 = t := by
      have := List.find?_some hfind
      simpa using this
    exact inv_release I t h hm ht rfl rfl rfl rfl
  · split
    · exact I
    · next o os _ =>
      split
      · next hcan => exact inv_acquire I t o hcan rfl rfl rfl rfl
      · split
        · exact inv_locked I t o rfl rfl rfl rfl
        · exact I

theorem inv_run {m0 : Entries K V} (sched : List Nat) {σ : Conc K V} (I : Inv m0 σ) :
    Inv m0 (runSched sched σ) := by
  induction sched generalizing σ with
  | nil => exact I
  | cons t ts ih => exact ih (inv_step I t)

/-- the ops task `t` has issued so far, in acquisition order -/
def issued (σ : Conc K V) (t : Nat) : List (Op K V) :=
  (σ.acq.filter (fun a => a.1 == t)).map (fun a => a.2.1)

/-- program order: what a task has issued plus what it still has to run is its program -/
def ProgOrder (progs : Nat → List (Op K V)) (σ : Conc K V) : Prop :=
  ∀ t, issued σ t ++ σ.rest t = progs t

theorem progOrder_step {progs : Nat → List (Op K V)} {σ : Conc K V} (P : ProgOrder progs σ) (t : Nat) :
    ProgOrder progs (step t σ) := by
  unfold step
  split
  · exact P
  · split
    · exact P
    · next o os hrest =>
      have key : ∀ l : Bool, ∀ t', ((σ.acq ++ [(t, (o, l))]).filter (fun a => a.1 == t')).map (fun a => a.2.1)
          ++ setRest σ.rest t os t' = progs t' := by
        intro l t'
        have := P t'
        unfold issued at this
        by_cases h : t' = t
        · subst h
          simp [setRest, List.filter_append, ← this, hrest]
        · have h' : ¬ t = t' := fun e => h e.symm
          simp [setRest, List.filter_append, h, h', this]
      split
      · exact key false
      · split
        · exact key true
        · exact P

theorem progOrder_run {progs : Nat → List (Op K V)} (sched : List Nat) {σ : Conc K V}
    (P : ProgOrder progs σ) : ProgOrder progs (runSched sched σ) := by
  induction sched generalizing σ with
  | nil => exact P
  | cons t ts ih => exact ih (progOrder_step P t)

omit [DecidableEq K] in
theorem progOrder_init (progs : Nat → List (Op K V)) (m0 : Entries K V) :
    ProgOrder progs (Conc.init progs m0) := by
  intro t; simp [issued, Conc.init]

end ShuttleProofs.C20Dash
