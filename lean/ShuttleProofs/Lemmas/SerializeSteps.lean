import ShuttleProofs.Lemmas.SerializeBits

namespace ShuttleModel

/-! ### Bit width -/

theorem lt_two_pow_bitLen (n : Nat) : n < 2 ^ bitLen n := by
  unfold bitLen
  split
  · subst_vars; simp
  · exact Nat.lt_log2_self

theorem bitLen_le_of_lt {n w : Nat} (h : n < 2 ^ w) : bitLen n ≤ w := by
  unfold bitLen
  split
  · omega
  · next hn => have := (Nat.log2_lt hn).2 h; omega

theorem le_maxTaskId {steps : List ScheduleStep} {id : Nat} (h : ScheduleStep.task id ∈ steps) :
    id ≤ maxTaskId steps := by
  induction steps with
  | nil => simp at h
  | cons st rest ih =>
    cases st with
    | task i =>
      simp only [List.mem_cons, ScheduleStep.task.injEq] at h
      simp only [maxTaskId]
      rcases h with rfl | h
      · omega
      · have := ih h; omega
    | random =>
      simp only [List.mem_cons, reduceCtorEq, false_or] at h
      exact ih h

theorem maxTaskId_mem (steps : List ScheduleStep) :
    maxTaskId steps = 0 ∨ ScheduleStep.task (maxTaskId steps) ∈ steps := by
  induction steps with
  | nil => left; rfl
  | cons st rest ih =>
    cases st with
    | task i =>
      simp only [maxTaskId]
      by_cases h : maxTaskId rest ≤ i
      · right; rw [Nat.max_eq_left h]; simp
      · rw [Nat.max_eq_right (by omega)]
        rcases ih with h0 | hm
        · omega
        · right; simp [hm]
    | random =>
      simp only [maxTaskId]
      rcases ih with h0 | hm
      · left; exact h0
      · right; simp [hm]

theorem one_le_taskIdBits (steps : List ScheduleStep) : 1 ≤ taskIdBits steps := by
  unfold taskIdBits; omega

theorem lt_two_pow_taskIdBits {steps : List ScheduleStep} {id : Nat}
    (h : ScheduleStep.task id ∈ steps) : id < 2 ^ taskIdBits steps := by
  have h1 := le_maxTaskId h
  have h2 := lt_two_pow_bitLen (maxTaskId steps)
  have h3 : 2 ^ bitLen (maxTaskId steps) ≤ 2 ^ taskIdBits steps :=
    Nat.pow_le_pow_right (by omega) (by unfold taskIdBits; omega)
  omega

/-- Minimality: any `w ≥ 1` that fits all ids is at least `taskIdBits`. -/
theorem taskIdBits_le {steps : List ScheduleStep} {w : Nat} (hw : 1 ≤ w)
    (h : ∀ id, ScheduleStep.task id ∈ steps → id < 2 ^ w) : taskIdBits steps ≤ w := by
  unfold taskIdBits
  have : bitLen (maxTaskId steps) ≤ w := by
    rcases maxTaskId_mem steps with h0 | hm
    · rw [h0]; simp [bitLen]
    · exact bitLen_le_of_lt (h _ hm)
  omega

/-! ### Step packing -/

theorem stepsBits_length_le (w : Nat) (steps : List ScheduleStep) :
    (stepsBits w steps).length ≤ steps.length * (1 + w) := by
  induction steps with
  | nil => simp [stepsBits]
  | cons st rest ih =>
    cases st with
    | task i => simp only [stepsBits, List.length_cons, List.length_append, natToBits_length,
        Nat.add_mul]; omega
    | random => simp only [stepsBits, List.length_cons, Nat.add_mul]; omega

/-- With no `Random` step the bit buffer is filled exactly. -/
theorem stepsBits_length_all_tasks (w : Nat) (steps : List ScheduleStep)
    (h : ScheduleStep.random ∉ steps) : (stepsBits w steps).length = steps.length * (1 + w) := by
  induction steps with
  | nil => simp [stepsBits]
  | cons st rest ih =>
    cases st with
    | task i =>
      have := ih (fun hm => h (by simp [hm]))
      simp only [stepsBits, List.length_cons, List.length_append, natToBits_length, Nat.add_mul]
      omega
    | random => simp at h

theorem decodeSteps_stepsBits (w : Nat) (steps : List ScheduleStep) (tail : List Bool)
    (h : ∀ id, ScheduleStep.task id ∈ steps → id < 2 ^ w) :
    decodeSteps w steps.length (stepsBits w steps ++ tail) = some steps := by
  induction steps with
  | nil => simp [decodeSteps]
  | cons st rest ih =>
    have ih' := ih (fun id hm => h id (by simp [hm]))
    cases st with
    | task i =>
      have hi : i < 2 ^ w := h i (by simp)
      simp only [stepsBits, List.length_cons, List.cons_append, List.append_assoc, decodeSteps]
      have hlen : ¬ (natToBits w i ++ (stepsBits w rest ++ tail)).length < w := by simp
      rw [if_neg hlen]
      rw [List.drop_left' (natToBits_length w i), List.take_left' (natToBits_length w i), ih',
        bitsToNat_natToBits_of_lt hi]
    | random =>
      simp only [stepsBits, List.length_cons, List.cons_append, decodeSteps, ih']

/-- Any strict prefix of the step bits fails to decode: the decoder runs out of bits. -/
theorem decodeSteps_take (w : Nat) (steps : List ScheduleStep) :
    ∀ q, q < (stepsBits w steps).length →
      decodeSteps w steps.length ((stepsBits w steps).take q) = none := by
  induction steps with
  | nil => intro q hq; simp [stepsBits] at hq
  | cons st rest ih =>
    intro q hq
    cases st with
    | task i =>
      simp only [stepsBits, List.length_cons, List.length_append, natToBits_length] at hq ⊢
      cases q with
      | zero => simp [decodeSteps]
      | succ q =>
        simp only [List.take_succ_cons, decodeSteps]
        by_cases hlt : q < w
        · rw [if_pos (by simp [List.length_take]; omega)]
        · have hge : w ≤ q := by omega
          rw [if_neg (by simp [List.length_take]; omega)]
          have e1 : (natToBits w i ++ stepsBits w rest).take q
              = natToBits w i ++ (stepsBits w rest).take (q - w) := by
            rw [List.take_append, natToBits_length,
              List.take_of_length_le (l := natToBits w i) (by simp; omega)]
          rw [e1, List.drop_left' (natToBits_length w i), ih (q - w) (by omega)]
    | random =>
      simp only [stepsBits, List.length_cons] at hq ⊢
      cases q with
      | zero => simp [decodeSteps]
      | succ q =>
        simp only [List.take_succ_cons, decodeSteps]
        rw [ih q (by omega)]

end ShuttleModel
