import ShuttleModel.Kernel
/-
  C05 / park–unpark: the transitions of one `Task` (`ShuttleModel.Task.park`, `unpark`, `unblock`,
  `block`, `sleepUnlessWoken`, `wake`, `finish` — all pure functions of the kernel model) as an
  LTS under a most general environment, and the `ParkState` invariants.

  * operations the task performs on itself (`park`, `block`, `sleepUnlessWoken`, `finish`) require
    it to be the running task, i.e. `state = runnable`;
  * `unpark`, `unblock` (another primitive, or the scheduler's spurious wake-up, which is
    `Task::unblock` too — `Kernel.schedule`) and `wake` may hit it at any time;
  * `blockExt` is `get_mut(t).block(false)` by another task (`Eff.block`).  It is kept for the
    token invariant, and left out of the "parked ⇒ blocked" one: the model only emits it for tasks
    registered in a condvar / unfair semaphore queue, which a parked task is not.
-/
namespace ShuttleProofs.C05
open ShuttleModel

inductive TaskOp where
  | park
  | unpark
  | unblock
  | wake
  | blockSelf (sp : Bool)
  | blockExt
  | sleepUnlessWoken
  | finish
deriving DecidableEq, Repr

def TaskOp.isSelf : TaskOp → Bool
  | .park | .blockSelf _ | .sleepUnlessWoken | .finish => true
  | _ => false

def TaskOp.apply : TaskOp → Task → Except String Task
  | .park, t => match t.park with | .ok (_, t') => .ok t' | .error e => .error e
  | .unpark, t => t.unpark
  | .unblock, t => t.unblock
  | .wake, t => t.wake
  | .blockSelf sp, t => t.block sp
  | .blockExt, t => t.block false
  | .sleepUnlessWoken, t => t.sleepUnlessWoken
  | .finish, t => t.finish

/-- one transition of the task under the most general environment -/
def TStep (t : Task) (op : TaskOp) (t' : Task) : Prop :=
  op.apply t = .ok t' ∧ (op.isSelf = true → t.state = .runnable)

inductive TReach : List TaskOp → Task → Prop where
  | init : TReach [] {}
  | step {ops : List TaskOp} {t : Task} {op : TaskOp} {t' : Task} :
      TReach ops t → TStep t op t' → TReach (op :: ops) t'

/-- `¬(token_available ∧ blocked_in_park)` -/
def TokenInv (t : Task) : Prop := ¬ (t.tokenAvail = true ∧ t.blockedInPark = true)
/-- a parked task is blocked, spuriously wakeable -/
def ParkedInv (t : Task) : Prop := t.blockedInPark = true → t.state = .blocked true

theorem tokenInv_step {t : Task} {op : TaskOp} {t' : Task} (I : TokenInv t) (h : op.apply t = .ok t') :
    TokenInv t' := by
  unfold TokenInv at *
  cases op with
  | park =>
    simp only [TaskOp.apply, Task.park, Task.block] at h
    split at h
    · rename_i b t1 hp
      split at hp
      · cases hp
      · split at hp
        · cases hp
        · split at hp
          · simp only [Except.ok.injEq, Prod.mk.injEq] at hp
            obtain ⟨_, rfl⟩ := hp
            simp only [Except.ok.injEq] at h
            subst h
            simp
          · rename_i hnt
            split at hp
            · rename_i t2 hb
              split at hb
              · cases hb
              · simp only [Except.ok.injEq] at hb
                subst hb
                simp only [Except.ok.injEq, Prod.mk.injEq] at hp
                obtain ⟨_, rfl⟩ := hp
                simp only [Except.ok.injEq] at h
                subst h
                simpa using hnt
            · cases hp
    · cases h
  | unpark =>
    simp only [TaskOp.apply, Task.unpark, Task.unblock] at h
    split at h
    · split at h
      · cases h
      · split at h
        · cases h
        · split at h
          · cases h
          · simp only [Except.ok.injEq] at h; subst h; simp
    · rename_i hb
      simp only [Except.ok.injEq] at h; subst h; simpa using hb
  | unblock =>
    simp only [TaskOp.apply, Task.unblock] at h
    split at h
    · cases h
    · simp only [Except.ok.injEq] at h; subst h; simp
  | wake =>
    simp only [TaskOp.apply, Task.wake, Task.unblock] at h
    split at h
    · split at h
      · cases h
      · simp only [Except.ok.injEq] at h; subst h; simp
    · simp only [Except.ok.injEq] at h; subst h; simpa using I
  | blockSelf sp =>
    simp only [TaskOp.apply, Task.block] at h
    split at h
    · cases h
    · simp only [Except.ok.injEq] at h; subst h; simpa using I
  | blockExt =>
    simp only [TaskOp.apply, Task.block] at h
    split at h
    · cases h
    · simp only [Except.ok.injEq] at h; subst h; simpa using I
  | sleepUnlessWoken =>
    simp only [TaskOp.apply, Task.sleepUnlessWoken, Task.sleep] at h
    split at h
    · simp only [Except.ok.injEq] at h; subst h; simpa using I
    · split at h
      · cases h
      · simp only [Except.ok.injEq] at h; subst h; simpa using I
  | finish =>
    simp only [TaskOp.apply, Task.finish] at h
    split at h
    · cases h
    · simp only [Except.ok.injEq] at h; subst h; simpa using I

theorem parkedInv_step {t : Task} {op : TaskOp} {t' : Task} (I : ParkedInv t) (hop : op ≠ .blockExt)
    (h : TStep t op t') : ParkedInv t' := by
  obtain ⟨h, hself⟩ := h
  unfold ParkedInv at *
  -- a running task is not parked
  have hrun : t.state = .runnable → t.blockedInPark = false := by
    intro hr
    cases hb : t.blockedInPark with
    | false => rfl
    | true => rw [I hb] at hr; cases hr
  cases op with
  | park =>
    have hbf := hrun (hself rfl)
    simp only [TaskOp.apply, Task.park, Task.block, hbf] at h
    split at h
    · rename_i b t1 hp
      simp only [Bool.false_eq_true, if_false] at hp
      split at hp
      · cases hp
      · split at hp
        · simp only [Except.ok.injEq, Prod.mk.injEq] at hp
          obtain ⟨_, rfl⟩ := hp
          simp only [Except.ok.injEq] at h
          subst h
          simp
        · split at hp
          · rename_i t2 hb
            split at hb
            · cases hb
            · simp only [Except.ok.injEq] at hb
              subst hb
              simp only [Except.ok.injEq, Prod.mk.injEq] at hp
              obtain ⟨_, rfl⟩ := hp
              simp only [Except.ok.injEq] at h
              subst h
              simp
          · cases hp
    · cases h
  | unpark =>
    simp only [TaskOp.apply, Task.unpark, Task.unblock] at h
    split at h
    · split at h
      · cases h
      · split at h
        · cases h
        · split at h
          · cases h
          · simp only [Except.ok.injEq] at h; subst h; simp
    · rename_i hb
      simp only [Except.ok.injEq] at h; subst h; simpa using I
  | unblock =>
    simp only [TaskOp.apply, Task.unblock] at h
    split at h
    · cases h
    · simp only [Except.ok.injEq] at h; subst h; simp
  | wake =>
    simp only [TaskOp.apply, Task.wake, Task.unblock] at h
    split at h
    · split at h
      · cases h
      · simp only [Except.ok.injEq] at h; subst h; simp
    · simp only [Except.ok.injEq] at h; subst h; simpa using I
  | blockSelf sp =>
    have hbf := hrun (hself rfl)
    simp only [TaskOp.apply, Task.block] at h
    split at h
    · cases h
    · simp only [Except.ok.injEq] at h; subst h; simp [hbf]
  | blockExt => exact absurd rfl hop
  | sleepUnlessWoken =>
    have hbf := hrun (hself rfl)
    simp only [TaskOp.apply, Task.sleepUnlessWoken, Task.sleep] at h
    split at h
    · simp only [Except.ok.injEq] at h; subst h; simp [hbf]
    · split at h
      · cases h
      · simp only [Except.ok.injEq] at h; subst h; simp [hbf]
  | finish =>
    have hbf := hrun (hself rfl)
    simp only [TaskOp.apply, Task.finish] at h
    split at h
    · cases h
    · simp only [Except.ok.injEq] at h; subst h; simp [hbf]

theorem treach_tokenInv {ops : List TaskOp} {t : Task} (hr : TReach ops t) : TokenInv t := by
  induction hr with
  | init => simp [TokenInv]
  | step _ hs ih => exact tokenInv_step ih hs.1

theorem treach_parkedInv {ops : List TaskOp} {t : Task} (hr : TReach ops t)
    (hno : TaskOp.blockExt ∉ ops) : ParkedInv t := by
  induction hr with
  | init => simp [ParkedInv]
  | @step ops t op t' _ hs ih =>
    have h1 : op ≠ .blockExt := fun h => hno (h ▸ List.mem_cons_self ..)
    have h2 : TaskOp.blockExt ∉ ops := fun h => hno (List.mem_cons_of_mem _ h)
    exact parkedInv_step (ih h2) h1 hs

end ShuttleProofs.C05
