import ShuttleProofs.Lemmas.SemLts
/-
  Specifications of the pure transitions (`paAcquire`, `paRelease`, `unblockFront`, …) with respect
  to the invariant `Inv` and the conserved quantity `avail + pend`.
-/
namespace ShuttleModel
namespace SemLts

/-! ### PermitsAvailable -/

theorem bsum_initBatches {s : SemState} (h : BatchOk s) : bsum s.initBatches = s.avail := by
  unfold SemState.initBatches
  cases hb : s.batches with
  | some b => exact h b hb
  | none =>
    by_cases h0 : s.avail > 0
    · simp [h0, bsum]
    · simp [h0, bsum]; omega

theorem paAcquire_isSome (s : SemState) (n : Nat) (clk : Clock) :
    (s.paAcquire n clk).isSome = true ↔ n ≤ s.avail := by
  unfold SemState.paAcquire
  by_cases h0 : n = 0
  · simp [h0]
  · by_cases h1 : n ≤ s.avail
    · simp [h0, h1]
    · simp [h0, h1]

theorem paAcquire_none {s : SemState} {n : Nat} {clk : Clock} (h : s.paAcquire n clk = none) :
    s.avail < n := by
  have := paAcquire_isSome s n clk
  rw [h] at this
  simp at this; omega

structure PaFrame (s s' : SemState) : Prop where
  queue : s'.queue = s.queue
  table : s'.table = s.table
  nextWid : s'.nextWid = s.nextWid
  closed : s'.closed = s.closed
  fair : s'.fair = s.fair

theorem paAcquire_some {s s' : SemState} {n : Nat} {clk c : Clock}
    (h : s.paAcquire n clk = some (s', c)) :
    PaFrame s s' ∧ s'.avail + n = s.avail ∧ (BatchOk s → BatchOk s') := by
  unfold SemState.paAcquire at h
  by_cases h0 : n = 0
  · simp only [h0, if_true, Option.some.injEq, Prod.mk.injEq] at h
    obtain ⟨rfl, _⟩ := h
    exact ⟨⟨rfl, rfl, rfl, rfl, rfl⟩, by omega, id⟩
  · by_cases h1 : n ≤ s.avail
    · simp only [h0, h1, if_false, if_true, Option.some.injEq, Prod.mk.injEq] at h
      obtain ⟨rfl, _⟩ := h
      refine ⟨⟨rfl, rfl, rfl, rfl, rfl⟩, by simp; omega, ?_⟩
      intro hb b hbb
      simp only [Option.some.injEq] at hbb
      subst hbb
      have h2 := takeBatches_sum n s.initBatches Clock.new (by rw [bsum_initBatches hb]; exact h1)
      rw [bsum_initBatches hb] at h2
      simp only; omega
    · simp [h0, h1] at h

theorem paRelease_batchOk {s : SemState} (n : Nat) (c : Clock) (h : BatchOk s) :
    BatchOk (s.paRelease n c) := by
  intro b hb
  simp only [SemState.paRelease, Option.some.injEq] at hb ⊢
  subst hb
  rw [bsum_append, bsum_initBatches h]; simp [bsum]

/-! ### `unblock_waiters_from_front` -/

/-- what `unblockFront fin q s` guarantees about its result `r` -/
structure UFSpec (q : List Nat) (s : SemState) (r : SemState × List Eff) : Prop where
  fair : r.1.fair = s.fair
  closed : r.1.closed = s.closed
  nextWid : r.1.nextWid = s.nextWid
  tq : ∀ nx, TQ q s.table nx → TQ r.1.queue r.1.table nx
  batch : BatchOk s → BatchOk r.1
  cons : ∀ nx, TQ q s.table nx → r.1.avail + pend r.1.table = s.avail + pend s.table
  head : HeadBlocked r.1
  suffix : ∃ pre, q = pre ++ r.1.queue
  availLe : r.1.avail ≤ s.avail
  /-- waiters that are not in the scanned queue are not touched -/
  other : ∀ wid', wid' ∉ q → tget r.1.table wid' = tget s.table wid'

theorem wpend_of_queued {q T nx} (h : TQ q T nx) {w : Waiter} {wid : Nat}
    (hw : tget T wid = some w) (hq : wid ∈ q) : wpend w = 0 := by
  obtain ⟨hm, rfl⟩ := tget_some_mem hw
  have := h.queuedOk w hm ((h.queued_iff w hm).mpr hq)
  simp [wpend, this.1]

theorem unblockFront_spec (fin : Nat → Bool) (q : List Nat) (s : SemState) :
    UFSpec q s (SemState.unblockFront fin q s) := by
  induction q generalizing s with
  | nil =>
    simp only [SemState.unblockFront]
    exact ⟨rfl, rfl, rfl, fun nx h => h, fun h => h, fun _ _ => rfl,
      by intro wid rest w hq; simp at hq, ⟨[], rfl⟩, Nat.le_refl _, fun _ _ => rfl⟩
  | cons wid rest ih =>
    rw [SemState.unblockFront]
    cases hw : s.getW wid with
    | none =>
      simp only
      have hi := ih s
      have hno : ∀ nx, ¬ TQ (wid :: rest) s.table nx := by
        intro nx h
        obtain ⟨w, hw', _⟩ := h.tget_of_mem_queue (List.mem_cons_self ..)
        rw [getW_eq] at hw; rw [hw] at hw'; cases hw'
      refine ⟨hi.fair, hi.closed, hi.nextWid, fun nx h => (hno nx h).elim, hi.batch,
        fun nx h => (hno nx h).elim, hi.head, ?_, hi.availLe,
        fun wid' h' => hi.other wid' (fun hm => h' (List.mem_cons_of_mem _ hm))⟩
      obtain ⟨pre, hp⟩ := hi.suffix
      exact ⟨wid :: pre, congrArg (List.cons wid) hp⟩
    | some w =>
      simp only
      rw [getW_eq] at hw
      by_cases hf : fin w.taskId = true
      · simp only [hf, if_true]
        have hi := ih (s.setW { w with isQueued := false, waker := none })
        refine ⟨hi.fair, hi.closed, hi.nextWid, ?_, hi.batch, ?_, hi.head, ?_, hi.availLe, ?_⟩
        rotate_left 3
        · intro wid' h'
          rw [hi.other wid' (fun hm => h' (List.mem_cons_of_mem _ hm))]
          simp only [setW_table]
          exact tget_tset_ne (by
            intro e; apply h'; rw [e]; simp [(tget_some_mem hw).2])
        · intro nx h
          exact hi.tq nx (h.pop hw (tget_some_mem hw).2 rfl)
        · intro nx h
          have h1 := hi.cons nx (h.pop hw (tget_some_mem hw).2 rfl)
          have h2 := pend_tset h.nodupT (w := { w with isQueued := false, waker := none })
            (old := w) (by simpa [(tget_some_mem hw).2] using hw)
          have h3 := wpend_of_queued h hw (List.mem_cons_self ..)
          have h4 : wpend { w with isQueued := false, waker := none } = wpend w := rfl
          simp only [setW_table, setW_avail] at h1
          omega
        · obtain ⟨pre, hp⟩ := hi.suffix
          exact ⟨wid :: pre, congrArg (List.cons wid) hp⟩
      · simp only [hf, Bool.false_eq_true, if_false]
        by_cases hfit : w.n ≤ s.avail
        · simp only [hfit, if_true]
          cases hpa : s.paAcquire w.n w.clock with
          | none => exact absurd (paAcquire_none hpa) (by omega)
          | some r =>
            obtain ⟨s', c⟩ := r
            simp only
            obtain ⟨fr, hav, hbo⟩ := paAcquire_some hpa
            have hi := ih (s'.setW { w with isQueued := false, hasPermits := true, waker := none })
            have hw' : tget s'.table wid = some w := by rw [fr.table]; exact hw
            refine ⟨?_, ?_, ?_, ?_, ?_, ?_, hi.head, ?_, ?_, ?_⟩
            rotate_left 8
            · intro wid' h'
              dsimp only
              rw [hi.other wid' (fun hm => h' (List.mem_cons_of_mem _ hm))]
              simp only [setW_table, fr.table]
              exact tget_tset_ne (by
                intro e; apply h'; rw [e]; simp [(tget_some_mem hw).2])
            · dsimp only; rw [hi.fair]; exact fr.fair
            · dsimp only; rw [hi.closed]; exact fr.closed
            · dsimp only; rw [hi.nextWid]; exact fr.nextWid
            · intro nx h
              dsimp only
              rw [← fr.table] at h
              exact hi.tq nx (h.pop hw' (tget_some_mem hw).2 rfl)
            · intro h; exact hi.batch (hbo h)
            · intro nx h
              dsimp only
              have h0 := h
              rw [← fr.table] at h
              have h1 := hi.cons nx (h.pop hw' (tget_some_mem hw).2 rfl)
              have h2 := pend_tset h.nodupT
                (w := { w with isQueued := false, hasPermits := true, waker := none })
                (old := w) (by simpa [(tget_some_mem hw).2] using hw')
              have h3 := wpend_of_queued h hw' (List.mem_cons_self ..)
              have hq := (h0.queuedOk w (tget_some_mem hw).1
                ((h0.queued_iff w (tget_some_mem hw).1).mpr (by
                  rw [(tget_some_mem hw).2]; exact List.mem_cons_self ..)))
              have h4 : wpend { w with isQueued := false, hasPermits := true, waker := none } = w.n := by
                simp [wpend, hq.2.1]
              simp only [setW_table, setW_avail] at h1
              rw [fr.table] at h1 h2
              omega
            · obtain ⟨pre, hp⟩ := hi.suffix
              exact ⟨wid :: pre, congrArg (List.cons wid) hp⟩
            · dsimp only; have := hi.availLe; simp only [setW_avail] at this; omega
        · simp only [hfit, if_false]
          refine ⟨rfl, rfl, rfl, fun nx h => h, fun h => h, fun _ _ => rfl, ?_, ⟨[], rfl⟩, Nat.le_refl _,
            fun _ _ => rfl⟩
          intro wid' rest' w' hq hg
          simp only [List.cons.injEq] at hq
          obtain ⟨e1, e2⟩ := hq
          subst e1
          have : s.getW wid = some w' := hg
          rw [getW_eq, hw] at this
          cases this
          simp only; omega

end SemLts
end ShuttleModel
