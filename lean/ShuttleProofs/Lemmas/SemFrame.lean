import ShuttleProofs.Lemmas.SemPanic
/-
  Frame property: a waiter that stays queued is not touched by anybody else's operation — its
  `task_id`, `waker`, `num_permits` are exactly what its own latest poll stored.
-/
namespace ShuttleModel
namespace SemLts
open Sem (PollOut)

theorem rmState_tq {s : SemState} {wid idx : Nat} {w : Waiter} (hi : Inv s)
    (hw : s.getW wid = some w) (hidx : s.queue.findIdx? (· == wid) = some idx) :
    TQ (rmState s w idx).queue (rmState s w idx).table s.nextWid ∧
      (rmState s w idx).queue = s.queue.erase wid := by
  obtain ⟨he, _, _, _⟩ := findIdx_erase hidx
  have hwid : w.wid = wid := (tget_some_mem hw).2
  have r_queue : (rmState s w idx).queue = s.queue.erase wid := by rw [← he]; rfl
  have r_table : (rmState s w idx).table = tset s.table { w with isQueued := false } := rfl
  refine ⟨?_, r_queue⟩
  have := hi.tq.erase (w := w) (w' := { w with isQueued := false })
    (by rw [← getW_eq]; simpa [hwid] using hw) rfl
  rw [r_queue, r_table]
  simpa [hwid] using this

theorem removeWaiterPure_other (fin : Nat → Bool) {s s' : SemState} {effs : List Eff} {wid : Nat}
    (hi : Inv s) (h : s.removeWaiterPure fin wid = .ok (s', effs)) :
    ∀ x, x ≠ wid → x ∈ s'.queue → s'.getW x = s.getW x := by
  obtain ⟨w, idx, hw, hnc, hp, hidx⟩ := removeWaiterPure_pre h
  rw [removeWaiterPure_eq fin hw hnc hp hidx] at h
  have hwid : w.wid = wid := (tget_some_mem hw).2
  obtain ⟨htq, _⟩ := rmState_tq hi hw hidx
  have hrm : ∀ x, x ≠ wid → (rmState s w idx).getW x = s.getW x := by
    intro x hx
    show tget (tset s.table { w with isQueued := false }) x = tget s.table x
    exact tget_tset_ne (by simpa [hwid] using hx)
  intro x hx hin
  by_cases hb : (s.fair && idx == 0) = true
  · rw [if_pos hb] at h
    simp only [Except.ok.injEq] at h
    have hu := unblockFront_rest_untouched fin (rmState s w idx).queue (rmState s w idx) _ htq
    rw [h] at hu
    rw [hu x hin]; exact hrm x hx
  · rw [if_neg hb] at h
    simp only [Except.ok.injEq, Prod.mk.injEq] at h
    rw [← h.1]; exact hrm x hx

/-- A waiter that is still queued after a step of SOMEBODY ELSE (any operation other than a poll of
this very `Acquire`) has exactly the same table entry as before. -/
theorem step_frame_queued (fin : Nat → Bool) {s : SemState} {op : SemOp} {o : StepOut} (hi : Inv s)
    (h : step fin s op = .ok o) {wid : Nat} {w : Waiter} (hw : s.getW wid = some w)
    (hq' : wid ∈ o.s.queue) (hop : ∀ me cx c, op ≠ .poll wid me cx c) :
    o.s.getW wid = some w := by
  cases op with
  | tryAcquire task n clk =>
    simp only [step] at h
    cases hacq : s.acquirePermits n clk with
    | error msg => rw [hacq] at h; cases h
    | ok r =>
      rw [hacq] at h
      cases r with
      | ok p =>
        obtain ⟨s', pc⟩ := p
        simp only [Except.ok.injEq] at h
        subst h
        obtain ⟨_, _, ht, _⟩ := acquirePermits_inv hi hacq
        simp only [getW_eq, ht]; exact hw
      | error e =>
        simp only [Except.ok.injEq] at h
        subst h; exact hw
  | newAcq task n clk =>
    simp only [step, Except.ok.injEq] at h
    subst h
    exact tget_append_of_some hw
  | poll wid' me cx clk =>
    have hne : wid ≠ wid' := fun e => hop me cx clk (by rw [e])
    simp only [step] at h
    cases hw' : s.getW wid' with
    | none => rw [hw'] at h; cases h
    | some w0 =>
      rw [hw'] at h
      simp only at h
      have hwid0 : w0.wid = wid' := (tget_some_mem hw').2
      by_cases hc : w0.completed = true
      · rw [if_pos hc] at h; cases h
      · rw [if_neg hc] at h
        cases hpp : s.pollPure wid' me cx clk fin with
        | error msg => rw [hpp] at h; cases h
        | ok po =>
          rw [hpp] at h
          simp only [Except.ok.injEq] at h
          subst h
          have hset : ∀ (s1 : SemState) (w1 : Waiter), w1.wid = wid' →
              (s1.setW w1).getW wid = s1.getW wid := by
            intro s1 w1 h1
            exact tget_tset_ne (by rw [h1]; exact hne)
          cases pollPure_cases hw' hpp with
          | granted hp hq ho => subst ho; rw [hset _ _ (by simp [hwid0])]; exact hw
          | closed hp hc' hq ho => subst ho; rw [hset _ _ (by simp [hwid0])]; exact hw
          | acquiredFresh hp hc' hq s' pc hacq ho =>
            subst ho
            obtain ⟨_, _, ht, _⟩ := acquirePermits_inv hi hacq
            rw [hset _ _ (by simp [hwid0]), hset _ _ (by simp [hwid0]), getW_eq, ht]; exact hw
          | acquiredQueued hp hc' hq hf hwk s' s3 pc effs w4 hacq hrm hw4 ho =>
            subst ho
            obtain ⟨i1, _, ht, _⟩ := acquirePermits_inv hi hacq
            have hw1 : s'.getW (polled w0).wid = some w0 := by
              rw [getW_eq, ht, polled_wid, hwid0]; exact hw'
            have hq0 := hi.tq.queuedOk w0 (tget_some_mem hw').1 hq
            obtain ⟨i2, _⟩ := i1.setW_same (w1 := polled w0) hw1 rfl rfl
              (by intro _; exact ⟨hp, by simpa using hc, hwk, hq0.2.2.2⟩) rfl rfl
            have hq3 : wid ∈ s3.queue := hq'
            rw [hset _ _ (by simp [(tget_some_mem hw4).2]),
              removeWaiterPure_other fin i2 hrm wid hne hq3, hset _ _ (by simp [hwid0]), getW_eq, ht]
            exact hw
          | enqueued hp hc' hq hwk hacq ho =>
            subst ho
            exact (hset { s with queue := s.queue ++ [wid'] } _ (by simp [hwid0])).trans hw
          | stillQueued hp hc' hq hf hwk hacq ho => subst ho; rw [hset _ _ (by simp [hwid0])]; exact hw
          | fairWait hp hc' hq hf hwk ho => subst ho; rw [hset _ _ (by simp [hwid0])]; exact hw
  | dropAcquire task wid' =>
    have hne : wid ≠ wid' := by
      intro e; subst e
      exact (drop_no_trace fin hi h).2.1 hq'
    simp only [step] at h
    cases hw' : s.getW wid' with
    | none =>
      rw [hw'] at h
      simp only [Except.ok.injEq] at h
      subst h; exact hw
    | some w0 =>
      rw [hw'] at h
      simp only at h
      by_cases hq : w0.isQueued = true
      · rw [if_pos hq] at h
        cases hrm : s.removeWaiterPure fin wid' with
        | error msg => rw [hrm] at h; cases h
        | ok r =>
          obtain ⟨s', effs⟩ := r
          rw [hrm] at h
          simp only [Except.ok.injEq] at h
          subst h
          have hq3 : wid ∈ s'.queue := hq'
          rw [getW_dropW_ne _ hne, removeWaiterPure_other fin hi hrm wid hne hq3]; exact hw
      · rw [if_neg hq] at h
        by_cases hg : (w0.hasPermits && !w0.completed) = true
        · rw [if_pos hg] at h
          simp only [Except.ok.injEq] at h
          subst h; rw [getW_dropW_ne _ hne]; exact hw
        · rw [if_neg hg] at h
          simp only [Except.ok.injEq] at h
          subst h; rw [getW_dropW_ne _ hne]; exact hw
  | release task n clk =>
    simp only [step] at h
    by_cases hn : n = 0
    · rw [if_pos hn] at h
      simp only [Except.ok.injEq] at h
      subst h; exact hw
    · rw [if_neg hn] at h
      simp only [Except.ok.injEq] at h
      subst h
      by_cases hf : s.fair = true
      · obtain ⟨_, _, _, hu, _⟩ := releasePure_fair_served fin n clk hi hf
        exact (hu wid hq').trans hw
      · have := releasePure_unfair_state fin n clk (by simpa using hf)
        show (s.releasePure fin n clk).1.getW wid = some w
        rw [this]; exact hw
  | close =>
    simp only [step, Except.ok.injEq] at h
    subst h
    have := (closePure_spec fin hi).2.2.2.2
    rw [show (s.closePure fin).1.queue = [] from this] at hq'
    cases hq'
  | poisonRelease task n =>
    simp only [step] at h
    by_cases hn : n = 0
    · rw [if_pos hn] at h
      simp only [Except.ok.injEq] at h
      subst h; exact hw
    · rw [if_neg hn] at h
      simp only [Except.ok.injEq] at h
      subst h
      have := (releasePoison_spec n hi).2.2.2
      rw [show (s.releasePoison n).queue = [] from this] at hq'
      cases hq'

end SemLts
end ShuttleModel
