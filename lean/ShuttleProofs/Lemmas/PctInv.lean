import ShuttleProofs.Lemmas.PctMap
import ShuttleProofs.Lemmas.PctRng

/-!
# The PCT scheduler invariant and the effect of every elementary update on it
-/

namespace ShuttleProofs.Pct
open ShuttleModel ShuttleModel.Pct

/-! ## List helpers -/

theorem nodup_set_fresh {l : List Nat} (hn : l.Nodup) {a : Nat} (ha : a ∉ l) (k : Nat) : (l.set k a).Nodup := by
  by_cases hk : k < l.length
  · rw [List.nodup_iff_count]; intro b
    rw [List.count_set hk]
    have h1 := List.nodup_iff_count.1 hn b
    by_cases hab : a = b
    · subst hab
      have : List.count a l = 0 := List.count_eq_zero.2 ha
      simp [this]
    · simp [hab]; omega
  · rw [List.set_eq_of_length_le (by omega)]; exact hn

theorem not_mem_set_getElem {l : List Nat} (hn : l.Nodup) {t : Nat} (ht : t < l.length) {a : Nat}
    (ha : a ≠ l[t]) : l[t] ∉ l.set t a := by
  rw [← List.count_eq_zero, List.count_set ht]
  have h1 : List.count l[t] l = 1 := by
    rw [hn.count]; simp
  simp [h1, ha]

/-! ## The invariant -/

/-- Invariant of the priority map `m` with next fresh priority `np`: keys are exactly `0..len-1` (each once, in order),
    all priority values are pairwise distinct, all are `< np`. -/
structure MInv (m : List (Nat × Nat)) (np : Nat) : Prop where
  keys : KeysOk m
  nodup : (vals m).Nodup
  bound : ∀ v ∈ vals m, v < np

/-- pct.rs:25 "every TaskId in [0, len) appears as a key exactly once; all values are distinct", plus
    "every value is below `next_priority`". -/
def Inv (s : PctState) : Prop := MInv s.priorities s.nextPriority

theorem MInv.fresh_not_mem {m np} (h : MInv m np) : np ∉ vals m := fun hm => Nat.lt_irrefl _ (h.bound _ hm)

/-- Effect of `insert(k, next_priority); next_priority += 1` for a known `k`. -/
theorem MInv.insert_known {m np} (h : MInv m np) {k : Nat} (hk : k < m.length) :
    MInv (mapInsert m k np) (np + 1) := by
  refine ⟨keysOk_insert_lt h.keys hk np, ?_, ?_⟩
  · rw [vals_insert_lt h.keys hk]; exact nodup_set_fresh h.nodup h.fresh_not_mem k
  · rw [vals_insert_lt h.keys hk]; intro v hv
    rcases List.mem_or_eq_of_mem_set hv with hv | rfl
    · have := h.bound v hv; omega
    · omega

/-- Effect of `insert(len, next_priority); next_priority += 1` (new task takes the fresh priority). -/
theorem MInv.insert_new_fresh {m np} (h : MInv m np) : MInv (mapInsert m m.length np) (np + 1) := by
  refine ⟨keysOk_insert_end h.keys np, ?_, ?_⟩
  · rw [vals_insert_end h.keys, List.nodup_append]
    refine ⟨h.nodup, by simp, ?_⟩
    intro a ha b hb; simp at hb; subst hb; have := h.bound a ha; omega
  · rw [vals_insert_end h.keys]; intro v hv
    rcases List.mem_append.1 hv with hv | hv
    · have := h.bound v hv; omega
    · simp at hv; omega

/-- Effect of `old = insert(t, next_priority); insert(len, old); next_priority += 1` (swap with known task `t`). -/
theorem MInv.insert_new_swap {m np} (h : MInv m np) {t old : Nat} (ht : mapGet m t = some old) :
    MInv (mapInsert (mapInsert m t np) m.length old) (np + 1) := by
  have htl : t < m.length := mapGet_lt h.keys ht
  have h1 := h.insert_known htl
  have hlen : (mapInsert m t np).length = m.length := length_insert_lt h.keys htl np
  have hold : (vals m)[t]'(by simpa using htl) = old := by
    have := ht; rw [mapGet_eq h.keys] at this
    exact (List.getElem?_eq_some_iff.1 this).2
  have hvals : vals (mapInsert m t np) = (vals m).set t np := vals_insert_lt h.keys htl np
  have holdb : old < np := h.bound old (mapGet_mem_vals h.keys ht)
  rw [← hlen]
  refine ⟨keysOk_insert_end h1.keys old, ?_, ?_⟩
  · rw [vals_insert_end h1.keys, List.nodup_append]
    refine ⟨h1.nodup, by simp, ?_⟩
    intro a ha b hb; simp at hb; subst hb
    rw [hvals] at ha
    intro hab; subst hab
    have := not_mem_set_getElem h.nodup (t := t) (by simpa using htl) (a := np) (by rw [hold]; omega)
    rw [hold] at this; exact this ha
  · rw [vals_insert_end h1.keys]; intro v hv
    rcases List.mem_append.1 hv with hv | hv
    · exact h1.bound v hv
    · simp at hv; omega

end ShuttleProofs.Pct
