import ShuttleModel.Serialize

namespace ShuttleModel

/-! ### `writeVarint` produces bytes -/

theorem writeVarintAux_lt (f v : Nat) : ∀ b ∈ writeVarintAux f v, b < 256 := by
  induction f generalizing v with
  | zero => simp [writeVarintAux]
  | succ f ih =>
    intro b hb
    unfold writeVarintAux at hb
    split at hb
    · simp at hb; omega
    · simp only [List.mem_cons] at hb
      rcases hb with rfl | hb
      · omega
      · exact ih _ b hb

theorem writeVarint_lt (v : Nat) : ∀ b ∈ writeVarint v, b < 256 := writeVarintAux_lt 10 v

theorem writeVarintAux_ne_nil (f v : Nat) : writeVarintAux (f + 1) v ≠ [] := by
  unfold writeVarintAux; split <;> simp

/-! ### Round trip -/

/-- The loop of the reader, started after `k` bytes (`offset = 7k`, `1 ≤ k ≤ 8`), reads back what
    the writer emits for the remaining value `v < 2^(64 - offset)`. -/
theorem readVarintLoop_write (f : Nat) : ∀ (v result offset : Nat) (rest : List Nat),
    offset + 7 * (f + 1) = 63 → v < 2 ^ (64 - offset) →
    readVarintLoop result offset (writeVarintAux (f + 2) v ++ rest)
      = some (result + v * 2 ^ offset, rest) := by
  induction f with
  | zero =>
    intro v result offset rest ho hv
    have ho' : offset = 56 := by omega
    subst ho'
    simp only [Nat.reduceSub, Nat.reducePow] at hv
    by_cases h : v / 128 = 0
    · have hv' : v % 128 = v := by omega
      simp [writeVarintAux, readVarintLoop, h, hv']
    · have h1 : v / 128 = 1 := by omega
      have h2 : (v % 128 + 128) / 128 = 1 := by omega
      have h3 : (v % 128 + 128) % 128 = v % 128 := by omega
      have hw : writeVarintAux 2 v = [v % 128 + 128, 1] := by
        simp [writeVarintAux, h1]
      rw [hw]
      simp only [List.cons_append, List.nil_append, readVarintLoop, h2, h3]
      simp
      omega
  | succ f ih =>
    intro v result offset rest ho hv
    by_cases h : v / 128 = 0
    · have hv' : v % 128 = v := by omega
      simp [writeVarintAux, readVarintLoop, h, hv']
    · have h2 : (v % 128 + 128) / 128 ≠ 0 := by omega
      have h3 : (v % 128 + 128) % 128 = v % 128 := by omega
      have h4 : offset + 7 ≠ 63 := by omega
      rw [writeVarintAux, if_neg h, List.cons_append, readVarintLoop]
      simp only [h2, h3, h4, if_false]
      rw [ih (v / 128) _ (offset + 7) rest (by omega)]
      · congr 2
        rw [Nat.pow_add, Nat.add_assoc]
        congr 1
        have : v = v % 128 + v / 128 * 128 := by omega
        conv => rhs; rw [this]
        rw [Nat.add_mul, Nat.mul_assoc, Nat.mul_comm (2 ^ offset) (2 ^ 7)]
      · have e : 64 - offset = (64 - (offset + 7)) + 7 := by omega
        rw [e, Nat.pow_add] at hv
        simp only [Nat.reducePow] at hv
        exact (Nat.div_lt_iff_lt_mul (by omega)).mpr hv

/-- `varint_roundtrip`, list-level. -/
theorem readVarint_writeVarint (v : Nat) (hv : v < 2 ^ 64) (rest : List Nat) :
    readVarint (writeVarint v ++ rest) = some (v, rest) := by
  unfold writeVarint
  by_cases h : v / 128 = 0
  · have hv' : v % 128 = v := by omega
    simp [writeVarintAux, readVarint, h, hv']
  · have h2 : (v % 128 + 128) / 128 ≠ 0 := by omega
    have h3 : (v % 128 + 128) % 128 = v % 128 := by omega
    rw [writeVarintAux, if_neg h, List.cons_append, readVarint]
    simp only [h2, h3, if_false]
    rw [readVarintLoop_write 7 (v / 128) _ 7 rest (by omega)]
    · congr 2; omega
    · simp only [Nat.reduceSub, Nat.reducePow] at hv ⊢; omega

/-! ### Reading ignores what follows; strict prefixes of an encoding do not parse -/

theorem readVarintLoop_append (bs : List Nat) : ∀ (result offset v : Nat) (r q : List Nat),
    readVarintLoop result offset bs = some (v, r) →
    readVarintLoop result offset (bs ++ q) = some (v, r ++ q) := by
  induction bs with
  | nil => intro result offset v r q h; simp [readVarintLoop] at h
  | cons b bs ih =>
    intro result offset v r q h
    rw [List.cons_append]
    rw [readVarintLoop] at h ⊢
    by_cases h1 : b / 128 = 0
    · simp only [h1, if_true] at h ⊢
      simp only [Option.some.injEq, Prod.mk.injEq] at h
      obtain ⟨rfl, rfl⟩ := h; rfl
    · simp only [h1, if_false] at h ⊢
      by_cases h2 : offset + 7 = 63
      · simp only [h2, if_true] at h ⊢
        cases bs with
        | nil => simp at h
        | cons l bs' =>
          simp only [List.cons_append] at h ⊢
          by_cases h3 : l = 1
          · simp only [h3, if_true, Option.some.injEq, Prod.mk.injEq] at h ⊢
            obtain ⟨rfl, rfl⟩ := h; exact ⟨rfl, rfl⟩
          · simp [h3] at h
      · simp only [h2, if_false] at h ⊢
        exact ih _ _ _ _ _ h

theorem readVarint_append (bs : List Nat) (v : Nat) (r q : List Nat)
    (h : readVarint bs = some (v, r)) : readVarint (bs ++ q) = some (v, r ++ q) := by
  cases bs with
  | nil => simp [readVarint] at h
  | cons b bs =>
    rw [List.cons_append]
    rw [readVarint] at h ⊢
    by_cases h1 : b / 128 = 0
    · simp only [h1, if_true, Option.some.injEq, Prod.mk.injEq] at h ⊢
      obtain ⟨rfl, rfl⟩ := h; exact ⟨rfl, rfl⟩
    · simp only [h1, if_false] at h ⊢
      exact readVarintLoop_append _ _ _ _ _ _ h

/-- A strict prefix of a varint encoding is a truncated varint. -/
theorem readVarint_take_writeVarint (v : Nat) (hv : v < 2 ^ 64) (i : Nat)
    (hi : i < (writeVarint v).length) : readVarint ((writeVarint v).take i) = none := by
  cases hr : readVarint ((writeVarint v).take i) with
  | none => rfl
  | some p =>
    obtain ⟨x, r⟩ := p
    have h1 := readVarint_append _ _ _ ((writeVarint v).drop i) hr
    rw [List.take_append_drop] at h1
    have h2 := readVarint_writeVarint v hv []
    rw [List.append_nil] at h2
    rw [h2] at h1
    simp only [Option.some.injEq, Prod.mk.injEq] at h1
    have h3 := congrArg List.length h1.2
    simp at h3
    omega

/-- The value read by `read_u64_varint` always fits a `u64` (no wrap-around in the Rust code). -/
theorem readVarintLoop_lt (bs : List Nat) : ∀ (result offset v : Nat) (r : List Nat),
    (∀ b ∈ bs, b < 256) → offset % 7 = 0 → offset ≤ 56 → result < 2 ^ offset →
    readVarintLoop result offset bs = some (v, r) → v < 2 ^ 64 := by
  induction bs with
  | nil => intro result offset v r _ _ _ _ h; simp [readVarintLoop] at h
  | cons b bs ih =>
    intro result offset v r hb hm ho hres h
    have hb256 : b < 256 := hb b (by simp)
    have hstep : result + b % 128 * 2 ^ offset < 2 ^ (offset + 7) := by
      rw [Nat.pow_add]
      have : b % 128 + 1 ≤ 2 ^ 7 := by simp only [Nat.reducePow]; omega
      calc result + b % 128 * 2 ^ offset < 2 ^ offset + b % 128 * 2 ^ offset := by omega
        _ = (b % 128 + 1) * 2 ^ offset := by rw [Nat.add_mul, Nat.one_mul, Nat.add_comm]
        _ ≤ 2 ^ 7 * 2 ^ offset := Nat.mul_le_mul_right _ this
        _ = 2 ^ offset * 2 ^ 7 := Nat.mul_comm _ _
    rw [readVarintLoop] at h
    by_cases h1 : b / 128 = 0
    · simp only [h1, if_true, Option.some.injEq, Prod.mk.injEq] at h
      obtain ⟨rfl, _⟩ := h
      exact Nat.lt_of_lt_of_le hstep (Nat.pow_le_pow_right (by omega) (by omega))
    · simp only [h1, if_false] at h
      by_cases h2 : offset + 7 = 63
      · simp only [h2, if_true] at h
        cases bs with
        | nil => simp at h
        | cons l bs' =>
          by_cases h3 : l = 1
          · simp only [h3, if_true, Option.some.injEq, Prod.mk.injEq] at h
            obtain ⟨rfl, _⟩ := h
            rw [h2] at hstep
            simp only [Nat.reducePow] at hstep ⊢
            omega
          · simp [h3] at h
      · simp only [h2, if_false] at h
        exact ih _ (offset + 7) v r (fun x hx => hb x (by simp [hx])) (by omega) (by omega) hstep h

theorem readVarint_lt (bs : List Nat) (v : Nat) (r : List Nat) (hb : ∀ b ∈ bs, b < 256)
    (h : readVarint bs = some (v, r)) : v < 2 ^ 64 := by
  cases bs with
  | nil => simp [readVarint] at h
  | cons b bs =>
    have hb256 : b < 256 := hb b (by simp)
    rw [readVarint] at h
    by_cases h1 : b / 128 = 0
    · simp only [h1, if_true, Option.some.injEq, Prod.mk.injEq] at h
      obtain ⟨rfl, _⟩ := h
      simp only [Nat.reducePow]; omega
    · simp only [h1, if_false] at h
      exact readVarintLoop_lt bs _ 7 v r (fun x hx => hb x (by simp [hx])) (by omega) (by omega)
        (by simp only [Nat.reducePow]; omega) h

end ShuttleModel
