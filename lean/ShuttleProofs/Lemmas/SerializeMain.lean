import ShuttleProofs.Lemmas.SerializeBits
import ShuttleProofs.Lemmas.SerializeVarint
import ShuttleProofs.Lemmas.SerializeHex
import ShuttleProofs.Lemmas.SerializeWrap
import ShuttleProofs.Lemmas.SerializeSteps

namespace ShuttleModel

/-- Number of bytes before the packed steps: magic + three varints. -/
def headerLen (s : Schedule) : Nat :=
  1 + (writeVarint (taskIdBits s.steps)).length + (writeVarint s.steps.length).length
    + (writeVarint s.seed).length

/-- Number of bits of the packed-steps area that the decoder actually consumes
    (`1 + width` per `Task` step, `1` per `Random` step). -/
def neededBits (s : Schedule) : Nat := (stepsBits (taskIdBits s.steps) s.steps).length

theorem taskIdBits_le_64 {s : Schedule} (h : s.wf) : taskIdBits s.steps ≤ 64 :=
  taskIdBits_le (by omega) h.2.1

theorem readVarint_take_append (v : Nat) (hv : v < 2 ^ 64) (i : Nat) (X : List Nat) :
    readVarint ((writeVarint v ++ X).take i)
      = if i < (writeVarint v).length then none
        else some (v, X.take (i - (writeVarint v).length)) := by
  split
  · next h =>
    rw [List.take_append_of_le_length (Nat.le_of_lt h)]
    exact readVarint_take_writeVarint v hv i h
  · next h =>
    rw [List.take_append, List.take_of_length_le (l := writeVarint v) (by omega)]
    exact readVarint_writeVarint v hv _

theorem encodeBytes_length (s : Schedule) :
    (encodeBytes s).length = headerLen s + (encodeStepBytes (taskIdBits s.steps) s.steps).length := by
  simp only [encodeBytes, headerLen, List.length_cons, List.length_append]
  omega

theorem neededBits_le (s : Schedule) :
    neededBits s ≤ 8 * (encodeStepBytes (taskIdBits s.steps) s.steps).length := by
  have := stepsBits_length_le (taskIdBits s.steps) s.steps
  simp only [neededBits, encodeStepBytes, packBytes_length]
  omega

theorem encodeBytes_lt (s : Schedule) : ∀ b ∈ encodeBytes s, b < 256 := by
  intro b hb
  simp only [encodeBytes, List.mem_cons, List.mem_append] at hb
  rcases hb with rfl | hb | hb | hb | hb
  · decide
  · exact writeVarint_lt _ b hb
  · exact writeVarint_lt _ b hb
  · exact writeVarint_lt _ b hb
  · exact packBytes_lt _ _ b hb

/-- Master lemma: what the decoder makes of the first `j` bytes of an encoding.  It succeeds —
    with the original schedule — exactly when the whole header and all *needed* step bits survive
    (only unused trailing zero bytes may be cut). -/
theorem decodeBytes_take (s : Schedule) (h : s.wf) (j : Nat) :
    decodeBytes ((encodeBytes s).take j)
      = if headerLen s ≤ j ∧ neededBits s ≤ 8 * (j - headerLen s) then some s else none := by
  obtain ⟨hseed, hids, hlen⟩ := h
  have hw1 := one_le_taskIdBits s.steps
  have hw64 : taskIdBits s.steps ≤ 64 := taskIdBits_le (by omega) hids
  have hwlt : taskIdBits s.steps < 2 ^ 64 := by
    have : (64 : Nat) < 2 ^ 64 := by decide
    omega
  cases j with
  | zero => simp [decodeBytes, headerLen]
  | succ j =>
    simp only [encodeBytes, List.take_succ_cons]
    rw [decodeBytes]
    simp only [SCHEDULE_MAGIC_V2, ne_eq, not_true_eq_false, if_false]
    rw [readVarint_take_append _ hwlt]
    by_cases h1 : j < (writeVarint (taskIdBits s.steps)).length
    · rw [if_pos h1, if_neg (by simp only [headerLen]; omega)]
    rw [if_neg h1]
    simp only []
    rw [readVarint_take_append _ hlen]
    by_cases h2 : j - (writeVarint (taskIdBits s.steps)).length < (writeVarint s.steps.length).length
    · rw [if_pos h2, if_neg (by simp only [headerLen]; omega)]
    rw [if_neg h2]
    simp only []
    rw [readVarint_take_append _ hseed]
    by_cases h3 : j - (writeVarint (taskIdBits s.steps)).length - (writeVarint s.steps.length).length
        < (writeVarint s.seed).length
    · rw [if_pos h3, if_neg (by simp only [headerLen]; omega)]
    rw [if_neg h3]
    simp only []
    rw [if_neg (by omega)]
    have hk : j - (writeVarint (taskIdBits s.steps)).length - (writeVarint s.steps.length).length
        - (writeVarint s.seed).length = j + 1 - headerLen s := by
      simp only [headerLen]; omega
    have hhl : headerLen s ≤ j + 1 := by simp only [headerLen]; omega
    rw [hk, bytesToBits_take, encodeStepBytes,
      bytesToBits_packBytes _ _ (by have := stepsBits_length_le (taskIdBits s.steps) s.steps; omega)]
    by_cases h4 : neededBits s ≤ 8 * (j + 1 - headerLen s)
    · rw [if_pos ⟨hhl, h4⟩]
      rw [List.take_append,
        List.take_of_length_le (l := stepsBits (taskIdBits s.steps) s.steps)
          (by simpa [neededBits] using h4),
        decodeSteps_stepsBits _ _ _ (fun id hm => lt_two_pow_taskIdBits hm)]
    · rw [if_neg (fun hc => h4 hc.2)]
      have h4' : 8 * (j + 1 - headerLen s) < (stepsBits (taskIdBits s.steps) s.steps).length := by
        simpa [neededBits] using h4
      rw [List.take_append_of_le_length (Nat.le_of_lt h4'), decodeSteps_take _ _ _ h4']

theorem decodeBytes_encodeBytes (s : Schedule) (h : s.wf) : decodeBytes (encodeBytes s) = some s := by
  have := decodeBytes_take s h (encodeBytes s).length
  rw [List.take_length] at this
  rw [this, if_pos]
  have := neededBits_le s
  rw [encodeBytes_length]
  constructor <;> omega

/-! ### Character level -/

theorem filter_hexOfSchedule (s : Schedule) :
    (hexOfSchedule s).filter (fun c => !isWhitespace c) = hexOfSchedule s := by
  rw [List.filter_eq_self]
  intro c hc
  simp [(encodeHex_not_ws _ (encodeBytes_lt s) c hc).1]

theorem filter_take_hexOfSchedule (s : Schedule) (k : Nat) :
    ((hexOfSchedule s).take k).filter (fun c => !isWhitespace c) = (hexOfSchedule s).take k := by
  rw [List.filter_eq_self]
  intro c hc
  simp [(encodeHex_not_ws _ (encodeBytes_lt s) c (List.mem_of_mem_take hc)).1]

theorem deserializeChars_of_filter_take (s : Schedule) (h : s.wf) (cs : List Char) (j : Nat)
    (hcs : cs.filter (fun c => !isWhitespace c) = (hexOfSchedule s).take (2 * j)) :
    deserializeChars cs
      = if headerLen s ≤ j ∧ neededBits s ≤ 8 * (j - headerLen s) then some s else none := by
  unfold deserializeChars
  rw [hcs, hexOfSchedule, encodeHex_take,
    decodeHex_encodeHex _ (fun b hb => encodeBytes_lt s b (List.mem_of_mem_take hb))]
  exact decodeBytes_take s h j

theorem deserializeChars_of_filter (s : Schedule) (h : s.wf) (cs : List Char)
    (hcs : cs.filter (fun c => !isWhitespace c) = hexOfSchedule s) :
    deserializeChars cs = some s := by
  unfold deserializeChars
  rw [hcs, hexOfSchedule, decodeHex_encodeHex _ (encodeBytes_lt s)]
  exact decodeBytes_encodeBytes s h

theorem filter_serializeChars (s : Schedule) :
    (serializeChars s).filter (fun c => !isWhitespace c) = hexOfSchedule s := by
  unfold serializeChars
  rw [filter_joinLines _ (by simp [isWhitespace_newline]), chunks_flatten _ (by decide),
    filter_hexOfSchedule]

theorem hexOfSchedule_ne_nil (s : Schedule) : hexOfSchedule s ≠ [] := by
  simp [hexOfSchedule, encodeBytes, encodeHex]

theorem linesOf_serializeChars (s : Schedule) :
    linesOf (serializeChars s) = chunks LINE_WIDTH (hexOfSchedule s) := by
  unfold serializeChars
  apply linesOf_joinLines _ (chunks_ne_nil _ _ (hexOfSchedule_ne_nil s))
  intro c hc hnl
  have := (chunksAux_spec LINE_WIDTH (by decide) _ _ c hc).2.2 _ hnl
  exact (encodeHex_not_ws _ (encodeBytes_lt s) _ this).2 rfl

end ShuttleModel
