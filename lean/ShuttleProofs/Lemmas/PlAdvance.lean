import ShuttleProofs.Lemmas.PlSem
/-
  `PlCfg.advance`: what granting a prefix of a queue does to the phases of the clients.
-/
namespace ShuttleProofs.Pl
open ShuttleModel

/-- the phase of task `t` in a phase list -/
abbrev phAt (ph : List PlPhase) (t : Nat) : PlPhase := (ph[t]?).getD .idle

/-- every queue entry names an existing task whose phase waits for exactly that request -/
def QOk (w : PlPhase → Option Nat) (q : List (Nat × Nat)) (ph : List PlPhase) : Prop :=
  ∀ e ∈ q, e.1 < ph.length ∧ w (phAt ph e.1) = some e.2

theorem phAt_set_eq (ph : List PlPhase) (t : Nat) (p : PlPhase) (h : t < ph.length) :
    phAt (ph.set t p) t = p := by
  simp [phAt, h]

theorem phAt_set_ne (ph : List PlPhase) (t u : Nat) (p : PlPhase) (h : t ≠ u) :
    phAt (ph.set t p) u = phAt ph u := by
  simp [phAt, List.getElem?_set_ne h]

theorem advance_map_eq {β : Type} (g : PlPhase → PlPhase) (f : PlPhase → β) (h : ∀ p, f (g p) = f p)
    (gs : List (Nat × Nat)) (ph : List PlPhase) :
    (PlCfg.advance g gs ph).map f = ph.map f := by
  induction gs generalizing ph with
  | nil => rfl
  | cons e gs ih =>
    obtain ⟨t, n⟩ := e
    simp only [PlCfg.advance]
    rw [ih]
    apply List.ext_getElem?
    intro i
    by_cases hi : i = t
    · subst hi
      by_cases hl : i < ph.length
      · simp [hl, h]
      · simp [Nat.not_lt.mp hl]
    · simp [List.getElem?_set_ne (Ne.symm hi)]

theorem advance_length (g : PlPhase → PlPhase) (gs : List (Nat × Nat)) (ph : List PlPhase) :
    (PlCfg.advance g gs ph).length = ph.length := by
  have := congrArg List.length (advance_map_eq g (fun _ => ()) (fun _ => rfl) gs ph)
  simpa using this

theorem advance_total_eq (g : PlPhase → PlPhase) (f : PlPhase → Nat) (h : ∀ p, f (g p) = f p)
    (gs : List (Nat × Nat)) (ph : List PlPhase) :
    total f (PlCfg.advance g gs ph) = total f ph := by
  simp [total, advance_map_eq g f h]

theorem advance_pointwise {β : Type} (g : PlPhase → PlPhase) (f : PlPhase → β) (h : ∀ p, f (g p) = f p)
    (gs : List (Nat × Nat)) (ph : List PlPhase) (t : Nat) :
    f (phAt (PlCfg.advance g gs ph) t) = f (phAt ph t) := by
  have hm := advance_map_eq g f h gs ph
  have hl := advance_length g gs ph
  have := congrArg (fun l => l[t]?) hm
  simp only [List.getElem?_map] at this
  unfold phAt
  by_cases ht : t < ph.length
  · have ht' : t < (PlCfg.advance g gs ph).length := by omega
    simp [List.getElem?_eq_getElem ht, List.getElem?_eq_getElem ht'] at this ⊢
    exact this
  · have ht' : ¬ t < (PlCfg.advance g gs ph).length := by omega
    simp [List.getElem?_eq_none (Nat.not_lt.mp ht), List.getElem?_eq_none (Nat.not_lt.mp ht')]

theorem advance_not_mem (g : PlPhase → PlPhase) (gs : List (Nat × Nat)) (ph : List PlPhase) (t : Nat)
    (h : t ∉ gs.map (·.1)) : phAt (PlCfg.advance g gs ph) t = phAt ph t := by
  induction gs generalizing ph with
  | nil => rfl
  | cons e gs ih =>
    obtain ⟨u, n⟩ := e
    simp only [List.map_cons, List.mem_cons, not_or] at h
    simp only [PlCfg.advance]
    rw [ih _ h.2]
    exact phAt_set_ne ph u t _ (Ne.symm h.1)

/-- granting the entries `gs` adds exactly what they asked for -/
theorem advance_total (g : PlPhase → PlPhase) (f : PlPhase → Nat) (w : PlPhase → Option Nat)
    (hstep : ∀ p n, w p = some n → f (g p) = f p + n)
    (gs : List (Nat × Nat)) (ph : List PlPhase) (hq : QOk w gs ph) (hnd : (gs.map (·.1)).Nodup) :
    total f (PlCfg.advance g gs ph) = total f ph + reqSum gs := by
  induction gs generalizing ph with
  | nil => simp [PlCfg.advance, reqSum]
  | cons e gs ih =>
    obtain ⟨t, n⟩ := e
    simp only [List.map_cons, List.nodup_cons] at hnd
    have ht := hq (t, n) (by simp)
    simp only [PlCfg.advance, reqSum]
    have hq' : QOk w gs (ph.set t (g (phAt ph t))) := by
      intro e he
      have := hq e (by simp [he])
      have hne : t ≠ e.1 := by
        intro heq
        exact hnd.1 (by rw [heq]; exact List.mem_map_of_mem he)
      simp only [List.length_set]
      rw [phAt_set_ne _ _ _ _ hne]
      exact this
    rw [ih _ hq' hnd.2]
    have h1 := total_set f ph t (g (phAt ph t)) ht.1
    have h2 := hstep _ _ ht.2
    simp only [phAt] at h1 h2 ⊢
    omega

/-- a granted task moves to the granted phase -/
theorem advance_mem (g : PlPhase → PlPhase) (gs : List (Nat × Nat)) (ph : List PlPhase) (t : Nat)
    (hm : t ∈ gs.map (·.1)) (hnd : (gs.map (·.1)).Nodup) (hl : t < ph.length) :
    phAt (PlCfg.advance g gs ph) t = g (phAt ph t) := by
  induction gs generalizing ph with
  | nil => simp at hm
  | cons e gs ih =>
    obtain ⟨u, n⟩ := e
    simp only [List.map_cons, List.nodup_cons] at hnd
    simp only [List.map_cons, List.mem_cons] at hm
    simp only [PlCfg.advance]
    by_cases hu : t = u
    · subst hu
      rw [advance_not_mem _ _ _ _ hnd.1]
      exact phAt_set_eq ph t _ hl
    · rcases hm with h | h
      · exact absurd h hu
      · rw [ih _ h hnd.2 (by simpa using hl)]
        rw [phAt_set_ne _ _ _ _ (Ne.symm hu)]

end ShuttleProofs.Pl
