import ShuttleModel.Prim.Future
import ShuttleProofs.Lemmas.KernelExamples
/-!
# C17 helpers: a concrete async program built from the model's own wrappers (`Fut.register`, `Fut.abort`,
`Fut.detach`, `Fut.blockOn (.join _)`, `Fut.taskLoop`, `Fut.finish`), instrumented with counters, for the
non-vacuity examples of the future-level theorems
-/
namespace ShuttleProofs.C17
open ShuttleModel ShuttleProofs.Kernel

/-- shared state: the async heap + counters written by the example's inner future -/
structure AU where
  fut : FutHeap := FutHeap.init 2 1 0
  /-- polls of the inner future -/
  polls : Nat := 0
  /-- times the inner future was dropped un-completed -/
  dropped : Nat := 0
  /-- times the thread-local destructors ran -/
  tls : Nat := 0
  /-- what the join returned: 0 = nothing yet, 1 = `Ok`, 2 = `Err(Cancelled)`, 3 = anything else -/
  joined : Nat := 0
deriving Inhabited

def auF : Lens AU FutHeap := { get := (·.fut), set := fun f u => { u with fut := f } }
def auSem : Nat → Lens AU SemState := fun _ => { get := fun _ => default, set := fun _ u => u }

def bump (f : AU → AU) : Prog AU Unit := do
  let u ← K.getU
  K.setU (f u)

/-- the inner future: `Pending` `n` times (waking itself first, as `yield_now` does), then `Ready`; with `sw` it
reaches a scheduling point in the middle of every poll (a sync operation inside the async block) -/
def exPoll (sw : Bool) : Nat → Prog AU (Option Nat)
  | 0 => do
    bump fun u => { u with polls := u.polls + 1 }
    if sw then K.switch else pure ()
    pure none
  | n + 1 => do
    bump fun u => { u with polls := u.polls + 1 }
    if sw then K.switch else pure ()
    let me ← K.me
    K.wake me
    pure (some n)

def record (r : String) : Prog AU Unit :=
  bump fun u => { u with joined := if r = "ok" then 1 else if r = "cancelled" then 2 else 3 }

/-- `mode 0`: spawn, `block_on(handle)`;  `mode 1`: spawn, `abort`, `block_on(handle)`, `abort` again;
`mode 2`: spawn, drop the handle;  `mode 4`: the same, then three scheduling points;  `mode 3`: spawn, `block_on(handle)`, then try to join again -/
def exAsync (pendings : Nat) (sw : Bool) (mode : Nat) : Program :=
  { U := AU, init := {},
    bodies := fun i => match i with
      | 0 => do
        let tid ← K.spawn true 1
        Fut.register auF 1 tid
        match mode with
        | 0 => do
          let r ← Fut.blockOn auF auSem (.join 1)
          record r
        | 1 => do
          let _ ← Fut.abort auF 1
          let r ← Fut.blockOn auF auSem (.join 1)
          record r
          let _ ← Fut.abort auF 1
          pure ()
        | 2 => do
          let _ ← Fut.detach auF 1
          pure ()
        | 4 => do
          let _ ← Fut.detach auF 1
          K.switch
          K.switch
          K.switch
        | _ => do
          let r ← Fut.blockOn auF auSem (.join 1)
          record r
          let r2 ← Fut.blockOn auF auSem (.join 1)
          bump fun u => { u with joined := u.joined + (if r2 = "nohandle" then 10 else 20) }
      | _ => do
        Fut.markStarted auF 1
        Fut.taskLoop auF 1 (exPoll sw) (fun _ => bump fun u => { u with dropped := u.dropped + 1 })
          (bump fun u => { u with tls := u.tls + 1 }) Fut.loopFuel pendings }

/-- follows the given list of choices, then always the first offered task -/
def listSched : Scheduler (List Nat) :=
  { nextTask := fun s vs _ _ => match s with
      | [] => (.choose (vs.head?.map (·.id)), [])
      | t :: r => (.choose (some t), r),
    nextU64 := fun s => (.ok 7, s) }

/-- what the examples observe at the end: `[polls, dropped, tls, joined]`, the result slot, the `aborted` flag,
and `(state, detached)` of every task -/
def obsAsync {σ : Type} {n : Nat} {sw : Bool} {m : Nat} (r : Result (exAsync n sw m) σ) :
    List Nat × Option Bool × Bool × List (TState × Bool) :=
  let u : AU := r.st.u
  let j : JoinState := (u.fut.joins[1]?).getD ({} : JoinState)
  ([u.polls, u.dropped, u.tls, u.joined], j.result, j.aborted, r.st.k.tasks.map (fun t => (t.state, t.detached)))

end ShuttleProofs.C17
