import ShuttleProofs.Lemmas.LocksMutex
/-
  C04 (lock part), RwLock: writer exclusion, no reader with a writer, try_read/try_write,
  re-entrancy diagnosis, the permit leak of a re-entrant try_read (F3) and poisoning, over all states
  reachable in the most-general-client LTS `RReach` of `LocksLts.lean`.
-/
namespace ShuttleModel
namespace LocksLts
open SemLts

theorem MAX_READS_pos : 1 ≤ Generated.MAX_READS := by decide

theorem permits_pos (write : Bool) : 0 < RwLock.permits write := by
  cases write <;> simp [RwLock.permits, Generated.MAX_READS]

/-! ### the pure guard functions -/

/-- the ghost guard lists agree with the `holder` field -/
def HM : RwHolder → List Nat → List Nat → Prop
  | .none, rg, wg => rg = [] ∧ wg = []
  | .read rs, rg, wg => rg = rs ∧ wg = [] ∧ rs ≠ [] ∧ rs.Nodup
  | .write w, rg, wg => rg = [] ∧ wg = [w]

theorem takeGuard_ok_spec {m m' : RwLockState} {t : Nat} {write p : Bool} {rg wg : List Nat}
    (h : m.takeGuard t write p = .ok m') (hm : HM m.holder rg wg) :
    m'.sem = m.sem ∧ m'.poisoned = m.poisoned ∧ m'.value = m.value ∧ wg = [] ∧
      (if write then HM m'.holder rg [t] ∧ rg = [] else HM m'.holder (rg ++ [t]) wg) := by
  cases write <;> cases hh : m.holder <;> simp only [RwLockState.takeGuard, hh] at h
  · -- read, none
    cases h
    rw [hh] at hm
    obtain ⟨rfl, rfl⟩ := hm
    exact ⟨rfl, rfl, rfl, rfl, by simp [HM]⟩
  · -- read, read rs
    rename_i rs
    split at h
    · cases h
    · rename_i hc
      cases h
      rw [hh] at hm
      obtain ⟨rfl, rfl, hne, hnd⟩ := hm
      refine ⟨rfl, rfl, rfl, rfl, ?_⟩
      have hnot : t ∉ rg := by simpa using hc
      simp only [Bool.false_eq_true, if_false, HM, true_and]
      refine ⟨by simp, ?_⟩
      rw [List.nodup_append]
      exact ⟨hnd, by simp, by intro a ha b hb; simp at hb; subst hb; intro e; exact hnot (e ▸ ha)⟩
  · cases h
  · -- write, none
    cases h
    rw [hh] at hm
    obtain ⟨rfl, rfl⟩ := hm
    exact ⟨rfl, rfl, rfl, rfl, by simp [HM]⟩
  · cases h
  · cases h

theorem takeGuard_already {m : RwLockState} {t : Nat} {write p : Bool}
    (h : m.takeGuard t write p = .already) : write = false ∧ ∃ rs, m.holder = .read rs ∧ t ∈ rs := by
  cases write <;> cases hh : m.holder <;> simp only [RwLockState.takeGuard, hh] at h
  · cases h
  · rename_i rs
    split at h
    · rename_i hc
      exact ⟨rfl, rs, rfl, by simpa using hc⟩
    · cases h
  · cases h
  · cases h
  · cases h
  · cases h

theorem takeGuard_incompatible {m : RwLockState} {t : Nat} {write p : Bool}
    (h : m.takeGuard t write p = .incompatible) :
    (write = true ∧ ∃ rs, m.holder = .read rs) ∨ (∃ w, m.holder = .write w) := by
  cases write <;> cases hh : m.holder <;> simp only [RwLockState.takeGuard, hh] at h
  · cases h
  · split at h <;> cases h
  · exact Or.inr ⟨_, rfl⟩
  · cases h
  · exact Or.inl ⟨rfl, _, rfl⟩
  · exact Or.inr ⟨_, rfl⟩

theorem dropGuard_write {m : RwLockState} {t : Nat} (p : Bool) (h : m.holder = .write t) :
    m.dropGuard t true p =
      ({ m with poisoned := m.poisoned || (p && !m.wGuardPanicking), holder := .none }, none) := by
  simp [RwLockState.dropGuard, h]

theorem dropGuard_read {m : RwLockState} {t : Nat} {rs : List Nat} (p : Bool) (h : m.holder = .read rs)
    (hin : t ∈ rs) :
    m.dropGuard t false p =
      ({ m with holder := if (rs.filter (· != t)).isEmpty then .none else .read (rs.filter (· != t)) },
        none) := by
  simp [RwLockState.dropGuard, h, hin]

/-! ### the invariant -/

structure RInv (g : RG) : Prop where
  sem : Inv g.m.sem
  fair : g.m.sem.fair = false
  hm : HM g.m.holder g.rguards g.wguards
  /-- permit balance (while the semaphore is open) -/
  bal : g.m.sem.closed = false →
    g.m.sem.avail + pend g.m.sem.table + g.rguards.length + Generated.MAX_READS * g.wguards.length
      + g.owed.length = Generated.MAX_READS

theorem RInv.init : RInv {} := by
  refine ⟨Inv.constNew _ false, rfl, ⟨rfl, rfl⟩, fun _ => ?_⟩
  simp [SemState.constNew]

theorem rresult_ne_wouldBlock (m : RwLockState) : m.result ≠ .wouldBlock := by
  unfold RwLockState.result; split <;> simp

/-- taking a guard after the permits have been obtained keeps the invariant -/
theorem take_ok_inv {m0 m' : RwLockState} {s' : SemState} {t : Nat} {write p : Bool}
    {rg wg ow : List Nat} (i1 : Inv s') (hf : s'.fair = false) (hm : HM m0.holder rg wg)
    (htg : ({ m0 with sem := s' } : RwLockState).takeGuard t write p = .ok m')
    (hbal : s'.closed = false →
      s'.avail + pend s'.table + RwLock.permits write + rg.length + Generated.MAX_READS * wg.length
        + ow.length = Generated.MAX_READS) :
    RInv (pushGuard { m := m', rguards := rg, wguards := wg, owed := ow } t write) := by
  obtain ⟨h1, _, _, hwg, h5⟩ := takeGuard_ok_spec htg (rg := rg) (wg := wg) hm
  have h1' : m'.sem = s' := h1
  subst hwg
  cases write with
  | true =>
    simp only [if_true] at h5
    obtain ⟨h5, rfl⟩ := h5
    simp only [pushGuard, if_true, List.nil_append]
    refine ⟨by rw [h1']; exact i1, by rw [h1']; exact hf, h5, fun hc => ?_⟩
    simp only [h1'] at hc ⊢
    have := hbal hc
    simp only [RwLock.permits, if_true, List.length_nil, List.length_singleton] at this ⊢
    omega
  | false =>
    simp only [Bool.false_eq_true, if_false] at h5
    simp only [pushGuard, Bool.false_eq_true, if_false]
    refine ⟨by rw [h1']; exact i1, by rw [h1']; exact hf, h5, fun hc => ?_⟩
    simp only [h1'] at hc ⊢
    have := hbal hc
    simp only [RwLock.permits, Bool.false_eq_true, if_false, List.length_nil, List.length_append,
      List.length_singleton] at this ⊢
    omega

theorem rstep_inv {fx : Bool} {fin : Nat → Bool} {p : Bool} {g : RG} {op : ROp} {m' : RwLockState}
    {out : ROut} (hI : RInv g) (hen : REnabled fx g op) (h : rstep fin p g.m op = .ok (m', out)) :
    RInv (rnext g m' op out) := by
  obtain ⟨m, rg, wg, ow⟩ := g
  obtain ⟨hs, hfr, hm, hb⟩ := hI
  simp only at hs hfr hm hb
  cases op with
  | lockStart t write clk =>
    simp only [rstep] at h
    split at h
    · cases h
    · simp only [Except.ok.injEq, Prod.mk.injEq] at h
      obtain ⟨rfl, rfl⟩ := h
      obtain ⟨i1, hp, ha⟩ := hs.newAcquire t (RwLock.permits write) clk
      refine ⟨i1, hfr, hm, fun hc => ?_⟩
      have := hb hc
      simp only [rnext, hp, ha]
      exact this
  | lockPoll t wid write clk =>
    obtain ⟨w0, hw, hn⟩ := hen
    simp only at hw
    simp only [rstep] at h
    cases hpd : pollDrop fin m.sem t wid clk with
    | error e => rw [hpd] at h; cases h
    | ok r =>
      obtain ⟨s', r⟩ := r
      rw [hpd] at h
      obtain ⟨i1, hmono, c1⟩ := pollDrop_spec hs hw hpd
      have hf1 : s'.fair = false := by rw [pollDrop_fair hs hpd]; exact hfr
      cases r with
      | pending =>
        simp only [Except.ok.injEq, Prod.mk.injEq] at h
        obtain ⟨rfl, rfl⟩ := h
        refine ⟨i1, hf1, hm, fun hc => ?_⟩
        have hc0 : m.sem.closed = false := closed_back hmono hc
        have := hb hc0
        simp only [reduceCtorEq, if_false] at c1
        simp only [rnext]
        omega
      | ready b =>
        cases b with
        | false => cases h
        | true =>
          simp only [takeOrPanic] at h
          cases htg : ({ m with sem := s' } : RwLockState).takeGuard t write p with
          | already => rw [htg] at h; cases h
          | incompatible => rw [htg] at h; cases h
          | ok m1 =>
            rw [htg] at h
            simp only [Except.ok.injEq, Prod.mk.injEq] at h
            obtain ⟨rfl, rfl⟩ := h
            simp only [rnext]
            refine take_ok_inv i1 hf1 hm htg (fun hc => ?_)
            have hc0 : m.sem.closed = false := closed_back hmono hc
            have := hb hc0
            simp only [if_true, hn] at c1
            omega
  | lockPoisoned t write =>
    simp only [rstep, takeOrPanic] at h
    cases htg : m.takeGuard t write p with
    | already => rw [htg] at h; cases h
    | incompatible => rw [htg] at h; cases h
    | ok m1 =>
      rw [htg] at h
      simp only [Except.ok.injEq, Prod.mk.injEq] at h
      obtain ⟨rfl, rfl⟩ := h
      simp only [rnext]
      have hcl : m.sem.closed = true := hen
      refine take_ok_inv (m0 := m) hs hfr hm htg (fun hc => ?_)
      rw [hcl] at hc; cases hc
  | tryLock t write clk =>
    simp only [rstep] at h
    cases h1 : step fin m.sem (.tryAcquire t (RwLock.permits write) clk) with
    | error e => rw [h1] at h; cases h
    | ok o =>
      rw [h1] at h
      simp only at h
      obtain ⟨i1, c1⟩ := step_spec fin hs h1
      have hf1 : o.s.fair = false := by rw [step_fair fin hs h1]; exact hfr
      rcases step_tryAcquire_cases h1 with ⟨s', pc, hacq, hos, hout⟩ | ⟨e, hacq, hos, hout⟩
      · rw [hout] at h c1
        simp only at h
        obtain ⟨_, hc0, _, _⟩ := acquirePermits_ok hacq
        have hb0 := hb hc0
        simp only [acquiredBy, releasedBy, permitsOf] at c1
        cases htg : ({ m with sem := o.s } : RwLockState).takeGuard t write p with
        | ok m1 =>
          rw [htg] at h
          simp only [Except.ok.injEq, Prod.mk.injEq] at h
          obtain ⟨rfl, rfl⟩ := h
          have hne := rresult_ne_wouldBlock ({ m with sem := o.s } : RwLockState)
          simp only [rnext, Bool.false_eq_true, if_false, hne]
          refine take_ok_inv i1 hf1 hm htg (fun _ => ?_)
          omega
        | already =>
          rw [htg] at h
          simp only [Except.ok.injEq, Prod.mk.injEq] at h
          obtain ⟨rfl, rfl⟩ := h
          obtain ⟨rfl, _⟩ := takeGuard_already htg
          simp only [rnext, if_true]
          refine ⟨i1, hf1, hm, fun _ => ?_⟩
          simp only [RwLock.permits, Bool.false_eq_true, if_false] at c1
          simp only [List.length_append, List.length_singleton]
          omega
        | incompatible =>
          exfalso
          rcases takeGuard_incompatible htg with ⟨rfl, rs, hrs⟩ | ⟨w, hw⟩
          · have hrs' : m.holder = .read rs := hrs
            rw [hrs'] at hm
            obtain ⟨rfl, rfl, hne, _⟩ := hm
            have : 0 < rg.length := List.length_pos_iff.mpr hne
            simp only [RwLock.permits, if_true] at c1
            omega
          · have hw' : m.holder = .write w := hw
            rw [hw'] at hm
            obtain ⟨rfl, rfl⟩ := hm
            have := permits_pos write
            simp only [List.length_nil, List.length_singleton] at hb0
            omega
      · rw [hout] at h
        simp only [Except.ok.injEq, Prod.mk.injEq] at h
        obtain ⟨rfl, rfl⟩ := h
        simp only [rnext, Bool.false_eq_true, if_false, if_true]
        refine ⟨i1, hf1, hm, fun hc => ?_⟩
        simp only [hos] at hc ⊢
        exact hb hc
  | tryGiveBack t clk =>
    simp only [rstep] at h
    cases h1 : step fin m.sem (relOp p t 1 clk) with
    | error e => rw [h1] at h; cases h
    | ok o =>
      rw [h1] at h
      simp only [Except.ok.injEq, Prod.mk.injEq] at h
      obtain ⟨rfl, rfl⟩ := h
      obtain ⟨i1, c1, hmono, _⟩ := relOp_spec hs (by omega) h1
      have hf1 : o.s.fair = false := by rw [step_fair fin hs h1]; exact hfr
      have hmem : t ∈ ow := hen.2
      simp only [rnext]
      refine ⟨i1, hf1, hm, fun hc => ?_⟩
      have hc0 : m.sem.closed = false := closed_back hmono hc
      have := hb hc0
      have hl := List.length_erase_of_mem hmem
      have : 0 < ow.length := List.length_pos_of_mem hmem
      simp only [hl]
      omega
  | unlock t write clk =>
    simp only [rstep] at h
    cases h1 : step fin m.sem (relOp p t (RwLock.permits write) clk) with
    | error e => rw [h1] at h; cases h
    | ok o =>
      rw [h1] at h
      simp only at h
      obtain ⟨i1, c1, hmono, _⟩ := relOp_spec hs (permits_pos write) h1
      have hf1 : o.s.fair = false := by rw [step_fair fin hs h1]; exact hfr
      cases write with
      | true =>
        have hmem : t ∈ wg := by simpa [REnabled] using hen
        have hh : m.holder = .write t := by
          cases hx : m.holder with
          | none => rw [hx] at hm; rw [hm.2] at hmem; cases hmem
          | read rs => rw [hx] at hm; rw [hm.2.1] at hmem; cases hmem
          | write w => rw [hx] at hm; rw [hm.2] at hmem; simp at hmem; rw [hmem]
        rw [dropGuard_write (m := { m with sem := o.s }) p hh] at h
        simp only [Except.ok.injEq, Prod.mk.injEq] at h
        obtain ⟨rfl, rfl⟩ := h
        rw [hh] at hm
        obtain ⟨rfl, rfl⟩ := hm
        simp only [rnext, if_true]
        refine ⟨i1, hf1, by simp [HM], fun hc => ?_⟩
        have hc0 : m.sem.closed = false := closed_back hmono hc
        have := hb hc0
        simp only [RwLock.permits, if_true, List.length_nil, List.length_singleton] at c1 this
        simp
        omega
      | false =>
        have hmem : t ∈ rg := by simpa [REnabled] using hen
        obtain ⟨rs, hh⟩ : ∃ rs, m.holder = .read rs := by
          cases hx : m.holder with
          | none => rw [hx] at hm; rw [hm.1] at hmem; cases hmem
          | read rs => exact ⟨rs, rfl⟩
          | write w => rw [hx] at hm; rw [hm.1] at hmem; cases hmem
        rw [hh] at hm
        obtain ⟨rfl, rfl, hne, hnd⟩ := hm
        rw [dropGuard_read (m := { m with sem := o.s }) p hh hmem] at h
        simp only [Except.ok.injEq, Prod.mk.injEq] at h
        obtain ⟨rfl, rfl⟩ := h
        simp only [rnext, Bool.false_eq_true, if_false]
        have he : rg.erase t = rg.filter (· != t) := hnd.erase_eq_filter t
        refine ⟨i1, hf1, ?_, fun hc => ?_⟩
        · simp only [← he]
          split
          · rename_i hem
            exact ⟨by simpa using hem, rfl⟩
          · rename_i hem
            exact ⟨rfl, rfl, by simpa using hem, hnd.erase t⟩
        · have hc0 : m.sem.closed = false := closed_back hmono hc
          have := hb hc0
          have hl := List.length_erase_of_mem hmem
          have : 0 < rg.length := List.length_pos_of_mem hmem
          simp only [RwLock.permits, Bool.false_eq_true, if_false] at c1
          simp only [hl]
          omega
  | write t v =>
    simp only [rstep, Except.ok.injEq, Prod.mk.injEq] at h
    obtain ⟨rfl, rfl⟩ := h
    exact ⟨hs, hfr, hm, hb⟩

theorem rreach_inv {fx : Bool} {g : RG} (h : RReach fx g) : RInv g := by
  induction h with
  | init => exact RInv.init
  | step fin p op _ hen hs ih => exact rstep_inv ih hen hs

/-! ### 2. writer exclusion, no reader with a writer -/

/-- C04/RwLock: in every reachable state the live guards are exactly what the `holder` field says
(`HM`: a writer ⇒ exactly that one write guard and no read guard; readers ⇒ exactly those read
guards, pairwise distinct, and no write guard; none ⇒ no guard), and while the lock is not poisoned
the `MAX_READS` permits are accounted for: available, granted to a waiter, 1 per reader, `MAX_READS`
per writer, 1 per re-entrant `try_read` that has not (yet) given its permit back -/
theorem rwlock_exclusive {fx : Bool} {g : RG} (h : RReach fx g) :
    HM g.m.holder g.rguards g.wguards ∧
    (g.m.sem.closed = false →
      g.m.sem.avail + pend g.m.sem.table + g.rguards.length + Generated.MAX_READS * g.wguards.length
        + g.owed.length = Generated.MAX_READS) ∧
    Inv g.m.sem :=
  ⟨(rreach_inv h).hm, (rreach_inv h).bal, (rreach_inv h).sem⟩

theorem HM.writer_le_one {h : RwHolder} {rg wg : List Nat} (hm : HM h rg wg) : wg.length ≤ 1 := by
  cases h <;> simp only [HM] at hm
  · rw [hm.2]; simp
  · rw [hm.2.1]; simp
  · rw [hm.2]; simp

theorem HM.not_both {h : RwHolder} {rg wg : List Nat} (hm : HM h rg wg) : rg = [] ∨ wg = [] := by
  cases h <;> simp only [HM] at hm
  · exact Or.inl hm.1
  · exact Or.inr hm.2.1
  · exact Or.inl hm.1

theorem HM.readers_nodup {h : RwHolder} {rg wg : List Nat} (hm : HM h rg wg) : rg.Nodup := by
  cases h <;> simp only [HM] at hm
  · rw [hm.1]; simp
  · rw [hm.1]; exact hm.2.2.2
  · rw [hm.1]; simp

/-- at most one task holds the lock for writing (poisoned or not) -/
theorem rwlock_writer_exclusive {fx : Bool} {g : RG} (h : RReach fx g) : g.wguards.length ≤ 1 :=
  (rreach_inv h).hm.writer_le_one

/-- no task holds the lock for reading while it is held for writing (poisoned or not) -/
theorem rwlock_no_reader_with_writer {fx : Bool} {g : RG} (h : RReach fx g) :
    g.rguards = [] ∨ g.wguards = [] :=
  (rreach_inv h).hm.not_both

/-- a task holds at most one read guard -/
theorem rwlock_readers_nodup {fx : Bool} {g : RG} (h : RReach fx g) : g.rguards.Nodup :=
  (rreach_inv h).hm.readers_nodup

/-- while not poisoned there are at most `MAX_READS` readers, and with a writer all permits are gone -/
theorem rwlock_counts {fx : Bool} {g : RG} (h : RReach fx g) (hc : g.m.sem.closed = false) :
    g.rguards.length ≤ Generated.MAX_READS ∧
      (g.wguards ≠ [] → g.m.sem.avail = 0 ∧ pend g.m.sem.table = 0 ∧ g.owed = []) := by
  have hb := (rreach_inv h).bal hc
  have hw := (rreach_inv h).hm.writer_le_one
  refine ⟨by omega, fun hne => ?_⟩
  have : g.wguards.length = 1 := by
    have := List.length_pos_iff.mpr hne
    omega
  rw [this] at hb
  refine ⟨by omega, by omega, ?_⟩
  apply List.eq_nil_of_length_eq_zero
  omega

/-! ### try_read / try_write -/

/-- under the invariant a successful `tryAcquire` is never followed by the `incompatible` branch of
`try_lock` (the branch that would return a guard without recording the holder) -/
theorem try_take_compatible {g : RG} (hI : RInv g) {t : Nat} {write p : Bool}
    {clk : Clock} {s' : SemState} {pc : Clock}
    (hacq : g.m.sem.acquirePermits (RwLock.permits write) clk = .ok (.ok (s', pc))) :
    ({ g.m with sem := s' } : RwLockState).takeGuard t write p ≠ .incompatible := by
  intro htg
  obtain ⟨_, hc0, _, _⟩ := acquirePermits_ok hacq
  obtain ⟨_, hav, _⟩ := acquirePermits_inv hI.sem hacq
  have hb0 := hI.bal hc0
  have hm := hI.hm
  rcases takeGuard_incompatible htg with ⟨rfl, rs, hrs⟩ | ⟨w, hw⟩
  · have hrs' : g.m.holder = .read rs := hrs
    rw [hrs'] at hm
    obtain ⟨h1, h2, hne, _⟩ := hm
    have : 0 < g.rguards.length := by rw [h1]; exact List.length_pos_iff.mpr hne
    simp only [RwLock.permits, if_true] at hav
    omega
  · have hw' : g.m.holder = .write w := hw
    rw [hw'] at hm
    obtain ⟨h1, h2⟩ := hm
    have := permits_pos write
    rw [h2] at hb0
    simp only [List.length_singleton] at hb0
    omega

/-- the outcomes of a `try_read`/`try_write` step -/
theorem rwlock_tryLock_cases {fin : Nat → Bool} {p : Bool} {m m' : RwLockState} {t : Nat} {write : Bool}
    {clk : Clock} {out : ROut} (h : rstep fin p m (.tryLock t write clk) = .ok (m', out)) :
    (∃ s' pc, m.sem.acquirePermits (RwLock.permits write) clk = .ok (.ok (s', pc)) ∧
      ((({ m with sem := s' } : RwLockState).takeGuard t write p = .ok m' ∧
          out = .tried m.result false) ∨
       (({ m with sem := s' } : RwLockState).takeGuard t write p = .already ∧
          m' = { m with sem := s' } ∧ out = .tried .wouldBlock true) ∨
       (({ m with sem := s' } : RwLockState).takeGuard t write p = .incompatible ∧
          m' = { m with sem := s' } ∧ out = .tried m.result false))) ∨
    (∃ e, m.sem.acquirePermits (RwLock.permits write) clk = .ok (.error e) ∧ m' = m ∧
      out = .tried .wouldBlock false) := by
  simp only [rstep] at h
  cases h1 : step fin m.sem (.tryAcquire t (RwLock.permits write) clk) with
  | error e => rw [h1] at h; cases h
  | ok o =>
    rw [h1] at h
    simp only at h
    rcases step_tryAcquire_cases h1 with ⟨s', pc, hacq, hos, hout⟩ | ⟨e, hacq, hos, hout⟩
    · rw [hout] at h
      simp only at h
      subst hos
      refine Or.inl ⟨_, pc, hacq, ?_⟩
      cases htg : ({ m with sem := o.s } : RwLockState).takeGuard t write p with
      | ok m1 =>
        rw [htg] at h
        simp only [Except.ok.injEq, Prod.mk.injEq] at h
        obtain ⟨rfl, rfl⟩ := h
        exact Or.inl ⟨rfl, rfl⟩
      | already =>
        rw [htg] at h
        simp only [Except.ok.injEq, Prod.mk.injEq] at h
        obtain ⟨rfl, rfl⟩ := h
        exact Or.inr (Or.inl ⟨rfl, rfl, rfl⟩)
      | incompatible =>
        rw [htg] at h
        simp only [Except.ok.injEq, Prod.mk.injEq] at h
        obtain ⟨rfl, rfl⟩ := h
        exact Or.inr (Or.inr ⟨rfl, rfl, rfl⟩)
    · rw [hout] at h
      simp only [Except.ok.injEq, Prod.mk.injEq] at h
      obtain ⟨rfl, rfl⟩ := h
      exact Or.inr ⟨e, hacq, by rw [hos], rfl⟩

theorem takeGuard_ok_not_holds {m m' : RwLockState} {t : Nat} {write p : Bool}
    (h : m.takeGuard t write p = .ok m') : m.holds t = false := by
  cases write <;> cases hh : m.holder <;> simp only [RwLockState.takeGuard, hh] at h
  · simp [RwLockState.holds, hh]
  · rename_i rs
    split at h
    · cases h
    · rename_i hc
      simp only [RwLockState.holds, hh]
      simpa using hc
  · cases h
  · simp [RwLockState.holds, hh]
  · cases h
  · cases h

theorem takeGuard_already_holds {m : RwLockState} {t : Nat} {write p : Bool}
    (h : m.takeGuard t write p = .already) : m.holds t = true := by
  obtain ⟨_, rs, hrs, hin⟩ := takeGuard_already h
  simp only [RwLockState.holds, hrs]
  simpa using hin

/-- C04/RwLock: the `tryAcquire` part of `try_read`/`try_write` succeeds exactly when the lock is not
poisoned and the (unfair) semaphore has the permits: 1 for a reader, all `MAX_READS` for a writer -/
theorem rwlock_try_acquires_iff {fin : Nat → Bool} {p : Bool} {m m' : RwLockState} {t : Nat}
    {write : Bool} {clk : Clock} {r : LockRes} {owes : Bool} (hf : m.sem.fair = false)
    (h : rstep fin p m (.tryLock t write clk) = .ok (m', .tried r owes)) :
    (r ≠ .wouldBlock ∨ owes = true) ↔ (m.sem.closed = false ∧ RwLock.permits write ≤ m.sem.avail) := by
  rw [← acquirePermits_unfair_ok_iff (c := clk) hf (permits_pos write)]
  rcases rwlock_tryLock_cases h with ⟨s', pc, hacq, hc⟩ | ⟨e, hacq, _, hout⟩
  · refine ⟨fun _ => ⟨s', pc, hacq⟩, fun _ => ?_⟩
    rcases hc with ⟨_, hout⟩ | ⟨_, _, hout⟩ | ⟨_, _, hout⟩
    · simp only [ROut.tried.injEq] at hout
      exact Or.inl (hout.1 ▸ rresult_ne_wouldBlock m)
    · simp only [ROut.tried.injEq] at hout
      exact Or.inr hout.2
    · simp only [ROut.tried.injEq] at hout
      exact Or.inl (hout.1 ▸ rresult_ne_wouldBlock m)
  · simp only [ROut.tried.injEq] at hout
    obtain ⟨rfl, rfl⟩ := hout
    refine ⟨fun h => ?_, ?_⟩
    · rcases h with h | h
      · exact absurd rfl h
      · cases h
    · rintro ⟨s', pc, h'⟩
      rw [hacq] at h'; cases h'

/-- C04/RwLock: in a reachable state `try_read`/`try_write` returns a guard exactly when the lock is
not poisoned, the permits are available, and the caller does not hold the lock already
(a re-entrant `try_read` fails although a permit is available) -/
theorem rwlock_try_succeeds_iff {fin : Nat → Bool} {p : Bool} {g : RG} {m' : RwLockState} {t : Nat}
    {write : Bool} {clk : Clock} {r : LockRes} {owes : Bool} (hI : RInv g)
    (h : rstep fin p g.m (.tryLock t write clk) = .ok (m', .tried r owes)) :
    r ≠ .wouldBlock ↔
      (g.m.sem.closed = false ∧ RwLock.permits write ≤ g.m.sem.avail ∧ g.m.holds t = false) := by
  have hacqiff := rwlock_try_acquires_iff hI.fair h
  rcases rwlock_tryLock_cases h with ⟨s', pc, hacq, hc⟩ | ⟨e, hacq, _, hout⟩
  · rcases hc with ⟨htg, hout⟩ | ⟨htg, _, hout⟩ | ⟨htg, _, _⟩
    · simp only [ROut.tried.injEq] at hout
      obtain ⟨rfl, rfl⟩ := hout
      have hnh : g.m.holds t = false := takeGuard_ok_not_holds (m := { g.m with sem := s' }) htg
      have := hacqiff.mp (Or.inl (rresult_ne_wouldBlock g.m))
      exact ⟨fun _ => ⟨this.1, this.2, hnh⟩, fun _ => rresult_ne_wouldBlock g.m⟩
    · simp only [ROut.tried.injEq] at hout
      obtain ⟨rfl, rfl⟩ := hout
      have hh : g.m.holds t = true := takeGuard_already_holds (m := { g.m with sem := s' }) htg
      refine ⟨fun h => absurd rfl h, fun h => ?_⟩
      rw [hh] at h; cases h.2.2
    · exact absurd htg (try_take_compatible hI hacq)
  · simp only [ROut.tried.injEq] at hout
    obtain ⟨rfl, rfl⟩ := hout
    refine ⟨fun h => absurd rfl h, fun h => ?_⟩
    have := hacqiff.mpr ⟨h.1, h.2.1⟩
    rcases this with h | h
    · exact absurd rfl h
    · cases h

/-- C04/RwLock: a failed `try_read`/`try_write` leaves the whole state unchanged — except the
re-entrant `try_read` (`owes = true`), see `reentrant_try_read_*` -/
theorem rwlock_failed_try_leaves_state {fin : Nat → Bool} {p : Bool} {m m' : RwLockState} {t : Nat}
    {write : Bool} {clk : Clock}
    (h : rstep fin p m (.tryLock t write clk) = .ok (m', .tried .wouldBlock false)) : m' = m := by
  rcases rwlock_tryLock_cases h with ⟨s', pc, hacq, hc⟩ | ⟨e, _, hm, _⟩
  · rcases hc with ⟨_, hout⟩ | ⟨_, _, hout⟩ | ⟨_, _, hout⟩
    · simp only [ROut.tried.injEq] at hout
      exact absurd hout.1.symm (rresult_ne_wouldBlock m)
    · simp only [ROut.tried.injEq] at hout
      cases hout.2
    · simp only [ROut.tried.injEq] at hout
      exact absurd hout.1.symm (rresult_ne_wouldBlock m)
  · exact hm

/-- the re-entrant `try_read` returns `WouldBlock` but has taken one permit: everything else is
unchanged -/
theorem reentrant_try_read_takes_permit {fin : Nat → Bool} {p : Bool} {m m' : RwLockState} {t : Nat}
    {write : Bool} {clk : Clock} {r : LockRes} (hi : Inv m.sem)
    (h : rstep fin p m (.tryLock t write clk) = .ok (m', .tried r true)) :
    r = .wouldBlock ∧ write = false ∧ m.holds t = true ∧ m'.sem.avail + 1 = m.sem.avail ∧
      m'.sem.table = m.sem.table ∧ m'.sem.queue = m.sem.queue ∧ m'.sem.closed = m.sem.closed ∧
      m'.holder = m.holder ∧ m'.poisoned = m.poisoned ∧ m'.value = m.value := by
  rcases rwlock_tryLock_cases h with ⟨s', pc, hacq, hc⟩ | ⟨e, _, _, hout⟩
  · obtain ⟨_, hav, ht, hq, hcl, _⟩ := acquirePermits_inv hi hacq
    rcases hc with ⟨_, hout⟩ | ⟨htg, rfl, hout⟩ | ⟨_, _, hout⟩
    · simp only [ROut.tried.injEq] at hout; cases hout.2
    · simp only [ROut.tried.injEq] at hout
      obtain ⟨rfl, _⟩ := takeGuard_already htg
      simp only [RwLock.permits, Bool.false_eq_true, if_false] at hav
      have hh : m.holds t = true := takeGuard_already_holds (m := { m with sem := s' }) htg
      exact ⟨hout.1, rfl, hh, hav, ht, hq, hcl, rfl, rfl, rfl⟩
    · simp only [ROut.tried.injEq] at hout; cases hout.2
  · simp only [ROut.tried.injEq] at hout; cases hout.2

/-! ### 4. the re-entrant `try_read` (F3) -/

/-- `release` of an unfair semaphore only adds the permits (and a batch): it grants nothing and
touches neither the queue nor the waiters -/
theorem releasePure_unfair {s : SemState} (hf : s.fair = false) (fin : Nat → Bool) (n : Nat) (c : Clock) :
    (s.releasePure fin n c).1 = s.paRelease n c := by
  unfold SemState.releasePure
  have : (s.paRelease n c).fair = false := hf
  simp only [this, Bool.false_eq_true, if_false]

/-- repaired code (`fixedF3 = true`): after the follow-up `tryGiveBack` step (not panicking) the
lock is exactly as before the failed re-entrant `try_read`, up to `batches` / `lastAcquire` -/
theorem reentrant_try_read_restored {fin fin' : Nat → Bool} {p : Bool} {m m1 m2 : RwLockState}
    {t : Nat} {write : Bool} {clk clk' : Clock} {r : LockRes} {out' : ROut} (hi : Inv m.sem)
    (hf : m.sem.fair = false)
    (h1 : rstep fin p m (.tryLock t write clk) = .ok (m1, .tried r true))
    (h2 : rstep fin' false m1 (.tryGiveBack t clk') = .ok (m2, out')) :
    m2.holder = m.holder ∧ m2.sem.avail = m.sem.avail ∧ m2.sem.queue = m.sem.queue ∧
      m2.sem.table = m.sem.table ∧ m2.sem.closed = m.sem.closed ∧ m2.sem.fair = m.sem.fair ∧
      m2.sem.nextWid = m.sem.nextWid ∧ m2.value = m.value ∧ m2.poisoned = m.poisoned ∧
      m2.wGuardPanicking = m.wGuardPanicking := by
  obtain ⟨_, hw, _⟩ := reentrant_try_read_takes_permit hi h1
  subst hw
  rcases rwlock_tryLock_cases h1 with ⟨s', pc, hacq, hc⟩ | ⟨e, _, _, hout⟩
  · obtain ⟨_, hav, ht, hq, hcl, hfr, hnx⟩ := acquirePermits_inv hi hacq
    rcases hc with ⟨_, hout⟩ | ⟨htg, rfl, hout⟩ | ⟨_, _, hout⟩
    · simp only [ROut.tried.injEq] at hout; cases hout.2
    · simp only [rstep, relOp, Bool.false_eq_true, if_false, step, Nat.succ_ne_zero,
        Except.ok.injEq, Prod.mk.injEq] at h2
      obtain ⟨rfl, _⟩ := h2
      have hf' : s'.fair = false := by rw [hfr]; exact hf
      simp only [RwLock.permits, Bool.false_eq_true, if_false] at hav
      rw [releasePure_unfair hf']
      exact ⟨rfl, by show s'.avail + 1 = m.sem.avail; omega, hq, ht, hcl, hfr, hnx, rfl, rfl, rfl⟩
    · simp only [ROut.tried.injEq] at hout; cases hout.2
  · simp only [ROut.tried.injEq] at hout; cases hout.2

/-- finite runs of the LTS -/
inductive RSteps (fx : Bool) : RG → RG → Prop
  | refl (g : RG) : RSteps fx g g
  | step {g g1 : RG} {m' : RwLockState} {out : ROut} (fin : Nat → Bool) (p : Bool) (op : ROp) :
      RSteps fx g g1 → REnabled fx g1 op → rstep fin p g1.m op = .ok (m', out) →
      RSteps fx g (rnext g1 m' op out)

theorem rsteps_reach {fx : Bool} {g g' : RG} (hr : RReach fx g) (h : RSteps fx g g') : RReach fx g' := by
  induction h with
  | refl => exact hr
  | step fin p op _ hen hs ih => exact RReach.step fin p op ih hen hs

theorem pushGuard_owed (g : RG) (t : Nat) (w : Bool) : (pushGuard g t w).owed = g.owed := by
  cases w <;> rfl

/-- only `tryGiveBack` shrinks `owed` -/
theorem rnext_owed_len (g : RG) (m' : RwLockState) (op : ROp) (out : ROut)
    (hop : ∀ t clk, op ≠ .tryGiveBack t clk) : g.owed.length ≤ (rnext g m' op out).owed.length := by
  cases op with
  | tryGiveBack t clk => exact absurd rfl (hop t clk)
  | lockStart t w clk => cases out <;> simp [rnext]
  | lockPoll t wid w clk => cases out <;> simp [rnext, pushGuard_owed]
  | lockPoisoned t w => cases out <;> simp [rnext, pushGuard_owed]
  | tryLock t w clk =>
    cases out <;> simp only [rnext, Nat.le_refl]
    rename_i r owes
    split
    · simp
    · split
      · simp
      · simp [pushGuard_owed]
  | unlock t w clk => cases out <;> cases w <;> simp [rnext]
  | write t v => cases out <;> simp [rnext]

/-- original code (`fixedF3 = false`): a leaked permit is never given back -/
theorem rsteps_owed_unfixed {g g' : RG} (h : RSteps false g g') : g.owed.length ≤ g'.owed.length := by
  induction h with
  | refl => exact Nat.le_refl _
  | step fin p op _ hen hs ih =>
    refine Nat.le_trans ih (rnext_owed_len _ _ _ _ ?_)
    intro t clk e
    subst e
    exact absurd hen.1 (by simp)

/-- F3 (original code): once a re-entrant `try_read` has leaked a permit, no `try_write` ever
succeeds again, in any continuation -/
theorem leak_blocks_try_write_forever {g g' : RG} (hr : RReach false g) (ho : g.owed ≠ [])
    (hs : RSteps false g g') {fin : Nat → Bool} {p : Bool} {t : Nat} {clk : Clock} {m' : RwLockState}
    {out : ROut} (h : rstep fin p g'.m (.tryLock t true clk) = .ok (m', out)) :
    out = .tried .wouldBlock false ∧ m' = g'.m := by
  have hI := rreach_inv (rsteps_reach hr hs)
  have h1 : 0 < g.owed.length := List.length_pos_iff.mpr ho
  have h2 := rsteps_owed_unfixed hs
  rcases rwlock_tryLock_cases h with ⟨s', pc, hacq, _⟩ | ⟨e, _, hm, hout⟩
  · exfalso
    obtain ⟨_, hc0, _, _⟩ := acquirePermits_ok hacq
    obtain ⟨_, hav, _⟩ := acquirePermits_inv hI.sem hacq
    have hb := hI.bal hc0
    simp only [RwLock.permits, if_true] at hav
    omega
  · exact ⟨hout, hm⟩

/-- … and no blocking `write()` ever returns while the lock is not poisoned -/
theorem leak_blocks_write_forever {g g' : RG} (hr : RReach false g) (ho : g.owed ≠ [])
    (hs : RSteps false g g') {fin : Nat → Bool} {p : Bool} {t wid : Nat} {clk : Clock}
    {m' : RwLockState} {r : LockRes} (hen : REnabled false g' (.lockPoll t wid true clk))
    (hc : g'.m.sem.closed = false)
    (h : rstep fin p g'.m (.lockPoll t wid true clk) = .ok (m', .locked r)) : False := by
  have hI := rreach_inv (rsteps_reach hr hs)
  have h1 : 0 < g.owed.length := List.length_pos_iff.mpr ho
  have h2 := rsteps_owed_unfixed hs
  obtain ⟨w0, hw, hn⟩ := hen
  simp only [rstep] at h
  cases hpd : pollDrop fin g'.m.sem t wid clk with
  | error e => rw [hpd] at h; cases h
  | ok q =>
    obtain ⟨s', q⟩ := q
    rw [hpd] at h
    obtain ⟨_, _, c1⟩ := pollDrop_spec hI.sem hw hpd
    cases q with
    | pending => simp only [Except.ok.injEq, Prod.mk.injEq] at h; cases h.2
    | ready b =>
      cases b with
      | false => cases h
      | true =>
        have hb := hI.bal hc
        simp only [if_true, hn, RwLock.permits] at c1
        omega

/-! ### 5. re-entrancy -/

/-- C04/RwLock: `read()`/`write()` by a task that already holds the lock (for reading or writing)
panics with the documented message -/
theorem rwlock_reentrant_diagnosed (fin : Nat → Bool) (p : Bool) {m : RwLockState} {t : Nat}
    (write : Bool) (clk : Clock) (hh : m.holds t = true) :
    rstep fin p m (.lockStart t write clk) =
      .error s!"deadlock! task TaskId({t}) tried to acquire a RwLock it already holds" := by
  simp only [rstep, hh, if_true]
  rfl

/-- a re-entrant `try_read`/`try_write` fails in every reachable state -/
theorem rwlock_reentrant_try_fails {fin : Nat → Bool} {p : Bool} {g : RG} {m' : RwLockState} {t : Nat}
    {write : Bool} {clk : Clock} {r : LockRes} {owes : Bool} (hI : RInv g) (hh : g.m.holds t = true)
    (h : rstep fin p g.m (.tryLock t write clk) = .ok (m', .tried r owes)) : r = .wouldBlock := by
  apply Classical.byContradiction
  intro hne
  have := (rwlock_try_succeeds_iff hI h).mp hne
  rw [hh] at this; cases this.2.2

/-! ### lock returns only when compatible -/

def ROp.task : ROp → Nat
  | .lockStart t _ _ => t
  | .lockPoll t _ _ _ => t
  | .lockPoisoned t _ => t
  | .tryLock t _ _ => t
  | .tryGiveBack t _ => t
  | .unlock t _ _ => t
  | .write t _ => t

def ROp.isWrite : ROp → Bool
  | .lockStart _ w _ => w
  | .lockPoll _ _ w _ => w
  | .lockPoisoned _ w => w
  | .tryLock _ w _ => w
  | .tryGiveBack _ _ => false
  | .unlock _ w _ => w
  | .write _ _ => true

/-- does the step hand a guard to its task -/
def ROut.guard : ROut → Bool
  | .locked _ => true
  | .tried r _ => r != .wouldBlock
  | _ => false

theorem takeGuard_ok_holder {m m' : RwLockState} {t : Nat} {write p : Bool}
    (h : m.takeGuard t write p = .ok m') :
    if write then m.holder = .none ∧ m'.holder = .write t
    else (m.holder = .none ∧ m'.holder = .read [t]) ∨
      ∃ rs, m.holder = .read rs ∧ t ∉ rs ∧ m'.holder = .read (rs ++ [t]) := by
  cases write <;> cases hh : m.holder <;> simp only [RwLockState.takeGuard, hh] at h
  · cases h; simp
  · rename_i rs
    split at h
    · cases h
    · rename_i hc
      cases h
      simp only [Bool.false_eq_true, if_false]
      exact Or.inr ⟨rs, rfl, by simpa using hc, rfl⟩
  · cases h
  · cases h; simp
  · cases h
  · cases h

/-- C04/RwLock: `read`/`write`/`try_read`/`try_write` return a guard only when the holder field
allows it — `write`: nobody holds the lock; `read`: nobody or only other readers — and record the
caller as holder -/
theorem rwlock_guard_only_if_compatible {fin : Nat → Bool} {p : Bool} {g : RG} {op : ROp}
    {m' : RwLockState} {out : ROut} (hI : RInv g) (h : rstep fin p g.m op = .ok (m', out))
    (hgd : out.guard = true) :
    if op.isWrite then g.m.holder = .none ∧ m'.holder = .write op.task
    else (g.m.holder = .none ∧ m'.holder = .read [op.task]) ∨
      ∃ rs, g.m.holder = .read rs ∧ op.task ∉ rs ∧ m'.holder = .read (rs ++ [op.task]) := by
  obtain ⟨m, rg, wg, ow⟩ := g
  cases op with
  | lockStart t write clk =>
    simp only [rstep] at h
    split at h
    · cases h
    · simp only [Except.ok.injEq, Prod.mk.injEq] at h
      obtain ⟨_, rfl⟩ := h; cases hgd
  | lockPoll t wid write clk =>
    simp only [rstep] at h
    cases hpd : pollDrop fin m.sem t wid clk with
    | error e => rw [hpd] at h; cases h
    | ok q =>
      obtain ⟨s', q⟩ := q
      rw [hpd] at h
      cases q with
      | pending =>
        simp only [Except.ok.injEq, Prod.mk.injEq] at h
        obtain ⟨_, rfl⟩ := h; cases hgd
      | ready b =>
        cases b with
        | false => cases h
        | true =>
          simp only [takeOrPanic] at h
          cases htg : ({ m with sem := s' } : RwLockState).takeGuard t write p with
          | already => rw [htg] at h; cases h
          | incompatible => rw [htg] at h; cases h
          | ok m1 =>
            rw [htg] at h
            simp only [Except.ok.injEq, Prod.mk.injEq] at h
            obtain ⟨rfl, _⟩ := h
            exact takeGuard_ok_holder (m := { m with sem := s' }) htg
  | lockPoisoned t write =>
    simp only [rstep, takeOrPanic] at h
    cases htg : m.takeGuard t write p with
    | already => rw [htg] at h; cases h
    | incompatible => rw [htg] at h; cases h
    | ok m1 =>
      rw [htg] at h
      simp only [Except.ok.injEq, Prod.mk.injEq] at h
      obtain ⟨rfl, _⟩ := h
      exact takeGuard_ok_holder htg
  | tryLock t write clk =>
    rcases rwlock_tryLock_cases h with ⟨s', pc, hacq, hc⟩ | ⟨e, _, _, hout⟩
    · rcases hc with ⟨htg, _⟩ | ⟨_, _, hout⟩ | ⟨htg, _, _⟩
      · exact takeGuard_ok_holder (m := { m with sem := s' }) htg
      · subst hout; simp [ROut.guard] at hgd
      · exact absurd htg (try_take_compatible hI hacq)
    · subst hout; simp [ROut.guard] at hgd
  | tryGiveBack t clk =>
    simp only [rstep] at h
    cases h1 : step fin m.sem (relOp p t 1 clk) with
    | error e => rw [h1] at h; cases h
    | ok o =>
      rw [h1] at h
      simp only [Except.ok.injEq, Prod.mk.injEq] at h
      obtain ⟨_, rfl⟩ := h; cases hgd
  | unlock t write clk =>
    simp only [rstep] at h
    cases h1 : step fin m.sem (relOp p t (RwLock.permits write) clk) with
    | error e => rw [h1] at h; cases h
    | ok o =>
      rw [h1] at h
      simp only at h
      split at h
      · simp only [Except.ok.injEq, Prod.mk.injEq] at h
        obtain ⟨_, rfl⟩ := h; cases hgd
      · cases h
  | write t v =>
    simp only [rstep, Except.ok.injEq, Prod.mk.injEq] at h
    obtain ⟨_, rfl⟩ := h; cases hgd

/-! ### 6. poisoning -/

theorem dropGuard_ok_spec {m m' : RwLockState} {t : Nat} {write p : Bool}
    (h : m.dropGuard t write p = (m', none)) :
    m'.sem = m.sem ∧ m'.value = m.value ∧ (m.poisoned = true → m'.poisoned = true) ∧
      (write = true → m.holder = .write t ∧ m'.holder = .none ∧
        m'.poisoned = (m.poisoned || (p && !m.wGuardPanicking))) := by
  cases write <;> cases hh : m.holder <;> simp only [RwLockState.dropGuard, hh] at h
  · cases h
  · split at h
    · cases h
    · cases h
      exact ⟨rfl, rfl, id, fun h => by cases h⟩
  · cases h
  · cases h
  · cases h
  · rename_i w
    split at h
    · cases h
    · rename_i hw
      cases h
      have hwt : w = t := by simpa using hw
      subst hwt
      refine ⟨rfl, rfl, fun hp => ?_, fun _ => ⟨rfl, rfl, rfl⟩⟩
      simp [hp]

/-- C04/RwLock: a write guard dropped while its thread is panicking (and that was not created during
a panic) poisons the lock: poison flag set, semaphore closed, wait queue emptied, nobody holds -/
theorem rwlock_poison_after_panicking_release {fin : Nat → Bool} {m m' : RwLockState} {t : Nat}
    {clk : Clock} {out : ROut} (hi : Inv m.sem) (hgp : m.wGuardPanicking = false)
    (h : rstep fin true m (.unlock t true clk) = .ok (m', out)) :
    m'.poisoned = true ∧ m'.sem.closed = true ∧ m'.sem.queue = [] ∧ m'.holder = .none := by
  simp only [rstep] at h
  cases h1 : step fin m.sem (relOp true t (RwLock.permits true) clk) with
  | error e => rw [h1] at h; cases h
  | ok o =>
    rw [h1] at h
    simp only at h
    obtain ⟨_, _, _, hp⟩ := relOp_spec hi (permits_pos true) h1
    obtain ⟨h3, h4⟩ := hp rfl
    split at h
    · rename_i m1 heq
      simp only [Except.ok.injEq, Prod.mk.injEq] at h
      obtain ⟨rfl, _⟩ := h
      obtain ⟨hsem, _, _, hw⟩ := dropGuard_ok_spec heq
      obtain ⟨_, hnone, hpz⟩ := hw rfl
      refine ⟨?_, by rw [hsem]; exact h3, by rw [hsem]; exact h4, hnone⟩
      rw [hpz]
      have : m.wGuardPanicking = false := hgp
      simp [this]
    · cases h

/-- observation: a *read* guard dropped while its thread is panicking closes the semaphore as well
(so later `read`/`write` take the "poisoned" path that needs no permits) but does not set the poison
flag -/
theorem rwlock_panicking_read_release {fin : Nat → Bool} {m m' : RwLockState} {t : Nat}
    {clk : Clock} {out : ROut} (hi : Inv m.sem)
    (h : rstep fin true m (.unlock t false clk) = .ok (m', out)) :
    m'.poisoned = m.poisoned ∧ m'.sem.closed = true ∧ m'.sem.queue = [] := by
  simp only [rstep] at h
  cases h1 : step fin m.sem (relOp true t (RwLock.permits false) clk) with
  | error e => rw [h1] at h; cases h
  | ok o =>
    rw [h1] at h
    simp only at h
    obtain ⟨_, _, _, hp⟩ := relOp_spec hi (permits_pos false) h1
    obtain ⟨h3, h4⟩ := hp rfl
    split at h
    · rename_i m1 heq
      simp only [Except.ok.injEq, Prod.mk.injEq] at h
      obtain ⟨rfl, _⟩ := h
      have hsem := (dropGuard_ok_spec heq).1
      refine ⟨?_, by rw [hsem]; exact h3, by rw [hsem]; exact h4⟩
      cases hh : m.holder <;> simp only [RwLockState.dropGuard, hh] at heq
      · cases heq
      · split at heq
        · cases heq
        · cases heq; rfl
      · cases heq
    · cases h

/-- the poison flag and the `closed` flag are never reset -/
theorem rstep_poison_mono {fx : Bool} {fin : Nat → Bool} {p : Bool} {g : RG} {op : ROp}
    {m' : RwLockState} {out : ROut} (hI : RInv g) (hen : REnabled fx g op)
    (h : rstep fin p g.m op = .ok (m', out)) :
    (g.m.poisoned = true → m'.poisoned = true) ∧ (g.m.sem.closed = true → m'.sem.closed = true) := by
  obtain ⟨m, rg, wg, ow⟩ := g
  have hm := hI.hm
  cases op with
  | lockStart t write clk =>
    simp only [rstep] at h
    split at h
    · cases h
    · simp only [Except.ok.injEq, Prod.mk.injEq] at h
      obtain ⟨rfl, _⟩ := h
      exact ⟨id, id⟩
  | lockPoll t wid write clk =>
    obtain ⟨w0, hw, hn⟩ := hen
    simp only at hw
    simp only [rstep] at h
    cases hpd : pollDrop fin m.sem t wid clk with
    | error e => rw [hpd] at h; cases h
    | ok q =>
      obtain ⟨s', q⟩ := q
      rw [hpd] at h
      obtain ⟨_, hmono, _⟩ := pollDrop_spec hI.sem hw hpd
      cases q with
      | pending =>
        simp only [Except.ok.injEq, Prod.mk.injEq] at h
        obtain ⟨rfl, _⟩ := h
        exact ⟨id, hmono⟩
      | ready b =>
        cases b with
        | false => cases h
        | true =>
          simp only [takeOrPanic] at h
          cases htg : ({ m with sem := s' } : RwLockState).takeGuard t write p with
          | already => rw [htg] at h; cases h
          | incompatible => rw [htg] at h; cases h
          | ok m1 =>
            rw [htg] at h
            simp only [Except.ok.injEq, Prod.mk.injEq] at h
            obtain ⟨rfl, _⟩ := h
            obtain ⟨h1, h2, _⟩ := takeGuard_ok_spec (m := { m with sem := s' }) htg hm
            exact ⟨fun hp => by rw [h2]; exact hp, fun hc => by rw [h1]; exact hmono hc⟩
  | lockPoisoned t write =>
    simp only [rstep, takeOrPanic] at h
    cases htg : m.takeGuard t write p with
    | already => rw [htg] at h; cases h
    | incompatible => rw [htg] at h; cases h
    | ok m1 =>
      rw [htg] at h
      simp only [Except.ok.injEq, Prod.mk.injEq] at h
      obtain ⟨rfl, _⟩ := h
      obtain ⟨h1, h2, _⟩ := takeGuard_ok_spec htg hm
      exact ⟨fun hp => by rw [h2]; exact hp, fun hc => by rw [h1]; exact hc⟩
  | tryLock t write clk =>
    rcases rwlock_tryLock_cases h with ⟨s', pc, hacq, hc⟩ | ⟨e, _, rfl, _⟩
    · have hcl := (acquirePermits_ok hacq).2.1
      have hcl' : m.sem.closed = false := hcl
      refine ⟨fun hp => ?_, fun hc' => by rw [hcl'] at hc'; cases hc'⟩
      rcases hc with ⟨htg, _⟩ | ⟨_, rfl, _⟩ | ⟨_, rfl, _⟩
      · obtain ⟨_, h2, _⟩ := takeGuard_ok_spec (m := { m with sem := s' }) htg hm
        rw [h2]; exact hp
      · exact hp
      · exact hp
    · exact ⟨id, id⟩
  | tryGiveBack t clk =>
    simp only [rstep] at h
    cases h1 : step fin m.sem (relOp p t 1 clk) with
    | error e => rw [h1] at h; cases h
    | ok o =>
      rw [h1] at h
      simp only [Except.ok.injEq, Prod.mk.injEq] at h
      obtain ⟨rfl, _⟩ := h
      exact ⟨id, step_closed_mono fin h1⟩
  | unlock t write clk =>
    simp only [rstep] at h
    cases h1 : step fin m.sem (relOp p t (RwLock.permits write) clk) with
    | error e => rw [h1] at h; cases h
    | ok o =>
      rw [h1] at h
      simp only at h
      split at h
      · rename_i m1 heq
        simp only [Except.ok.injEq, Prod.mk.injEq] at h
        obtain ⟨rfl, _⟩ := h
        obtain ⟨hsem, _, hpm, _⟩ := dropGuard_ok_spec heq
        exact ⟨hpm, fun hc => by rw [hsem]; exact step_closed_mono fin h1 hc⟩
      · cases h
  | write t v =>
    simp only [rstep, Except.ok.injEq, Prod.mk.injEq] at h
    obtain ⟨rfl, _⟩ := h
    exact ⟨id, id⟩

/-- once poisoned, poisoned (and closed) for ever -/
theorem rwlock_poison_persistent {fx : Bool} {g g' : RG} (hr : RReach fx g) (h : RSteps fx g g')
    (hp : g.m.poisoned = true) (hc : g.m.sem.closed = true) :
    g'.m.poisoned = true ∧ g'.m.sem.closed = true := by
  induction h with
  | refl => exact ⟨hp, hc⟩
  | step fin p op hsteps hen hs ih =>
    have := rstep_poison_mono (rreach_inv (rsteps_reach hr hsteps)) hen hs
    cases op <;> cases ‹ROut› <;> first
      | exact ⟨this.1 ih.1, this.2 ih.2⟩
      | (simp only [rnext, pushGuard]; repeat' split) <;> exact ⟨this.1 ih.1, this.2 ih.2⟩

/-- every `read`/`write` that returns from a poisoned RwLock returns `Err(Poisoned)` -/
theorem rwlock_lock_poisoned_result {fin : Nat → Bool} {p : Bool} {m m' : RwLockState} {op : ROp}
    {r : LockRes} (hp : m.poisoned = true) (h : rstep fin p m op = .ok (m', .locked r)) :
    r = .poisoned m.value := by
  have key : ∀ (m0 : RwLockState) t write, m0.poisoned = true → m0.value = m.value →
      takeOrPanic m0 t write p = .ok (m', .locked r) → r = .poisoned m.value := by
    intro m0 t write hp0 hv h0
    simp only [takeOrPanic] at h0
    split at h0
    · simp only [Except.ok.injEq, Prod.mk.injEq, ROut.locked.injEq] at h0
      obtain ⟨_, rfl⟩ := h0
      simp [RwLockState.result, hp0, hv]
    · cases h0
    · cases h0
  cases op with
  | lockStart t write clk =>
    simp only [rstep] at h
    split at h
    · cases h
    · simp only [Except.ok.injEq, Prod.mk.injEq] at h
      cases h.2
  | lockPoll t wid write clk =>
    simp only [rstep] at h
    cases hpd : pollDrop fin m.sem t wid clk with
    | error e => rw [hpd] at h; cases h
    | ok q =>
      obtain ⟨s', q⟩ := q
      rw [hpd] at h
      cases q with
      | pending => simp only [Except.ok.injEq, Prod.mk.injEq] at h; cases h.2
      | ready b =>
        cases b with
        | false => cases h
        | true =>
          simp only at h
          exact key { m with sem := s' } t write hp rfl h
  | lockPoisoned t write => exact key m t write hp rfl h
  | tryLock t write clk =>
    rcases rwlock_tryLock_cases h with ⟨_, _, _, hc⟩ | ⟨_, _, _, h2⟩
    · rcases hc with ⟨_, h2⟩ | ⟨_, _, h2⟩ | ⟨_, _, h2⟩ <;> cases h2
    · cases h2
  | tryGiveBack t clk =>
    simp only [rstep] at h
    cases h1 : step fin m.sem (relOp p t 1 clk) with
    | error e => rw [h1] at h; cases h
    | ok o =>
      rw [h1] at h
      simp only [Except.ok.injEq, Prod.mk.injEq] at h
      cases h.2
  | unlock t write clk =>
    simp only [rstep] at h
    cases h1 : step fin m.sem (relOp p t (RwLock.permits write) clk) with
    | error e => rw [h1] at h; cases h
    | ok o =>
      rw [h1] at h
      simp only at h
      split at h
      · simp only [Except.ok.injEq, Prod.mk.injEq] at h
        cases h.2
      · cases h
  | write t v =>
    simp only [rstep, Except.ok.injEq, Prod.mk.injEq] at h
    cases h.2

/-- observation (model = shuttle, differs from std): `try_read`/`try_write` on a poisoned RwLock
return `WouldBlock` (the semaphore is closed), not `Err(Poisoned)` -/
theorem rwlock_try_on_poisoned {fin : Nat → Bool} {p : Bool} {m m' : RwLockState} {t : Nat}
    {write : Bool} {clk : Clock} {out : ROut} (hc : m.sem.closed = true)
    (h : rstep fin p m (.tryLock t write clk) = .ok (m', out)) :
    out = .tried .wouldBlock false ∧ m' = m := by
  rcases rwlock_tryLock_cases h with ⟨s', pc, hacq, _⟩ | ⟨e, _, hm, hout⟩
  · have := (acquirePermits_ok hacq).2.1
    rw [hc] at this; cases this
  · exact ⟨hout, hm⟩

/-! ### non-vacuity: concrete runs -/
namespace RwExample

def nf : Nat → Bool := fun _ => false
def c0 : Clock := Clock.new
def sem0 (a : Nat) (b : List (Nat × Clock)) (nx : Nat) : SemState :=
  { fair := false, avail := a, batches := some b, nextWid := nx }
def w1 : Waiter := { wid := 0, taskId := 1, n := 1, clock := c0 }
def w3a : Waiter := { wid := 1, taskId := 3, n := 536870911, clock := c0 }
def w3b : Waiter := { w3a with isQueued := true, waker := some 3, neverPolled := false }

/-- t1 has created its read `Acquire` -/
def a1 : RwLockState :=
  { sem := { fair := false, avail := 536870911, batches := none, table := [w1], nextWid := 1 } }
/-- t1 reads -/
def a2 : RwLockState := { sem := sem0 536870910 [(536870910, c0)] 1, holder := .read [1] }
/-- t2's `try_read` succeeded: t1, t2 read -/
def a3 : RwLockState := { sem := sem0 536870909 [(536870909, c0)] 1, holder := .read [1, 2] }
/-- t3 has created its write `Acquire` -/
def a4 : RwLockState := { a3 with sem := { a3.sem with table := [w3a], nextWid := 2 } }
/-- t3 has polled: `Pending`, queued -/
def a5 : RwLockState := { a3 with sem := { a3.sem with table := [w3b], queue := [1], nextWid := 2 } }
/-- t1 has dropped its read guard -/
def a6 : RwLockState :=
  { sem := { sem0 536870910 [(536870909, c0), (1, c0)] 2 with table := [w3b], queue := [1] },
    holder := .read [2] }
/-- t2 has dropped its read guard -/
def a7 : RwLockState :=
  { sem := { sem0 536870911 [(536870909, c0), (1, c0), (1, c0)] 2 with table := [w3b], queue := [1] } }
/-- t3 has polled again and writes -/
def a8 : RwLockState := { sem := sem0 0 [] 2, holder := .write 3 }
/-- t3 has dropped its write guard while panicking -/
def a9 : RwLockState :=
  { sem := { sem0 536870911 [(536870911, c0)] 2 with closed := true }, poisoned := true }

theorem e1 : rstep nf false {} (.lockStart 1 false c0) = .ok (a1, .started 0) := rfl
theorem e2 : rstep nf false a1 (.lockPoll 1 0 false c0) = .ok (a2, .locked (.ok 0)) := rfl
theorem e3 : rstep nf false a2 (.tryLock 2 false c0) = .ok (a3, .tried (.ok 0) false) := rfl
theorem e4 : rstep nf false a3 (.lockStart 3 true c0) = .ok (a4, .started 1) := rfl
theorem e5 : rstep nf false a4 (.lockPoll 3 1 true c0) = .ok (a5, .pending) := rfl
theorem e6 : rstep nf false a5 (.unlock 1 false c0) = .ok (a6, .unlocked) := rfl
theorem e7 : rstep nf false a6 (.unlock 2 false c0) = .ok (a7, .unlocked) := rfl
theorem e8 : rstep nf false a7 (.lockPoll 3 1 true c0) = .ok (a8, .locked (.ok 0)) := rfl
theorem e9 : rstep nf true a8 (.unlock 3 true c0) = .ok (a9, .unlocked) := rfl

variable {fx : Bool}
theorem r1 : RReach fx ⟨a1, [], [], []⟩ := RReach.step nf false (.lockStart 1 false c0) .init rfl e1
theorem r2 : RReach fx ⟨a2, [1], [], []⟩ :=
  RReach.step nf false (.lockPoll 1 0 false c0) r1 ⟨_, rfl, rfl⟩ e2
theorem r3 : RReach fx ⟨a3, [1, 2], [], []⟩ := RReach.step nf false (.tryLock 2 false c0) r2 trivial e3
theorem r4 : RReach fx ⟨a4, [1, 2], [], []⟩ := RReach.step nf false (.lockStart 3 true c0) r3 rfl e4
theorem r5 : RReach fx ⟨a5, [1, 2], [], []⟩ :=
  RReach.step nf false (.lockPoll 3 1 true c0) r4 ⟨_, rfl, rfl⟩ e5
theorem r6 : RReach fx ⟨a6, [2], [], []⟩ :=
  RReach.step nf false (.unlock 1 false c0) r5 (List.mem_cons_self ..) e6
theorem r7 : RReach fx ⟨a7, [], [], []⟩ :=
  RReach.step nf false (.unlock 2 false c0) r6 (List.mem_cons_self ..) e7
theorem r8 : RReach fx ⟨a8, [], [3], []⟩ :=
  RReach.step nf false (.lockPoll 3 1 true c0) r7 ⟨_, rfl, rfl⟩ e8
theorem r9 : RReach fx ⟨a9, [], [], []⟩ :=
  RReach.step nf true (.unlock 3 true c0) r8 (List.mem_cons_self ..) e9

/-- non-vacuity of `rwlock_exclusive` & co: two readers, a writer queues behind them, the readers
leave, the writer polls again and writes -/
example : ∃ g, RReach fx g ∧ g.m.holder = .write 3 ∧ g.wguards = [3] ∧ g.rguards = [] ∧
    g.m.sem.avail = 0 ∧ g.m.sem.closed = false := ⟨_, r8, rfl, rfl, rfl, rfl, rfl⟩
/-- two readers and a queued writer -/
example : ∃ g, RReach fx g ∧ g.m.holder = .read [1, 2] ∧ g.rguards = [1, 2] ∧ g.wguards = [] ∧
    g.m.sem.queue = [1] := ⟨_, r5, rfl, rfl, rfl, rfl⟩
/-- `try_write` with readers fails and changes nothing; `try_read` with a queued writer barges -/
example : rstep nf false a5 (.tryLock 4 true c0) = .ok (a5, .tried .wouldBlock false) := rfl
example : ∃ m', rstep nf false a5 (.tryLock 4 false c0) = .ok (m', .tried (.ok 0) false) ∧
    m'.holder = .read [1, 2, 4] := ⟨_, rfl, rfl⟩
/-- re-entrant `read()` / `write()` in reachable states -/
example : rstep nf false a3 (.lockStart 2 true c0) =
    .error s!"deadlock! task TaskId({2}) tried to acquire a RwLock it already holds" :=
  rwlock_reentrant_diagnosed nf false true c0 rfl
example : rstep nf false a8 (.lockStart 3 false c0) =
    .error s!"deadlock! task TaskId({3}) tried to acquire a RwLock it already holds" :=
  rwlock_reentrant_diagnosed nf false false c0 rfl
/-- poisoning by the panicking writer t3, and what later operations see -/
example : RReach fx ⟨a9, [], [], []⟩ ∧ a9.poisoned = true ∧ a9.sem.closed = true ∧ a9.sem.queue = [] ∧
    a9.holder = .none :=
  ⟨r9, rwlock_poison_after_panicking_release (rreach_inv (fx := fx) r8).sem rfl e9⟩
example : ∃ m', rstep nf false a9 (.lockPoisoned 4 false) = .ok (m', .locked (.poisoned 0)) ∧
    m'.holder = .read [4] := ⟨_, rfl, rfl⟩
example : rstep nf false a9 (.tryLock 4 false c0) = .ok (a9, .tried .wouldBlock false) := rfl
/-- on the poisoned lock only the holder assertions keep readers and writers apart: a `write()` while
t4 reads panics -/
example : ∃ m', rstep nf false a9 (.lockPoisoned 4 false) = .ok (m', .locked (.poisoned 0)) ∧
    rstep nf false m' (.lockPoisoned 5 true) = .error incompatibleMsg := ⟨_, rfl, rfl⟩

/-! #### F3: the re-entrant `try_read` -/

/-- t1 reads (via `try_read`) -/
def b1 : RwLockState := { sem := sem0 536870910 [(536870910, c0)] 0, holder := .read [1] }
/-- t1's second `try_read` returned `WouldBlock` — and took a permit -/
def b2 : RwLockState := { sem := sem0 536870909 [(536870909, c0)] 0, holder := .read [1] }
/-- original code: t1 has dropped its read guard; nobody holds the lock, one permit is missing -/
def b3 : RwLockState := { sem := sem0 536870910 [(536870909, c0), (1, c0)] 0 }
/-- repaired code: t1 has given the permit back -/
def b2' : RwLockState := { sem := sem0 536870910 [(536870909, c0), (1, c0)] 0, holder := .read [1] }

theorem f1 : rstep nf false {} (.tryLock 1 false c0) = .ok (b1, .tried (.ok 0) false) := rfl
theorem f2 : rstep nf false b1 (.tryLock 1 false c0) = .ok (b2, .tried .wouldBlock true) := rfl
theorem f3 : rstep nf false b2 (.unlock 1 false c0) = .ok (b3, .unlocked) := rfl
theorem f3' : rstep nf false b2 (.tryGiveBack 1 c0) = .ok (b2', .gaveBack) := rfl

theorem q1 : RReach fx ⟨b1, [1], [], []⟩ := RReach.step nf false (.tryLock 1 false c0) .init trivial f1
theorem q2 : RReach fx ⟨b2, [1], [], [1]⟩ := RReach.step nf false (.tryLock 1 false c0) q1 trivial f2
theorem q3 : RReach fx ⟨b3, [], [], [1]⟩ :=
  RReach.step nf false (.unlock 1 false c0) q2 (List.mem_cons_self ..) f3
theorem q3' : RReach true ⟨b2', [1], [], []⟩ :=
  RReach.step nf false (.tryGiveBack 1 c0) q2 ⟨rfl, List.mem_cons_self ..⟩ f3'

/-- `failed_try_read_leaks_permit_witness` (original code, `fixedF3 = false`): t1 reads, its second
`try_read` returns `WouldBlock` yet `avail` dropped by one; after t1 has unlocked nobody holds the
lock, but one permit is missing for ever: this and every later `try_write` fails, no `write()`
returns while the lock is not poisoned -/
theorem failed_try_read_leaks_permit_witness :
    RReach false ⟨b1, [1], [], []⟩ ∧
    rstep nf false b1 (.tryLock 1 false c0) = .ok (b2, .tried .wouldBlock true) ∧
    b2.sem.avail + 1 = b1.sem.avail ∧ b2 ≠ b1 ∧
    RReach false ⟨b3, [], [], [1]⟩ ∧ b3.holder = .none ∧ b3.sem.avail + 1 = Generated.MAX_READS ∧
    rstep nf false b3 (.tryLock 2 true c0) = .ok (b3, .tried .wouldBlock false) ∧
    (∀ g', RSteps false ⟨b3, [], [], [1]⟩ g' → ∀ fin p t clk m' out,
      rstep fin p g'.m (.tryLock t true clk) = .ok (m', out) → out = .tried .wouldBlock false) := by
  refine ⟨q1, f2, rfl, ?_, q3, rfl, rfl, rfl, ?_⟩
  · intro h
    have : b2.sem.avail = b1.sem.avail := by rw [h]
    cases this
  · intro g' hs fin p t clk m' out h
    exact (leak_blocks_try_write_forever q3 (by simp) hs h).1

/-- repaired code (`fixedF3 = true`): after `tryGiveBack` all permits are accounted for again and a
writer can get the lock once t1 has unlocked -/
example : RReach true ⟨b2', [1], [], []⟩ ∧ b2'.sem.avail = b1.sem.avail ∧ b2'.holder = b1.holder ∧
    (∃ m3 m4, rstep nf false b2' (.unlock 1 false c0) = .ok (m3, .unlocked) ∧
      rstep nf false m3 (.tryLock 2 true c0) = .ok (m4, .tried (.ok 0) false) ∧
      m4.holder = .write 2) :=
  ⟨q3', rfl, rfl, _, _, rfl, rfl, rfl⟩

end RwExample

end LocksLts
end ShuttleModel
