import ShuttleModel.Sched.Replay
/-!
# Replay lemmas, part 7: `next_task` of the replay scheduler with a target clock
-/

namespace ShuttleProofs.Replay
open ShuttleModel ShuttleModel.Replay

/-- number of `Random` steps at the front of a list of steps -/
def leadingRandoms : List ScheduleStep → Nat
  | .random :: rest => leadingRandoms rest + 1
  | _ => 0

/-- the data source after `n` draws -/
def advanceData (d : Rng.RandomDataSource) : Nat → Rng.RandomDataSource
  | 0 => d
  | n + 1 => advanceData d.nextU64.2 n

/-- **The skipping loop consumes exactly the `Random` steps that follow the skipped task step, and one draw of
the data source for each of them.** -/
theorem skipRandoms_spec : ∀ (rest : List ScheduleStep) (k : Nat) (s : ReplayState),
    skipRandoms rest k s =
      (k + leadingRandoms rest,
        { s with steps := s.steps + leadingRandoms rest, data := advanceData s.data (leadingRandoms rest) })
  | [], k, s => rfl
  | .task t :: rest, k, s => rfl
  | .random :: rest, k, s => by
    rw [skipRandoms, skipRandoms_spec rest]
    simp only [leadingRandoms, advanceData]
    have h1 : k + 1 + leadingRandoms rest = k + (leadingRandoms rest + 1) := by omega
    have h2 : s.steps + 1 + leadingRandoms rest = s.steps + (leadingRandoms rest + 1) := by omega
    rw [h1, h2]

theorem leadingRandoms_le (l : List ScheduleStep) : leadingRandoms l ≤ l.length := by
  induction l with
  | nil => exact Nat.le_refl _
  | cons x xs ih => cases x <;> simp [leadingRandoms] <;> omega

/-- **A step whose task's clock is `≤` the target clock is never skipped**: `next_task` returns it at once,
advancing the cursor by one and touching neither the data source nor `steps_skipped`. -/
theorem nextTask_keeps_dependency (s : ReplayState) (views : List TaskView) (cur : Option Nat) (y : Bool)
    (c : Clock) (t : Nat) (task : TaskView)
    (htarget : s.targetClock = some c) (hstep : s.schedule.steps[s.steps]? = some (.task t))
    (hfind : views.find? (fun v => v.id == t) = some task) (hle : task.clock.le c = true) :
    Replay.nextTask s views cur y = (.choose (some t), { s with steps := s.steps + 1 }) := by
  unfold Replay.nextTask
  have hlt : s.steps < s.schedule.steps.length := by
    rcases Nat.lt_or_ge s.steps s.schedule.steps.length with h | h
    · exact h
    · rw [List.getElem?_eq_none h] at hstep; cases hstep
  have hf : s.schedule.steps.length + 1 - s.steps = (s.schedule.steps.length - s.steps) + 1 := by omega
  rw [hf, nextTaskLoop, hstep]
  simp only [hfind, htarget, hle, if_true]

/-- one iteration of the loop on a step that is concurrent with the target: the step and the `Random` steps
after it are skipped (cursor, data source and `steps_skipped` advance accordingly) and the loop goes on -/
theorem nextTaskLoop_skips_concurrent (fuel : Nat) (s : ReplayState) (views : List TaskView)
    (c : Clock) (t : Nat) (task : TaskView)
    (htarget : s.targetClock = some c) (hstep : s.schedule.steps[s.steps]? = some (.task t))
    (hfind : views.find? (fun v => v.id == t) = some task) (hle : task.clock.le c = false) :
    nextTaskLoop (fuel + 1) s views =
      nextTaskLoop fuel
        { s with steps := s.steps + 1 + leadingRandoms (s.schedule.steps.drop (s.steps + 1)),
                 data := advanceData s.data (leadingRandoms (s.schedule.steps.drop (s.steps + 1))),
                 stepsSkipped := s.stepsSkipped + (1 + leadingRandoms (s.schedule.steps.drop (s.steps + 1))) }
        views := by
  rw [nextTaskLoop, hstep]
  simp only [hfind, htarget, hle, Bool.false_eq_true, if_false, skipRandoms_spec]

/-- whatever `next_task` returns under a target clock is a task it was shown whose clock is `≤` the target -/
theorem nextTaskLoop_choice_le (c : Clock) : ∀ (fuel : Nat) (s : ReplayState) (views : List TaskView) (t : Nat)
    (s' : ReplayState), s.targetClock = some c → nextTaskLoop fuel s views = (.choose (some t), s') →
    ∃ task, views.find? (fun v => v.id == t) = some task ∧ task.clock.le c = true
  | 0, s, views, t, s', _, h => by rw [nextTaskLoop] at h; cases h
  | fuel + 1, s, views, t, s', htarget, h => by
    rw [nextTaskLoop] at h
    split at h
    · split at h <;> cases h
    · cases h
    · rename_i next hstep
      split at h
      · rename_i task hfind
        simp only [htarget] at h
        split at h
        · rename_i hle
          simp only [Prod.mk.injEq, SchedAns.choose.injEq, Option.some.injEq] at h
          obtain ⟨h1, _⟩ := h
          subst h1
          exact ⟨task, hfind, hle⟩
        · rw [skipRandoms_spec] at h
          refine nextTaskLoop_choice_le c fuel _ views t s' ?_ h
          first | rfl | exact htarget
      · split at h <;> cases h

theorem nextTask_choice_le (s : ReplayState) (views : List TaskView) (cur : Option Nat) (y : Bool) (c : Clock)
    (t : Nat) (s' : ReplayState) (htarget : s.targetClock = some c)
    (h : Replay.nextTask s views cur y = (.choose (some t), s')) :
    ∃ task, views.find? (fun v => v.id == t) = some task ∧ task.clock.le c = true :=
  nextTaskLoop_choice_le c _ s views t s' htarget h

theorem msgFuel_ne : msgEndedEarly ≠ msgFuel ∧ msgExpectedSwitch ≠ msgFuel ∧ msgNotRunnable ≠ msgFuel := by
  decide

/-- the fuel given to the loop by `next_task` always suffices -/
theorem nextTaskLoop_fuel : ∀ (fuel : Nat) (s : ReplayState) (views : List TaskView),
    s.steps ≤ s.schedule.steps.length → s.schedule.steps.length + 1 - s.steps ≤ fuel →
    (nextTaskLoop fuel s views).1 ≠ .panic msgFuel
  | 0, s, views, hle, h => by omega
  | fuel + 1, s, views, hle, h => by
    rw [nextTaskLoop]
    split
    · split
      · intro hh; cases hh
      · intro hh; exact msgFuel_ne.1 (SchedAns.panic.inj hh)
    · intro hh; exact msgFuel_ne.2.1 (SchedAns.panic.inj hh)
    · rename_i next hstep
      have hlt : s.steps < s.schedule.steps.length := by
        rcases Nat.lt_or_ge s.steps s.schedule.steps.length with h' | h'
        · exact h'
        · rw [List.getElem?_eq_none h'] at hstep; cases hstep
      split
      · dsimp only
        split
        · split
          · intro hh; cases hh
          · rw [skipRandoms_spec]
            have hl := leadingRandoms_le (List.drop (s.steps + 1) s.schedule.steps)
            rw [List.length_drop] at hl
            apply nextTaskLoop_fuel fuel
            · simp only; omega
            · simp only; omega
        · intro hh; cases hh
      · split
        · intro hh; cases hh
        · intro hh; exact msgFuel_ne.2.2 (SchedAns.panic.inj hh)

theorem nextTask_fuel (s : ReplayState) (views : List TaskView) (cur : Option Nat) (y : Bool)
    (hle : s.steps ≤ s.schedule.steps.length) :
    (Replay.nextTask s views cur y).1 ≠ .panic msgFuel :=
  nextTaskLoop_fuel _ s views hle (Nat.le_refl _)

end ShuttleProofs.Replay
