import ShuttleProofs.Lemmas.SemTQ
/-
  The most-general client of the BatchSemaphore, over the PURE transition layer of
  `ShuttleModel/Prim/Sem.lean`.

  One `SemOp` is exactly the state update one of the `Prog` wrappers performs between two
  scheduling points:

  * `tryAcquire`     — `Sem.tryAcquire` after its `K.switch`: `acquirePermits`, then
                       `reblockEffs` on success;
  * `newAcq`         — `Sem.newAcquire` (`Acquire::new`, no scheduling point);
  * `poll`           — `Sem.poll` after its optional `K.switch`: the `!completed` assertion the
                       wrapper makes, then `SemState.pollPure`;  a *first* poll is `newAcq` followed
                       by `poll` (`stepPollNew`); both happen in the segment(s) of one task, but other
                       tasks may run in between, which the split covers;
  * `dropAcquire`    — `Sem.dropAcquire` (`Drop for Acquire`) up to its scheduling point: remove a
                       queued waiter / forget the waiter; when the waiter had been granted permits
                       that no completed poll consumed, the wrapper goes on with a full
                       `Sem.release w.n` (a scheduling point, hence a separate `release` op): the
                       step reports `dropped w.n`;
  * `release`        — `Sem.release` after its `K.switch`, not panicking: `releasePure`;
  * `poisonRelease`  — `Sem.release` after its `K.switch` while `should_stop()`: `releasePoison`;
  * `close`          — `Sem.close` after its `K.switch`: `closePure`.

  `fin : Nat → Bool` (which tasks have finished) is a parameter of every single step and may
  change arbitrarily from step to step.  Clocks are arbitrary parameters.
-/
namespace ShuttleModel
namespace SemLts

inductive SemOp where
  | tryAcquire (task n : Nat) (clk : Clock)
  | newAcq (task n : Nat) (clk : Clock)
  | poll (wid me cxTask : Nat) (clk : Clock)
  | dropAcquire (task wid : Nat)
  | release (task n : Nat) (clk : Clock)
  | close
  | poisonRelease (task n : Nat)
deriving Repr

inductive Out where
  | tried (r : Except TryErr Unit)
  | created (wid : Nat)
  | polled (r : PollRes)
  /-- `toRelease` permits are handed to a full `release` by the wrapper -/
  | dropped (toRelease : Nat)
  | done

structure StepOut where
  s : SemState
  out : Out
  effs : List Eff := []

/-- the atomic state update of each wrapper; `.error msg` = the wrapper panics with `msg`
(no state update has been performed at that point) -/
def step (fin : Nat → Bool) (s : SemState) : SemOp → Except String StepOut
  | .tryAcquire _ n clk =>
    match s.acquirePermits n clk with
    | .error msg => .error msg
    | .ok (.ok (s', _)) => .ok { s := s', out := .tried (.ok ()), effs := s'.reblockEffs fin }
    | .ok (.error e) => .ok { s := s, out := .tried (.error e) }
  | .newAcq task n clk =>
    let (wid, s') := s.newAcquire task n clk
    .ok { s := s', out := .created wid }
  | .poll wid me cxTask clk =>
    match s.getW wid with
    | none => .error "poll: unknown Acquire"
    | some w =>
      if w.completed then .error "assertion failed: !self.completed"
      else match s.pollPure wid me cxTask clk fin with
        | .error msg => .error msg
        | .ok o => .ok { s := o.s, out := .polled o.res, effs := o.effs }
  | .dropAcquire _ wid =>
    match s.getW wid with
    | none => .ok { s := s, out := .dropped 0 }
    | some w =>
      if w.isQueued then
        match s.removeWaiterPure fin wid with
        | .error msg => .error msg
        | .ok (s', effs) => .ok { s := s'.dropW wid, out := .dropped 0, effs := effs }
      else if w.hasPermits && !w.completed then .ok { s := s.dropW wid, out := .dropped w.n }
      else .ok { s := s.dropW wid, out := .dropped 0 }
  | .release _ n clk =>
    if n = 0 then .ok { s := s, out := .done }
    else
      let (s', effs) := s.releasePure fin n clk
      .ok { s := s', out := .done, effs := effs }
  | .close =>
    let (s', effs) := s.closePure fin
    .ok { s := s', out := .done, effs := effs }
  | .poisonRelease _ n =>
    if n = 0 then .ok { s := s, out := .done }
    else .ok { s := s.releasePoison n, out := .done }

/-- `acquire(n)` immediately polled once by its creator (`pollNew(task, n)`) -/
def stepPollNew (fin : Nat → Bool) (s : SemState) (task n : Nat) (clk : Clock) : Except String StepOut :=
  step fin (s.newAcquire task n clk).2 (.poll s.nextWid task task clk)

/-! ### ghost bookkeeping: who holds how many permits -/

/-- semaphore state + ghost: `held` = the completed (`Ok`) acquisitions whose permits have not been
given back yet, as `(task, permits)`; `added` = permits released that were not held -/
structure G where
  s : SemState
  held : List (Nat × Nat) := []
  added : Nat := 0

def heldSum : List (Nat × Nat) → Nat
  | [] => 0
  | (_, n) :: rest => n + heldSum rest

/-- permits the step hands over to the client -/
def acquiredBy (s : SemState) : SemOp → Out → Option (Nat × Nat)
  | .tryAcquire task n _, .tried (.ok ()) => some (task, n)
  | .poll wid me _ _, .polled (.ready true) => (s.getW wid).map (fun w => (me, w.n))
  | .dropAcquire task _, .dropped (k + 1) => some (task, k + 1)
  | _, _ => none

/-- permits the step takes back from the client -/
def releasedBy : SemOp → Option (Nat × Nat)
  | .release task n _ => if n = 0 then none else some (task, n)
  | .poisonRelease task n => if n = 0 then none else some (task, n)
  | _ => none

/-- a release gives back a matching held acquisition when there is one, otherwise it adds permits -/
def giveBack (g : G) : Option (Nat × Nat) → G
  | none => g
  | some (task, n) =>
    if (task, n) ∈ g.held then { g with held := g.held.erase (task, n) }
    else { g with added := g.added + n }

def take (g : G) : Option (Nat × Nat) → G
  | none => g
  | some p => { g with held := p :: g.held }

def gstep (fin : Nat → Bool) (g : G) (op : SemOp) : Except String (G × Out × List Eff) :=
  match step fin g.s op with
  | .error msg => .error msg
  | .ok o =>
    let g1 := giveBack g (releasedBy op)
    let g2 := take g1 (acquiredBy g.s op o.out)
    .ok ({ g2 with s := o.s }, o.out, o.effs)

/-- states reachable by the most general client from `s0` -/
inductive Reach (s0 : SemState) : G → Prop
  | init : Reach s0 { s := s0 }
  | step {g g' : G} {fin : Nat → Bool} {op : SemOp} {out : Out} {effs : List Eff} :
      Reach s0 g → gstep fin g op = .ok (g', out, effs) → Reach s0 g'

/-! ### the invariant -/

/-- invariant of `PermitsAvailable`: the batch sizes add up to `num_available` (once the lazily
initialised deque exists) -/
def BatchOk (s : SemState) : Prop := ∀ b, s.batches = some b → bsum b = s.avail

/-- source invariant (1): the head waiter does not fit -/
def HeadBlocked (s : SemState) : Prop :=
  ∀ wid rest w, s.queue = wid :: rest → s.getW wid = some w → s.avail < w.n

structure Inv (s : SemState) : Prop where
  tq : TQ s.queue s.table s.nextWid
  batch : BatchOk s
  /-- source invariant (4) -/
  closedEmpty : s.closed = true → s.queue = []
  /-- source invariant (1) — holds for strictly fair semaphores only -/
  headBlocked : s.fair = true → HeadBlocked s

theorem Inv.new (n : Nat) (fair : Bool) (c : Clock) : Inv (SemState.new n fair c) := by
  refine ⟨TQ.init _, ?_, by simp [SemState.new], ?_⟩
  · intro b hb
    simp only [SemState.new] at hb ⊢
    by_cases h : n > 0
    · simp only [h, if_true] at hb; cases hb; simp [bsum]
    · simp only [h, if_false] at hb; cases hb; simp [bsum]; omega
  · intro _ wid rest w hq; simp [SemState.new] at hq

theorem Inv.constNew (n : Nat) (fair : Bool) : Inv (SemState.constNew n fair) := by
  refine ⟨TQ.init _, ?_, by simp [SemState.constNew], ?_⟩
  · intro b hb; simp [SemState.constNew] at hb
  · intro _ wid rest w hq; simp [SemState.constNew] at hq

end SemLts
end ShuttleModel
