import ShuttleProofs.Lemmas.KernelProps
/-!
# Kernel lemmas, part 9: step bounds — counting consultations, executions without `reset_step_count`
-/

namespace ShuttleProofs.Kernel
open ShuttleModel

variable {P : Program} {σ : Type}

/-- the bound carried by a `MaxSteps` -/
def boundOf : MaxSteps → Option Nat
  | .failAfter n => some n
  | .continueAfter n => some n
  | .none => none

theorem BoundOK.lt {k : Kernel} (h : BoundOK k) {n : Nat} (hb : boundOf k.maxSteps = some n) :
    k.schedLen - k.stepsResetAt < n := by
  unfold BoundOK at h
  cases hm : k.maxSteps with
  | none => rw [hm] at hb; cases hb
  | failAfter m =>
    rw [hm] at hb h
    simp only [boundOf, Option.some.injEq] at hb
    subst hb
    simp only [Kernel.stepBoundExceeded, decide_eq_false_iff_not, Nat.not_le] at h
    simpa using h
  | continueAfter m =>
    rw [hm] at hb h
    simp only [boundOf, Option.some.injEq] at hb
    subst hb
    simp only [Kernel.stepBoundExceeded, decide_eq_false_iff_not, Nat.not_le] at h
    simpa using h

/-- number of scheduler consultations recorded in a log -/
def decCount (l : List Ev) : Nat := (l.filter isDec).length

theorem decCount_append (l l' : List Ev) : decCount (l ++ l') = decCount l + decCount l' := by
  simp [decCount]

theorem decCount_nodec (evs : List Ev) (h : ∀ ev ∈ evs, isDec ev = false) : decCount evs = 0 := by
  unfold decCount
  rw [List.length_eq_zero_iff, List.filter_eq_nil_iff]
  intro ev hev
  rw [h ev hev]; simp

theorem decCount_decEv (k : Kernel) (ch : Option Nat) : decCount [decEv k ch] = 1 := rfl

/-- steps contributed by `draw`/`obs` events are all `.random` -/
theorem logSteps_nodec_random (evs : List Ev) (h : ∀ ev ∈ evs, isDec ev = false) :
    ∀ x ∈ logSteps evs, x = .random := by
  intro x hx
  unfold logSteps at hx
  obtain ⟨ev, hev, hx⟩ := List.mem_flatMap.mp hx
  have := h ev hev
  cases ev with
  | dec o c y ch => simp [isDec] at this
  | draw v => simpa [evSteps] using hx
  | obs s => simp [evSteps] at hx

/-- One continuing iteration: the consultation happened below the bound, and the schedule grew by `.task t`
followed only by `.random` steps. -/
theorem iter_schedule_growth {S : Scheduler σ} {segFuel : Nat} {ms : MaxSteps} {a b : ExecState P σ}
    (hi : LoopInv ms a) (h : loopStep S segFuel a = .inr b) :
    BoundOK a.k ∧ ∃ t rs, b.k.schedRev = rs ++ .task t :: a.k.schedRev ∧ (∀ x ∈ rs, x = .random) ∧
      decCount b.log.toList = decCount a.log.toList + 1 := by
  obtain ⟨t, s', hc, _, _, _, evs, hlog, hnd, hsr⟩ := iter_frame hi.next hi.conts h
  refine ⟨hc.bound, t, (logSteps evs).reverse, ?_, ?_, ?_⟩
  · rw [hsr]; simp [segStart, chosenK]
  · intro x hx
    exact logSteps_nodec_random evs hnd x (List.mem_reverse.mp hx)
  · rw [hlog]
    simp only [segStart, Array.toList_push, decCount_append, decCount_decEv, decCount_nodec evs hnd]

/-- programs that never call `reset_step_count` -/
def NoReset (P : Program) : Prop :=
  (∀ i, Never (P := P) isReset (P.bodies i)) ∧ (∀ i, Never (P := P) isReset (P.unwind i))

/-- loop-head invariant of executions of a `NoReset` program under a bound `n` -/
structure BoundInv (n : Nat) (st : ExecState P σ) : Prop where
  reset : st.k.stepsResetAt = 0
  conts : ∀ q ∈ st.conts, Never (P := P) isReset q
  decsLen : decCount st.log.toList ≤ st.k.schedLen
  decs : decCount st.log.toList ≤ n

theorem BoundInv.init (hP : NoReset P) (ms : MaxSteps) (seed : Nat) (s : σ) (n : Nat) :
    BoundInv n (initState P ms seed s) := by
  refine ⟨rfl, ?_, Nat.zero_le _, Nat.zero_le _⟩
  intro q hq
  simp only [initState, List.mem_singleton] at hq
  rw [hq]; exact hP.1 0

theorem BoundInv.step {S : Scheduler σ} {segFuel : Nat} {ms : MaxSteps} {n : Nat} {a b : ExecState P σ}
    (hP : NoReset P) (hb : boundOf ms = some n) (hi : LoopInv ms a) (hj : BoundInv n a)
    (h : loopStep S segFuel a = .inr b) : BoundInv n b := by
  obtain ⟨t, s', p, e, hc, _, _, hp, _, htr, hend, ts, hl, rfl⟩ := iter_inr hi.next hi.conts h
  have hpn : Never (P := P) isReset p := hj.conts p (List.mem_of_getElem? hp)
  have hlt : a.k.schedLen - a.k.stepsResetAt < n := hc.bound.lt (by rw [hi.maxSteps]; exact hb)
  rw [hj.reset] at hlt
  have hlog : SegLog [] (segStart a t s') e.st := by
    apply htr.log_of_not_schedPanic
    intro msg st' he
    rcases hend with h | h <;> rw [he] at h <;> cases h
  obtain ⟨evs, hlog, hnd, _⟩ := hlog
  have hdc : decCount e.st.log.toList = decCount a.log.toList + 1 := by
    rw [hlog]
    simp only [segStart, Array.toList_push, decCount_append, decCount_decEv, decCount_nodec evs hnd]
  have hsl : a.k.schedLen + 1 ≤ e.st.k.schedLen := by
    have := htr.frame.schedLen
    simpa [segStart, chosenK, Kernel.schedLen] using this
  refine ⟨?_, ?_, ?_, ?_⟩
  · show e.st.k.stepsResetAt = 0
    rw [htr.stepsResetAt_eq hpn.untilSwitch (fun i => (hP.2 i).untilSwitch)]
    exact hj.reset
  · exact htr.never_conts isReset hpn hP.1 hP.2 hj.conts
  · show decCount e.st.log.toList ≤ e.st.k.schedLen
    have := hj.decsLen
    omega
  · show decCount e.st.log.toList ≤ n
    have := hj.decsLen
    omega

theorem BoundInv.final {S : Scheduler σ} {segFuel : Nat} {ms : MaxSteps} {n : Nat} {st : ExecState P σ}
    {r : Result P σ} (hb : boundOf ms = some n) (hi : LoopInv ms st) (hj : BoundInv n st)
    (hf : FinalSpec S segFuel st r) : decCount r.st.log.toList ≤ n := by
  obtain ⟨decs, evs, hlog, hnd, hdec⟩ := hf.log
  rw [hlog, decCount_append, decCount_append, decCount_nodec evs hnd]
  rcases hdec with rfl | ⟨ch, s', rfl, hc, _⟩
  · have := hj.decs
    simpa [decCount] using this
  · have hlt : st.k.schedLen - st.k.stepsResetAt < n := hc.bound.lt (by rw [hi.maxSteps]; exact hb)
    rw [hj.reset] at hlt
    have := hj.decsLen
    rw [decCount_decEv]
    omega

/-- each continuing iteration logs exactly one consultation -/
theorem ReachN.decCount {S : Scheduler σ} {segFuel : Nat} {ms : MaxSteps} {m : Nat} {a b : ExecState P σ}
    (h : ReachN S segFuel m a b) (hi : LoopInv ms a) :
    Kernel.decCount b.log.toList = Kernel.decCount a.log.toList + m := by
  induction h with
  | refl st => rfl
  | head h1 _ ih =>
    obtain ⟨_, _, _, _, _, hd⟩ := iter_schedule_growth hi h1
    rw [ih (hi.step h1), hd]
    omega

end ShuttleProofs.Kernel
