import ShuttleProofs.Lemmas.KernelBasic
/-!
# Kernel lemmas, part 2: a relational characterisation of `Kernel.schedule` (`ExecutionState::schedule`)

`schedule_eq` re-states `schedule` with named sub-terms (`bump`, `atConsult`, `endsHere`, `ask`, `decEv`,
`scheduleCore`).  `SchedSpec S k s r` lists every way `schedule` can answer `r` from kernel state `k` /
scheduler state `s`, with the exact side conditions; `schedule_spec` proves `Kernel.schedule k S s` is always
one of them.  All later proofs go through `SchedSpec` and never unfold `schedule` again.
-/
namespace ShuttleProofs.Kernel
open ShuttleModel

def bump (k : Kernel) : Kernel := { k with ctxSwitches := k.ctxSwitches + 1 }
def atConsult (k : Kernel) : Kernel := { bump k with hasYielded := false }
def endsHere (k : Kernel) : Bool :=
  !k.anyRunnable || (!k.unfinishedAttached && k.allRunnableDetached)
def ask {σ : Type} (S : Scheduler σ) (k : Kernel) (s : σ) : SchedAns × σ :=
  S.nextTask s ((atConsult k).views k.offered) k.current.id k.hasYielded
def decEv (k : Kernel) (ch : Option Nat) : Ev := .dec k.offered k.current.id k.hasYielded ch

/-- the part of `schedule()` after the bound check -/
def scheduleCore {σ : Type} (S : Scheduler σ) (k : Kernel) (s : σ) : Kernel.SchedStep σ :=
  if endsHere k then .ok { bump k with next := .finished } s none
  else
    match ask S k s with
    | (.panic msg, s') => .schedPanic msg (atConsult k) s'
    | (.choose Option.none, s') => .ok { atConsult k with next := .stopped } s' (some (decEv k none))
    | (.choose (Option.some t), s') =>
      match k.tasks[t]? with
      | Option.none => .schedPanic "scheduler chose an unknown task" (atConsult k) s'
      | Option.some tk =>
        if !(tk.runnable || tk.isBlocked) then
          .schedPanic "assertion failed: task.runnable() || task.blocked()" (atConsult k) s'
        else if tk.isBlocked then
          if !tk.canSpuriouslyWakeup then
            .schedPanic "assertion failed: task.can_spuriously_wakeup()" (atConsult k) s'
          else match tk.unblock with
            | .ok tk' => .ok { ((atConsult k).setTask t tk') with next := .some t } s' (some (decEv k (some t)))
            | .error e => .schedPanic e (atConsult k) s'
        else .ok { atConsult k with next := .some t } s' (some (decEv k (some t)))

theorem schedule_eq {σ : Type} (S : Scheduler σ) (k : Kernel) (s : σ) :
    k.schedule S s =
      if k.next != .none then .ok k s none
      else match k.maxSteps with
        | .failAfter n =>
          if k.stepBoundExceeded n then .err .stepBoundExceeded (bump k) s else scheduleCore S k s
        | .continueAfter n =>
          if k.stepBoundExceeded n then .ok { bump k with next := .stopped } s none else scheduleCore S k s
        | .none => scheduleCore S k s := by
  obtain ⟨tasks, current, next, hy, cs, ra, sr, seed, ms, pk, apk⟩ := k
  unfold Kernel.schedule
  by_cases hn : (next != Cur.none) = true
  · simp only [hn, if_true]
  · simp only [hn]
    cases ms with
    | none => rfl
    | failAfter n =>
      simp only
      by_cases he : Kernel.stepBoundExceeded ⟨tasks, current, next, hy, cs, ra, sr, seed, .failAfter n, pk, apk⟩ n = true
      · have he' : Kernel.stepBoundExceeded ⟨tasks, current, next, hy, cs + 1, ra, sr, seed, .failAfter n, pk, apk⟩ n = true := he
        simp only [he, he', if_true]; rfl
      · have he' : ¬ Kernel.stepBoundExceeded ⟨tasks, current, next, hy, cs + 1, ra, sr, seed, .failAfter n, pk, apk⟩ n = true := he
        simp only [he, he']; rfl
    | continueAfter n =>
      simp only
      by_cases he : Kernel.stepBoundExceeded ⟨tasks, current, next, hy, cs, ra, sr, seed, .continueAfter n, pk, apk⟩ n = true
      · have he' : Kernel.stepBoundExceeded ⟨tasks, current, next, hy, cs + 1, ra, sr, seed, .continueAfter n, pk, apk⟩ n = true := he
        simp only [he, he', if_true]; rfl
      · have he' : ¬ Kernel.stepBoundExceeded ⟨tasks, current, next, hy, cs + 1, ra, sr, seed, .continueAfter n, pk, apk⟩ n = true := he
        simp only [he, he']; rfl

/-- the configured step bound (if any) is not reached in `k` -/
def BoundOK (k : Kernel) : Prop :=
  match k.maxSteps with
  | .failAfter n => k.stepBoundExceeded n = false
  | .continueAfter n => k.stepBoundExceeded n = false
  | .none => True

/-- `schedule()` called in `k` reaches the call of `Scheduler::next_task` -/
structure Consults (k : Kernel) : Prop where
  next : k.next = .none
  bound : BoundOK k
  goOn : endsHere k = false

inductive SchedSpec {σ : Type} (S : Scheduler σ) (k : Kernel) (s : σ) : Kernel.SchedStep σ → Prop
  /-- "Don't schedule twice" -/
  | already : k.next ≠ .none → SchedSpec S k s (.ok k s none)
  | boundFail (n : Nat) : k.next = .none → k.maxSteps = .failAfter n → k.stepBoundExceeded n = true →
      SchedSpec S k s (.err .stepBoundExceeded (bump k) s)
  | boundStop (n : Nat) : k.next = .none → k.maxSteps = .continueAfter n → k.stepBoundExceeded n = true →
      SchedSpec S k s (.ok { bump k with next := .stopped } s none)
  | finished : k.next = .none → BoundOK k → endsHere k = true →
      SchedSpec S k s (.ok { bump k with next := .finished } s none)
  /-- the scheduler panicked -/
  | schedPanic (msg : String) (s' : σ) : Consults k → ask S k s = (.panic msg, s') →
      SchedSpec S k s (.schedPanic msg (atConsult k) s')
  | choseNone (s' : σ) : Consults k → ask S k s = (.choose none, s') →
      SchedSpec S k s (.ok { atConsult k with next := .stopped } s' (some (decEv k none)))
  /-- the scheduler chose something that was not offered: one of the `unwrap`/`assert!`s fails -/
  | choseBad (t : Nat) (msg : String) (s' : σ) : Consults k → ask S k s = (.choose (some t), s') →
      t ∉ k.offered → SchedSpec S k s (.schedPanic msg (atConsult k) s')
  | choseRunnable (t : Nat) (tk : Task) (s' : σ) : Consults k → ask S k s = (.choose (some t), s') →
      k.tasks[t]? = some tk → tk.runnable = true →
      SchedSpec S k s (.ok { atConsult k with next := .some t } s' (some (decEv k (some t))))
  | choseSpurious (t : Nat) (tk : Task) (s' : σ) : Consults k → ask S k s = (.choose (some t), s') →
      k.tasks[t]? = some tk → tk.state = .blocked true →
      SchedSpec S k s (.ok { (atConsult k).setTask t { tk with state := .runnable, blockedInPark := false }
                              with next := .some t } s' (some (decEv k (some t))))

theorem scheduleCore_spec {σ : Type} (S : Scheduler σ) (k : Kernel) (s : σ)
    (hnext : k.next = .none) (hb : BoundOK k) : SchedSpec S k s (scheduleCore S k s) := by
  unfold scheduleCore
  cases he : endsHere k
  · have hc : Consults k := ⟨hnext, hb, he⟩
    simp only [Bool.false_eq_true, if_false]
    rcases hans : ask S k s with ⟨ans, s'⟩
    cases ans with
    | panic msg => exact SchedSpec.schedPanic msg s' hc hans
    | choose ch =>
      cases ch with
      | none => exact SchedSpec.choseNone s' hc hans
      | some t =>
        simp only
        cases htk : k.tasks[t]? with
        | none =>
          refine SchedSpec.choseBad t _ s' hc hans ?_
          intro hmem
          obtain ⟨tk, h1, _⟩ := mem_offered.mp hmem
          rw [htk] at h1; cases h1
        | some tk =>
          simp only
          by_cases hrun : tk.runnable = true
          · have hnb : tk.isBlocked = false := by
              rw [Task.runnable_iff] at hrun
              simp [Task.isBlocked, hrun]
            simp only [hrun, hnb, Bool.true_or, Bool.not_true, Bool.false_eq_true, if_false]
            exact SchedSpec.choseRunnable t tk s' hc hans htk hrun
          · have hrun' : tk.runnable = false := by simpa using hrun
            by_cases hbl : tk.isBlocked = true
            · simp only [hrun', hbl, Bool.or_true, Bool.not_true, Bool.false_eq_true, if_false, if_true]
              by_cases hsp : tk.canSpuriouslyWakeup = true
              · simp only [hsp, Bool.not_true, Bool.false_eq_true, if_false]
                have hst := (Task.canSpuriouslyWakeup_iff tk).mp hsp
                have hunb : tk.unblock = .ok { tk with state := .runnable, blockedInPark := false } := by
                  simp [Task.unblock, Task.finished, hst]
                rw [hunb]
                exact SchedSpec.choseSpurious t tk s' hc hans htk hst
              · have hsp' : tk.canSpuriouslyWakeup = false := by simpa using hsp
                simp only [hsp', Bool.not_false, if_true]
                refine SchedSpec.choseBad t _ s' hc hans ?_
                intro hmem
                obtain ⟨tk', h1, h2⟩ := mem_offered.mp hmem
                rw [htk] at h1; cases h1
                rcases h2 with h2 | h2
                · rw [hrun'] at h2; cases h2
                · rw [hsp'] at h2; cases h2
            · have hbl' : tk.isBlocked = false := by simpa using hbl
              simp only [hrun', hbl', Bool.or_false, Bool.not_false, if_true]
              refine SchedSpec.choseBad t _ s' hc hans ?_
              intro hmem
              obtain ⟨tk', h1, h2⟩ := mem_offered.mp hmem
              rw [htk] at h1; cases h1
              rcases h2 with h2 | h2
              · rw [hrun'] at h2; cases h2
              · have h3 := (Task.canSpuriouslyWakeup_iff tk).mp h2
                have h4 : tk.isBlocked = true := (Task.isBlocked_iff tk).mpr ⟨true, h3⟩
                rw [hbl'] at h4; cases h4
  · simp only [if_true]
    exact SchedSpec.finished hnext hb he

theorem schedule_spec {σ : Type} (S : Scheduler σ) (k : Kernel) (s : σ) :
    SchedSpec S k s (k.schedule S s) := by
  rw [schedule_eq]
  by_cases hnext : k.next = .none
  · have hn : (k.next != Cur.none) = false := by simp [hnext]
    simp only [hn, Bool.false_eq_true, if_false]
    cases hm : k.maxSteps with
    | none =>
      simp only
      exact scheduleCore_spec S k s hnext (by unfold BoundOK; rw [hm]; trivial)
    | failAfter n =>
      simp only
      cases he : k.stepBoundExceeded n
      · simp only [Bool.false_eq_true, if_false]
        exact scheduleCore_spec S k s hnext (by unfold BoundOK; rw [hm]; exact he)
      · simp only [if_true]
        exact SchedSpec.boundFail n hnext hm he
    | continueAfter n =>
      simp only
      cases he : k.stepBoundExceeded n
      · simp only [Bool.false_eq_true, if_false]
        exact scheduleCore_spec S k s hnext (by unfold BoundOK; rw [hm]; exact he)
      · simp only [if_true]
        exact SchedSpec.boundStop n hnext hm he
  · have hn : (k.next != Cur.none) = true := by simpa using hnext
    simp only [hn, if_true]
    exact SchedSpec.already hnext

end ShuttleProofs.Kernel
