import ShuttleProofs.Lemmas.LocksLts
/-
  C04 (lock part), Mutex: mutual exclusion, try_lock, re-entrancy diagnosis and poisoning over all
  states reachable in the most-general-client LTS `MReach` of `LocksLts.lean`.
-/
namespace ShuttleModel
namespace LocksLts
open SemLts

/-- the Mutex invariant: semaphore invariant, the ghost guard list is the `holder` field, and (while
the semaphore is open) the single permit is either available, granted to a waiter, or held -/
structure MInv (g : MG) : Prop where
  sem : Inv g.m.sem
  fair : g.m.sem.fair = false
  guards : g.guards = g.m.holder.toList
  bal : g.m.sem.closed = false →
    g.m.sem.avail + pend g.m.sem.table + (if g.m.holder.isSome then 1 else 0) = 1

theorem closed_back {a b : Bool} (hm : a = true → b = true) (hb : b = false) : a = false := by
  cases a with
  | false => rfl
  | true => rw [hm rfl] at hb; cases hb

theorem MInv.init : MInv {} := by
  refine ⟨Inv.constNew 1 false, rfl, rfl, fun _ => ?_⟩
  simp [SemState.constNew]

theorem mstep_inv {fin : Nat → Bool} {p : Bool} {g : MG} {op : MOp} {m' : MutexState} {out : MOut}
    (hI : MInv g) (hen : MEnabled g op) (h : mstep fin p g.m op = .ok (m', out)) :
    MInv { m := m', guards := mghost g.guards op out } := by
  obtain ⟨m, guards⟩ := g
  obtain ⟨hs, hfr, hg, hb⟩ := hI
  simp only at hs hfr hg hb
  cases op with
  | lockStart t clk =>
    simp only [mstep] at h
    split at h
    · cases h
    · simp only [Except.ok.injEq, Prod.mk.injEq] at h
      obtain ⟨rfl, rfl⟩ := h
      obtain ⟨i1, hp, ha⟩ := hs.newAcquire t 1 clk
      refine ⟨i1, hfr, hg, fun hc => ?_⟩
      have := hb hc
      simp only [hp, ha]
      exact this
  | lockPoll t wid clk =>
    obtain ⟨w0, hw, hn⟩ := hen
    simp only at hw
    simp only [mstep] at h
    cases hpd : pollDrop fin m.sem t wid clk with
    | error e => rw [hpd] at h; cases h
    | ok r =>
      obtain ⟨s', r⟩ := r
      rw [hpd] at h
      obtain ⟨i1, hm, c1⟩ := pollDrop_spec hs hw hpd
      have hf1 : s'.fair = false := by rw [pollDrop_fair hs hpd]; exact hfr
      cases r with
      | pending =>
        simp only [Except.ok.injEq, Prod.mk.injEq] at h
        obtain ⟨rfl, rfl⟩ := h
        refine ⟨i1, hf1, hg, fun hc => ?_⟩
        have hc0 : m.sem.closed = false := closed_back hm hc
        have := hb hc0
        simp only [reduceCtorEq, if_false] at c1 ⊢
        omega
      | ready b =>
        cases b with
        | false => cases h
        | true =>
          simp only at h
          split at h
          · cases h
          · rename_i hh
            simp only [Except.ok.injEq, Prod.mk.injEq] at h
            obtain ⟨rfl, rfl⟩ := h
            have hnone : m.holder = none := by simpa using hh
            refine ⟨i1, hf1, ?_, fun hc => ?_⟩
            · simp only [mghost, MutexState.takeGuard, hg, hnone]
              rfl
            · have hc0 : m.sem.closed = false := closed_back hm hc
              have := hb hc0
              simp only [hnone, if_true, hn] at c1 this ⊢
              simp only [MutexState.takeGuard, Option.isSome_some, if_true]
              simp at this
              omega
  | lockPoisoned t =>
    simp only [mstep] at h
    split at h
    · cases h
    · rename_i hh
      simp only [Except.ok.injEq, Prod.mk.injEq] at h
      obtain ⟨rfl, rfl⟩ := h
      have hnone : m.holder = none := by simpa using hh
      have hcl : m.sem.closed = true := hen
      refine ⟨hs, hfr, ?_, fun hc => ?_⟩
      · simp only [mghost, MutexState.takeGuard, hg, hnone]
        rfl
      · have : m.sem.closed = false := hc
        rw [hcl] at this; cases this
  | tryLock t clk =>
    simp only [mstep] at h
    cases h1 : step fin m.sem (.tryAcquire t 1 clk) with
    | error e => rw [h1] at h; cases h
    | ok o =>
      rw [h1] at h
      simp only at h
      obtain ⟨i1, c1⟩ := step_spec fin hs h1
      have hf1 : o.s.fair = false := by rw [step_fair fin hs h1]; exact hfr
      rcases step_tryAcquire_cases h1 with ⟨s', pc, hacq, hos, hout⟩ | ⟨e, hacq, hos, hout⟩
      · rw [hout] at h c1
        simp only [Except.ok.injEq, Prod.mk.injEq] at h
        obtain ⟨rfl, rfl⟩ := h
        obtain ⟨_, hc0, _, _⟩ := acquirePermits_ok hacq
        have hb0 := hb hc0
        simp only [acquiredBy, releasedBy, permitsOf] at c1
        have hnone : m.holder = none := by
          cases hh : m.holder with
          | none => rfl
          | some x => rw [hh] at hb0; simp at hb0; omega
        refine ⟨i1, hf1, ?_, fun hc => ?_⟩
        · simp only [mghost, MutexState.takeGuard, MutexState.result, hg, hnone]
          split <;> simp
        · simp only [hnone] at hb0
          simp only [MutexState.takeGuard, Option.isSome_some, if_true]
          simp at hb0
          omega
      · rw [hout] at h
        simp only [Except.ok.injEq, Prod.mk.injEq] at h
        obtain ⟨rfl, rfl⟩ := h
        refine ⟨i1, hf1, by simpa [mghost] using hg, fun hc => ?_⟩
        simp only [hos] at hc ⊢
        exact hb hc
  | unlock t clk =>
    simp only [mstep] at h
    cases h1 : step fin m.sem (relOp p t 1 clk) with
    | error e => rw [h1] at h; cases h
    | ok o =>
      rw [h1] at h
      simp only [Except.ok.injEq, Prod.mk.injEq] at h
      obtain ⟨rfl, rfl⟩ := h
      obtain ⟨i1, c1, hm, _⟩ := relOp_spec hs (by omega) h1
      have hf1 : o.s.fair = false := by rw [step_fair fin hs h1]; exact hfr
      have hmem : t ∈ guards := hen
      rw [hg] at hmem
      have hh : m.holder = some t := by
        cases hx : m.holder with
        | none => rw [hx] at hmem; simp at hmem
        | some x => rw [hx] at hmem; simp at hmem; rw [hmem]
      refine ⟨i1, hf1, ?_, fun hc => ?_⟩
      · simp only [mghost, MutexState.dropGuard, hg, hh]
        simp
      · have hc0 : m.sem.closed = false := closed_back hm hc
        have := hb hc0
        simp only [hh, Option.isSome_some, if_true] at this
        simp only [MutexState.dropGuard, Option.isSome_none, Bool.false_eq_true, if_false]
        omega
  | write t v =>
    simp only [mstep, Except.ok.injEq, Prod.mk.injEq] at h
    obtain ⟨rfl, rfl⟩ := h
    exact ⟨hs, hfr, hg, hb⟩

theorem mreach_inv {g : MG} (h : MReach g) : MInv g := by
  induction h with
  | init => exact MInv.init
  | step fin p op _ hen hs ih => exact mstep_inv ih hen hs

/-! ### 1. mutual exclusion -/

/-- C04/Mutex: in every reachable state the live guards are exactly the `holder` field (hence at most
one), and while the lock is not poisoned its single permit is available, or granted to a waiter, or
held -/
theorem mutex_exclusive {g : MG} (h : MReach g) :
    g.guards = g.m.holder.toList ∧
    (g.m.sem.closed = false →
      g.m.sem.avail + pend g.m.sem.table + (if g.m.holder.isSome then 1 else 0) = 1) ∧
    Inv g.m.sem :=
  ⟨(mreach_inv h).guards, (mreach_inv h).bal, (mreach_inv h).sem⟩

theorem mutex_at_most_one_guard {g : MG} (h : MReach g) : g.guards.length ≤ 1 := by
  rw [(mreach_inv h).guards]
  cases g.m.holder <;> simp

/-- while held and not poisoned: no permit is available and no waiter has been granted one -/
theorem mutex_held_no_permit {g : MG} (h : MReach g) (hc : g.m.sem.closed = false)
    (hh : g.m.holder.isSome = true) : g.m.sem.avail = 0 ∧ pend g.m.sem.table = 0 := by
  have := (mreach_inv h).bal hc
  rw [hh] at this
  simp only [if_true] at this
  omega

def MOp.task : MOp → Nat
  | .lockStart t _ => t
  | .lockPoll t _ _ => t
  | .lockPoisoned t => t
  | .tryLock t _ => t
  | .unlock t _ => t
  | .write t _ => t

/-- does the step hand a guard to its task -/
def MOut.guard : MOut → Bool
  | .locked _ => true
  | .tried r => r != .wouldBlock
  | _ => false

theorem result_ne_wouldBlock (m : MutexState) : m.result ≠ .wouldBlock := by
  unfold MutexState.result; split <;> simp

/-- `lock` / `try_lock` return a guard only from a state in which nobody holds the lock, and the
caller is the holder afterwards -/
theorem mutex_guard_only_if_free {fin : Nat → Bool} {p : Bool} {g : MG} {op : MOp}
    {m' : MutexState} {out : MOut} (hI : MInv g) (h : mstep fin p g.m op = .ok (m', out))
    (hgd : out.guard = true) : g.m.holder = none ∧ m'.holder = some op.task := by
  obtain ⟨m, guards⟩ := g
  cases op with
  | lockStart t clk =>
    simp only [mstep] at h
    split at h
    · cases h
    · simp only [Except.ok.injEq, Prod.mk.injEq] at h
      obtain ⟨_, rfl⟩ := h; cases hgd
  | lockPoll t wid clk =>
    simp only [mstep] at h
    cases hpd : pollDrop fin m.sem t wid clk with
    | error e => rw [hpd] at h; cases h
    | ok r =>
      obtain ⟨s', r⟩ := r
      rw [hpd] at h
      cases r with
      | pending =>
        simp only [Except.ok.injEq, Prod.mk.injEq] at h
        obtain ⟨_, rfl⟩ := h; cases hgd
      | ready b =>
        cases b with
        | false => cases h
        | true =>
          simp only at h
          split at h
          · cases h
          · rename_i hh
            simp only [Except.ok.injEq, Prod.mk.injEq] at h
            obtain ⟨rfl, _⟩ := h
            exact ⟨by simpa using hh, rfl⟩
  | lockPoisoned t =>
    simp only [mstep] at h
    split at h
    · cases h
    · rename_i hh
      simp only [Except.ok.injEq, Prod.mk.injEq] at h
      obtain ⟨rfl, _⟩ := h
      exact ⟨by simpa using hh, rfl⟩
  | tryLock t clk =>
    simp only [mstep] at h
    cases h1 : step fin m.sem (.tryAcquire t 1 clk) with
    | error e => rw [h1] at h; cases h
    | ok o =>
      rw [h1] at h
      simp only at h
      obtain ⟨i1, c1⟩ := step_spec fin hI.sem h1
      rcases step_tryAcquire_cases h1 with ⟨s', pc, hacq, hos, hout⟩ | ⟨e, hacq, hos, hout⟩
      · rw [hout] at h c1
        simp only [Except.ok.injEq, Prod.mk.injEq] at h
        obtain ⟨rfl, _⟩ := h
        obtain ⟨_, hc0, _, _⟩ := acquirePermits_ok hacq
        have hb0 := hI.bal hc0
        simp only [acquiredBy, releasedBy, permitsOf] at c1
        refine ⟨?_, rfl⟩
        show m.holder = none
        cases hh : m.holder with
        | none => rfl
        | some x =>
          have hb0' : m.sem.avail + pend m.sem.table + (if m.holder.isSome then 1 else 0) = 1 := hb0
          rw [hh] at hb0'; simp at hb0'
          have c1' : o.s.avail + pend o.s.table + 1 = m.sem.avail + pend m.sem.table := by
            simpa using c1
          omega
      · rw [hout] at h
        simp only [Except.ok.injEq, Prod.mk.injEq] at h
        obtain ⟨_, rfl⟩ := h
        simp [MOut.guard] at hgd
  | unlock t clk =>
    simp only [mstep] at h
    cases h1 : step fin m.sem (relOp p t 1 clk) with
    | error e => rw [h1] at h; cases h
    | ok o =>
      rw [h1] at h
      simp only [Except.ok.injEq, Prod.mk.injEq] at h
      obtain ⟨_, rfl⟩ := h; cases hgd
  | write t v =>
    simp only [mstep, Except.ok.injEq, Prod.mk.injEq] at h
    obtain ⟨_, rfl⟩ := h; cases hgd

/-! ### 3./4. try_lock -/

/-- `try_lock` never panics -/
theorem mutex_tryLock_total (fin : Nat → Bool) (p : Bool) (m : MutexState) (t : Nat) (clk : Clock) :
    ∃ m' r, mstep fin p m (.tryLock t clk) = .ok (m', .tried r) := by
  simp only [mstep, step]
  cases hacq : m.sem.acquirePermits 1 clk with
  | error msg =>
    unfold SemState.acquirePermits at hacq
    simp only [Nat.succ_ne_zero, if_false] at hacq
    split at hacq
    · cases hacq
    · split at hacq
      · split at hacq <;> cases hacq
      · cases hacq
  | ok r =>
    cases r with
    | ok q => obtain ⟨s', pc⟩ := q; exact ⟨_, _, rfl⟩
    | error e => exact ⟨_, _, rfl⟩

/-- the two outcomes of a `try_lock` step -/
theorem mutex_tryLock_cases {fin : Nat → Bool} {p : Bool} {m m' : MutexState} {t : Nat} {clk : Clock}
    {out : MOut} (h : mstep fin p m (.tryLock t clk) = .ok (m', out)) :
    (∃ s' pc, m.sem.acquirePermits 1 clk = .ok (.ok (s', pc)) ∧
        m' = ({ m with sem := s' }).takeGuard t p ∧ out = .tried m.result) ∨
    (∃ e, m.sem.acquirePermits 1 clk = .ok (.error e) ∧ m' = m ∧ out = .tried .wouldBlock) := by
  simp only [mstep] at h
  cases h1 : step fin m.sem (.tryAcquire t 1 clk) with
  | error e => rw [h1] at h; cases h
  | ok o =>
    rw [h1] at h
    simp only at h
    rcases step_tryAcquire_cases h1 with ⟨s', pc, hacq, hos, hout⟩ | ⟨e, hacq, hos, hout⟩
    · rw [hout] at h
      simp only [Except.ok.injEq, Prod.mk.injEq] at h
      obtain ⟨rfl, rfl⟩ := h
      exact Or.inl ⟨s', pc, hacq, by rw [hos], rfl⟩
    · rw [hout] at h
      simp only [Except.ok.injEq, Prod.mk.injEq] at h
      obtain ⟨rfl, rfl⟩ := h
      exact Or.inr ⟨e, hacq, by rw [hos], rfl⟩

/-- C04/Mutex: `try_lock` succeeds exactly when the (unfair) semaphore is open and has its permit;
the wait queue does not matter -/
theorem mutex_try_succeeds_iff_available {fin : Nat → Bool} {p : Bool} {m m' : MutexState} {t : Nat}
    {clk : Clock} {r : LockRes} (hf : m.sem.fair = false)
    (h : mstep fin p m (.tryLock t clk) = .ok (m', .tried r)) :
    r ≠ .wouldBlock ↔ (m.sem.closed = false ∧ 1 ≤ m.sem.avail) := by
  rw [← acquirePermits_unfair_ok_iff (c := clk) hf (by omega)]
  rcases mutex_tryLock_cases h with ⟨s', pc, hacq, _, hout⟩ | ⟨e, hacq, _, hout⟩
  · simp only [MOut.tried.injEq] at hout
    subst hout
    exact ⟨fun _ => ⟨s', pc, hacq⟩, fun _ => result_ne_wouldBlock m⟩
  · simp only [MOut.tried.injEq] at hout
    subst hout
    refine ⟨fun h => absurd rfl h, ?_⟩
    rintro ⟨s', pc, h'⟩
    rw [hacq] at h'; cases h'

/-- … and in a reachable state that is: not poisoned, nobody holds the lock, and no waiter has been
granted the permit -/
theorem mutex_try_succeeds_iff_free {fin : Nat → Bool} {p : Bool} {g : MG} {m' : MutexState} {t : Nat}
    {clk : Clock} {r : LockRes} (hI : MInv g)
    (h : mstep fin p g.m (.tryLock t clk) = .ok (m', .tried r)) :
    r ≠ .wouldBlock ↔
      (g.m.sem.closed = false ∧ g.m.holder = none ∧ pend g.m.sem.table = 0) := by
  rw [mutex_try_succeeds_iff_available hI.fair h]
  constructor
  · rintro ⟨hc, ha⟩
    have hb := hI.bal hc
    cases hh : g.m.holder with
    | none => rw [hh] at hb; simp at hb; exact ⟨hc, rfl, by omega⟩
    | some x => rw [hh] at hb; simp at hb; omega
  · rintro ⟨hc, hh, hp⟩
    have hb := hI.bal hc
    rw [hh] at hb; simp at hb
    exact ⟨hc, by omega⟩

/-- C04/Mutex: a failed `try_lock` leaves the whole state unchanged -/
theorem mutex_failed_try_leaves_state {fin : Nat → Bool} {p : Bool} {m m' : MutexState} {t : Nat}
    {clk : Clock} (h : mstep fin p m (.tryLock t clk) = .ok (m', .tried .wouldBlock)) : m' = m := by
  rcases mutex_tryLock_cases h with ⟨s', pc, _, _, hout⟩ | ⟨e, _, hm, _⟩
  · simp only [MOut.tried.injEq] at hout
    exact absurd hout.symm (result_ne_wouldBlock m)
  · exact hm

/-! ### 5. re-entrancy -/

/-- C04/Mutex: `lock` by the holder panics with the documented message (the semaphore is open:
that is the enabling condition of `lockStart`) -/
theorem mutex_reentrant_diagnosed (fin : Nat → Bool) (p : Bool) {m : MutexState} {t : Nat}
    (clk : Clock) (hh : m.holder = some t) :
    mstep fin p m (.lockStart t clk) =
      .error s!"deadlock! task TaskId({t}) tried to acquire a Mutex it already holds" := by
  simp only [mstep, hh, beq_self_eq_true, if_true]
  rfl

/-- a re-entrant `try_lock` fails (in a reachable, not poisoned or poisoned, state) -/
theorem mutex_reentrant_try_fails {fin : Nat → Bool} {p : Bool} {g : MG} {m' : MutexState} {t : Nat}
    {clk : Clock} {r : LockRes} (hI : MInv g) (hh : g.m.holder = some t)
    (h : mstep fin p g.m (.tryLock t clk) = .ok (m', .tried r)) : r = .wouldBlock ∧ m' = g.m := by
  have hr : r = .wouldBlock := by
    apply Classical.byContradiction
    intro hne
    have := (mutex_try_succeeds_iff_free hI h).mp hne
    rw [hh] at this; cases this.2.1
  subst hr
  exact ⟨rfl, mutex_failed_try_leaves_state h⟩

/-! ### 6. poisoning -/

/-- C04/Mutex: a guard dropped while its thread is panicking (and that was not created during a
panic) poisons the lock: poison flag set, semaphore closed, wait queue emptied (F11: without
unblocking or waking anybody — the step has no kernel effects), nobody holds the lock -/
theorem mutex_poison_after_panicking_release {fin : Nat → Bool} {m m' : MutexState} {t : Nat}
    {clk : Clock} {out : MOut} (hi : Inv m.sem) (hgp : m.guardPanicking = false)
    (h : mstep fin true m (.unlock t clk) = .ok (m', out)) :
    m'.poisoned = true ∧ m'.sem.closed = true ∧ m'.sem.queue = [] ∧ m'.holder = none := by
  simp only [mstep] at h
  cases h1 : step fin m.sem (relOp true t 1 clk) with
  | error e => rw [h1] at h; cases h
  | ok o =>
    rw [h1] at h
    simp only [Except.ok.injEq, Prod.mk.injEq] at h
    obtain ⟨rfl, _⟩ := h
    obtain ⟨_, _, _, hp⟩ := relOp_spec hi (by omega) h1
    obtain ⟨h3, h4⟩ := hp rfl
    refine ⟨?_, h3, h4, rfl⟩
    simp [MutexState.dropGuard, hgp]

/-- F11: the poisoning release performs no kernel effect (queued waiters stay blocked) -/
theorem mutex_poison_release_no_effects {fin : Nat → Bool} {s : SemState} {t : Nat} {clk : Clock}
    {o : StepOut} (h : step fin s (relOp true t 1 clk) = .ok o) : o.effs = [] :=
  poisonRelease_effs (by simpa [relOp] using h)

/-- the poison flag and the `closed` flag are never reset -/
theorem mstep_poison_mono {fin : Nat → Bool} {p : Bool} {g : MG} {op : MOp} {m' : MutexState}
    {out : MOut} (hI : MInv g) (hen : MEnabled g op) (h : mstep fin p g.m op = .ok (m', out)) :
    (g.m.poisoned = true → m'.poisoned = true) ∧ (g.m.sem.closed = true → m'.sem.closed = true) := by
  obtain ⟨m, guards⟩ := g
  cases op with
  | lockStart t clk =>
    simp only [mstep] at h
    split at h
    · cases h
    · simp only [Except.ok.injEq, Prod.mk.injEq] at h
      obtain ⟨rfl, _⟩ := h
      exact ⟨id, id⟩
  | lockPoll t wid clk =>
    obtain ⟨w0, hw, hn⟩ := hen
    simp only at hw
    simp only [mstep] at h
    cases hpd : pollDrop fin m.sem t wid clk with
    | error e => rw [hpd] at h; cases h
    | ok r =>
      obtain ⟨s', r⟩ := r
      rw [hpd] at h
      obtain ⟨i1, hm, c1⟩ := pollDrop_spec hI.sem hw hpd
      cases r with
      | pending =>
        simp only [Except.ok.injEq, Prod.mk.injEq] at h
        obtain ⟨rfl, _⟩ := h
        exact ⟨id, hm⟩
      | ready b =>
        cases b with
        | false => cases h
        | true =>
          simp only at h
          split at h
          · cases h
          · simp only [Except.ok.injEq, Prod.mk.injEq] at h
            obtain ⟨rfl, _⟩ := h
            exact ⟨id, hm⟩
  | lockPoisoned t =>
    simp only [mstep] at h
    split at h
    · cases h
    · simp only [Except.ok.injEq, Prod.mk.injEq] at h
      obtain ⟨rfl, _⟩ := h
      exact ⟨id, id⟩
  | tryLock t clk =>
    rcases mutex_tryLock_cases h with ⟨s', pc, hacq, rfl, _⟩ | ⟨e, _, rfl, _⟩
    · refine ⟨id, fun hc => ?_⟩
      have := (acquirePermits_ok hacq).2.1
      have hc' : m.sem.closed = true := hc
      rw [hc'] at this; cases this
    · exact ⟨id, id⟩
  | unlock t clk =>
    simp only [mstep] at h
    cases h1 : step fin m.sem (relOp p t 1 clk) with
    | error e => rw [h1] at h; cases h
    | ok o =>
      rw [h1] at h
      simp only [Except.ok.injEq, Prod.mk.injEq] at h
      obtain ⟨rfl, _⟩ := h
      refine ⟨fun hp => ?_, step_closed_mono fin h1⟩
      have hp' : m.poisoned = true := hp
      simp [MutexState.dropGuard, hp']
  | write t v =>
    simp only [mstep, Except.ok.injEq, Prod.mk.injEq] at h
    obtain ⟨rfl, _⟩ := h
    exact ⟨id, id⟩

/-- finite runs of the LTS -/
inductive MSteps : MG → MG → Prop
  | refl (g : MG) : MSteps g g
  | step {g g1 : MG} {m' : MutexState} {out : MOut} (fin : Nat → Bool) (p : Bool) (op : MOp) :
      MSteps g g1 → MEnabled g1 op → mstep fin p g1.m op = .ok (m', out) →
      MSteps g { m := m', guards := mghost g1.guards op out }

theorem msteps_reach {g g' : MG} (hr : MReach g) (h : MSteps g g') : MReach g' := by
  induction h with
  | refl => exact hr
  | step fin p op _ hen hs ih => exact MReach.step fin p op ih hen hs

/-- once poisoned, poisoned (and closed) for ever -/
theorem mutex_poison_persistent {g g' : MG} (hr : MReach g) (h : MSteps g g')
    (hp : g.m.poisoned = true) (hc : g.m.sem.closed = true) :
    g'.m.poisoned = true ∧ g'.m.sem.closed = true := by
  induction h with
  | refl => exact ⟨hp, hc⟩
  | step fin p op hsteps hen hs ih =>
    have := mstep_poison_mono (mreach_inv (msteps_reach hr hsteps)) hen hs
    exact ⟨this.1 ih.1, this.2 ih.2⟩

/-- every `lock` that returns from a poisoned Mutex returns `Err(Poisoned)` -/
theorem mutex_lock_poisoned_result {fin : Nat → Bool} {p : Bool} {m m' : MutexState} {op : MOp}
    {r : LockRes} (hp : m.poisoned = true) (h : mstep fin p m op = .ok (m', .locked r)) :
    r = .poisoned m.value := by
  cases op with
  | lockStart t clk =>
    simp only [mstep] at h
    split at h
    · cases h
    · simp only [Except.ok.injEq, Prod.mk.injEq] at h
      obtain ⟨_, h2⟩ := h; cases h2
  | lockPoll t wid clk =>
    simp only [mstep] at h
    cases hpd : pollDrop fin m.sem t wid clk with
    | error e => rw [hpd] at h; cases h
    | ok r =>
      obtain ⟨s', r⟩ := r
      rw [hpd] at h
      cases r with
      | pending =>
        simp only [Except.ok.injEq, Prod.mk.injEq] at h
        obtain ⟨_, h2⟩ := h; cases h2
      | ready b =>
        cases b with
        | false => cases h
        | true =>
          simp only at h
          split at h
          · cases h
          · simp only [Except.ok.injEq, Prod.mk.injEq, MOut.locked.injEq] at h
            obtain ⟨_, rfl⟩ := h
            simp [MutexState.result, hp]
  | lockPoisoned t =>
    simp only [mstep] at h
    split at h
    · cases h
    · simp only [Except.ok.injEq, Prod.mk.injEq, MOut.locked.injEq] at h
      obtain ⟨_, rfl⟩ := h
      simp [MutexState.result, hp]
  | tryLock t clk =>
    rcases mutex_tryLock_cases h with ⟨_, _, _, _, h2⟩ | ⟨_, _, _, h2⟩ <;> cases h2
  | unlock t clk =>
    simp only [mstep] at h
    cases h1 : step fin m.sem (relOp p t 1 clk) with
    | error e => rw [h1] at h; cases h
    | ok o =>
      rw [h1] at h
      simp only [Except.ok.injEq, Prod.mk.injEq] at h
      obtain ⟨_, h2⟩ := h; cases h2
  | write t v =>
    simp only [mstep, Except.ok.injEq, Prod.mk.injEq] at h
    obtain ⟨_, h2⟩ := h; cases h2

/-- observation (model = shuttle, differs from std): `try_lock` on a poisoned Mutex returns
`WouldBlock` (the semaphore is closed), not `Err(Poisoned)` -/
theorem mutex_try_on_poisoned {fin : Nat → Bool} {p : Bool} {m m' : MutexState} {t : Nat}
    {clk : Clock} {out : MOut} (hc : m.sem.closed = true)
    (h : mstep fin p m (.tryLock t clk) = .ok (m', out)) : out = .tried .wouldBlock ∧ m' = m := by
  rcases mutex_tryLock_cases h with ⟨s', pc, hacq, _, _⟩ | ⟨e, _, hm, hout⟩
  · have := (acquirePermits_ok hacq).2.1
    rw [hc] at this; cases this
  · exact ⟨hout, hm⟩

/-- F12: on a poisoned Mutex that somebody holds, `lock` panics with the holder assertion -/
theorem mutex_lockPoisoned_held (fin : Nat → Bool) (p : Bool) {m : MutexState} (t : Nat)
    (hh : m.holder.isSome = true) :
    mstep fin p m (.lockPoisoned t) = .error "assertion failed: state.holder.is_none()" := by
  simp only [mstep, hh, if_true]
  rfl

/-! ### non-vacuity: a concrete run -/
namespace MutexExample

def nf : Nat → Bool := fun _ => false
def c0 : Clock := Clock.new
def w2a : Waiter := { wid := 1, taskId := 2, n := 1, clock := c0 }
def w2b : Waiter :=
  { wid := 1, taskId := 2, n := 1, clock := c0, isQueued := true, waker := some 2, neverPolled := false }
def w2c : Waiter :=
  { wid := 1, taskId := 2, n := 1, clock := c0, isQueued := false, waker := some 2, neverPolled := false }
/-- t1 has created its `Acquire` -/
def s1 : MutexState :=
  { sem := { fair := false, avail := 1, batches := none,
             table := [{ wid := 0, taskId := 1, n := 1, clock := c0 }], nextWid := 1 } }
/-- t1 holds the lock -/
def s2 : MutexState :=
  { sem := { fair := false, avail := 0, batches := some [], nextWid := 1 }, holder := some 1 }
/-- t2 has created its `Acquire` -/
def s3 : MutexState :=
  { s2 with sem := { s2.sem with table := [w2a], nextWid := 2 } }
/-- t2 has polled: `Pending`, queued -/
def s4 : MutexState :=
  { s2 with sem := { s2.sem with queue := [1], nextWid := 2, table := [w2b] } }
/-- t1 has dropped its guard: the permit is back, t2 still queued (unfair semaphore) -/
def s5 : MutexState :=
  { s4 with holder := none, sem := { s4.sem with avail := 1, batches := some [(1, c0)] } }
/-- t2 has polled again and holds the lock -/
def s6 : MutexState :=
  { sem := { fair := false, avail := 0, batches := some [], nextWid := 2 }, holder := some 2 }
/-- alternative: t1 dropped its guard while panicking -/
def s5p : MutexState :=
  { s5 with poisoned := true, sem := { s5.sem with closed := true, queue := [], table := [w2c] } }

theorem e1 : mstep nf false {} (.lockStart 1 c0) = .ok (s1, .started 0) := rfl
theorem e2 : mstep nf false s1 (.lockPoll 1 0 c0) = .ok (s2, .locked (.ok 0)) := rfl
theorem e3 : mstep nf false s2 (.lockStart 2 c0) = .ok (s3, .started 1) := rfl
theorem e4 : mstep nf false s3 (.lockPoll 2 1 c0) = .ok (s4, .pending) := rfl
theorem e5 : mstep nf false s4 (.unlock 1 c0) = .ok (s5, .unlocked) := rfl
theorem e6 : mstep nf false s5 (.lockPoll 2 1 c0) = .ok (s6, .locked (.ok 0)) := rfl
theorem e5p : mstep nf true s4 (.unlock 1 c0) = .ok (s5p, .unlocked) := rfl


theorem r1 : MReach ⟨s1, []⟩ := MReach.step nf false (.lockStart 1 c0) MReach.init rfl e1
theorem r2 : MReach ⟨s2, [1]⟩ := MReach.step nf false (.lockPoll 1 0 c0) r1 ⟨_, rfl, rfl⟩ e2
theorem r3 : MReach ⟨s3, [1]⟩ := MReach.step nf false (.lockStart 2 c0) r2 rfl e3
theorem r4 : MReach ⟨s4, [1]⟩ := MReach.step nf false (.lockPoll 2 1 c0) r3 ⟨_, rfl, rfl⟩ e4
theorem r5 : MReach ⟨s5, []⟩ :=
  MReach.step nf false (.unlock 1 c0) r4 (List.mem_singleton.mpr rfl) e5
theorem r6 : MReach ⟨s6, [2]⟩ := MReach.step nf false (.lockPoll 2 1 c0) r5 ⟨_, rfl, rfl⟩ e6
theorem r5p : MReach ⟨s5p, []⟩ :=
  MReach.step nf true (.unlock 1 c0) r4 (List.mem_singleton.mpr rfl) e5p

/-- non-vacuity of `mutex_exclusive` & co: t1 locks, t2 starts to lock and is queued, t1 unlocks,
t2 polls again and holds the lock -/
example : ∃ g, MReach g ∧ g.m.holder = some 2 ∧ g.guards = [2] ∧ g.m.sem.avail = 0 ∧
    g.m.sem.closed = false := ⟨_, r6, rfl, rfl, rfl, rfl⟩

/-- a reachable state with a held lock and a queued waiter -/
example : ∃ g, MReach g ∧ g.m.holder = some 1 ∧ g.m.sem.queue = [1] ∧ g.m.sem.closed = false :=
  ⟨_, r4, rfl, rfl, rfl⟩

/-- `try_lock` barges: in `s5` (free, t2 queued) a third task's `try_lock` succeeds -/
example : ∃ m', mstep nf false s5 (.tryLock 3 c0) = .ok (m', .tried (.ok 0)) ∧ m'.holder = some 3 :=
  ⟨_, rfl, rfl⟩

/-- `try_lock` while t1 holds the lock fails and changes nothing -/
example : mstep nf false s4 (.tryLock 3 c0) = .ok (s4, .tried .wouldBlock) := rfl

/-- re-entrant `lock` in the reachable state `s2` -/
example : mstep nf false s2 (.lockStart 1 c0) =
    .error s!"deadlock! task TaskId({1}) tried to acquire a Mutex it already holds" :=
  mutex_reentrant_diagnosed nf false c0 rfl

/-- poisoning: t1 drops its guard while panicking in `s4` -/
example : MReach ⟨s5p, []⟩ ∧ s5p.poisoned = true ∧ s5p.sem.closed = true ∧ s5p.sem.queue = [] ∧
    s5p.holder = none :=
  ⟨r5p, mutex_poison_after_panicking_release (mreach_inv r4).sem rfl e5p⟩

/-- … a later `lock` gets `Err(Poisoned)` -/
example : ∃ m', mstep nf false s5p (.lockPoisoned 3) = .ok (m', .locked (.poisoned 0)) ∧
    m'.holder = some 3 := ⟨_, rfl, rfl⟩
/-- … a later `try_lock` gets `WouldBlock` -/
example : mstep nf false s5p (.tryLock 3 c0) = .ok (s5p, .tried .wouldBlock) := rfl
/-- F11: t2, queued when the lock was poisoned, has been taken out of the queue without being
unblocked; if it ever polls again its `lock` panics in `unwrap()` -/
example : mstep nf false s5p (.lockPoll 2 1 c0) = .error unwrapErrMsg := rfl
/-- F12: a second `lock` on the poisoned Mutex while the first poisoned guard is alive -/
example : ∃ m', mstep nf false s5p (.lockPoisoned 3) = .ok (m', .locked (.poisoned 0)) ∧
    mstep nf false m' (.lockPoisoned 4) = .error "assertion failed: state.holder.is_none()" :=
  ⟨_, rfl, rfl⟩

end MutexExample

end LocksLts
end ShuttleModel
