import ShuttleProofs.Lemmas.KernelSchedule
/-!
# Kernel lemmas, part 3: a big-step relational semantics of `runSegment`

`SegStep S me o st st'`  — the effect of one executed kernel request `o` (of task `me`) that lets the segment
                           continue, abstracted to what the kernel-level properties need;
`SegHalt S me o kont st e` — request `o` ends the segment with `e`;
`SegTrace S me st p e`    — running program `p` from `st` ends with `e` (derivation = the list of requests
                           executed).
`runSegment_trace` : `SegTrace S me st p (runSegment S me fuel st p)` for every fuel, state and program.
This is the only place where the ~30 cases of `runSegment` are analysed.
-/

namespace ShuttleProofs.Kernel
open ShuttleModel

def isYield {U : Type} : {β : Type} → KOp U β → Bool
  | _, .requestYield => true
  | _, _ => false

def isReset {U : Type} : {β : Type} → KOp U β → Bool
  | _, .resetSteps => true
  | _, _ => false

def isSwitch {U : Type} : {β : Type} → KOp U β → Bool
  | _, .switch => true
  | _, _ => false

/-- requests that touch neither `has_yielded`, `steps_reset_at`, the schedule nor the scheduler (and are not
the scheduling point itself) -/
def Quiet {U : Type} {β : Type} (o : KOp U β) : Prop :=
  isYield o = false ∧ isReset o = false ∧ isSwitch o = false

variable {P : Program} {σ : Type}

def _root_.ShuttleModel.SegEnd.st : SegEnd P σ → ExecState P σ
  | .atSwitch st => st
  | .returned st => st
  | .panicked _ st => st
  | .schedPanic _ st => st
  | .outOfFuel st => st
  | .aborted _ st => st

/-- the kernel after `CurrentSchedule::push_random()` -/
def pushRandom (k : Kernel) : Kernel := { k with schedRev := .random :: k.schedRev }

inductive SegStep (S : Scheduler σ) (me : Nat) :
    {β : Type} → KOp P.U β → ExecState P σ → ExecState P σ → Prop
  | nop {β : Type} (o : KOp P.U β) (st : ExecState P σ) : Quiet o → SegStep S me o st st
  | setU {β : Type} (o : KOp P.U β) (st : ExecState P σ) (u : P.U) : Quiet o →
      SegStep S me o st { st with u := u }
  | obs {β : Type} (o : KOp P.U β) (st : ExecState P σ) (s : String) : Quiet o →
      SegStep S me o st { st with log := st.log.push (.obs s) }
  /-- some task's fields were updated (the number of tasks is unchanged) -/
  | tasks {β : Type} (o : KOp P.U β) (st : ExecState P σ) (ts : List Task) : Quiet o →
      ts.length = st.k.tasks.length →
      SegStep S me o st { st with k := { st.k with tasks := ts } }
  | yield (st : ExecState P σ) :
      SegStep S me .requestYield st { st with k := { st.k with hasYielded := true } }
  | reset (st : ExecState P σ) :
      SegStep S me .resetSteps st { st with k := { st.k with stepsResetAt := st.k.schedLen } }
  | rand (st : ExecState P σ) (v : Nat) (s' : σ) : S.nextU64 st.sch = (.ok v, s') →
      SegStep S me .rand st { st with k := pushRandom st.k, sch := s', log := st.log.push (.draw v) }
  | spawn (st : ExecState P σ) (fut : Bool) (body : Nat) :
      SegStep S me (.spawn fut body) st
        { st with k := (st.k.spawnTask (some me)).2, conts := st.conts ++ [P.bodies body] }

inductive SegHalt (S : Scheduler σ) (me : Nat) :
    {β : Type} → KOp P.U β → (β → Prog P.U Unit) → ExecState P σ → SegEnd P σ → Prop
  | switch (kont : Unit → Prog P.U Unit) (st : ExecState P σ) :
      SegHalt S me .switch kont st (.atSwitch { st with conts := st.conts.set me (kont ()) })
  | panicked {β : Type} (o : KOp P.U β) (kont : β → Prog P.U Unit) (st : ExecState P σ) (msg : String) :
      SegHalt S me o kont st (.panicked msg st)
  | randFail (kont : Nat → Prog P.U Unit) (st : ExecState P σ) (e : String) (s' : σ) :
      S.nextU64 st.sch = (.error e, s') →
      SegHalt S me .rand kont st (.schedPanic e { st with k := pushRandom st.k, sch := s' })

inductive SegTrace (S : Scheduler σ) (me : Nat) : ExecState P σ → Prog P.U Unit → SegEnd P σ → Prop
  | fuel (st : ExecState P σ) (p : Prog P.U Unit) :
      SegTrace S me st p (.outOfFuel { st with conts := st.conts.set me p })
  /-- the closure returned (and this task is not the one unwinding) -/
  | ret (st : ExecState P σ) :
      SegTrace S me st (.pure ()) (.returned { st with conts := st.conts.set me (.pure ()) })
  /-- an unwinding task has run all its destructors: its panic reaches `catch_unwind` -/
  | retPanicking (st : ExecState P σ) (msg : String) : SegTrace S me st (.pure ()) (.panicked msg st)
  /-- panic in a destructor during this task's own unwinding -/
  | abort (st : ExecState P σ) (msg : String) : SegTrace S me st (.panic msg) (.aborted msg st)
  /-- a panic starts unwinding: the panic bookkeeping (`panicking`, `alsoPanicking`) is updated and the task
  goes on with its destructors `P.unwind me` -/
  | unwind (st : ExecState P σ) (msg : String) (pk : Option (Nat × String)) (apk : List (Nat × String))
      (e : SegEnd P σ) :
      SegTrace S me { st with k := { st.k with panicking := pk, alsoPanicking := apk } } (P.unwind me) e →
      SegTrace S me st (.panic msg) e
  | halt {β : Type} (o : KOp P.U β) (kont : β → Prog P.U Unit) (st : ExecState P σ) (e : SegEnd P σ) :
      SegHalt S me o kont st e → SegTrace S me st (.op o kont) e
  | step {β : Type} (o : KOp P.U β) (kont : β → Prog P.U Unit) (st st' : ExecState P σ) (b : β)
      (e : SegEnd P σ) :
      SegStep S me o st st' → SegTrace S me st' (kont b) e → SegTrace S me st (.op o kont) e

theorem SegStep.not_switch {S : Scheduler σ} {me : Nat} {β : Type} {o : KOp P.U β} {st st' : ExecState P σ}
    (h : SegStep S me o st st') : isSwitch o = false := by
  cases h with
  | nop _ _ hq => exact hq.2.2
  | setU _ _ _ hq => exact hq.2.2
  | obs _ _ _ hq => exact hq.2.2
  | tasks _ _ _ hq _ => exact hq.2.2
  | yield _ => rfl
  | reset _ => rfl
  | rand _ _ _ _ => rfl
  | spawn _ _ _ => rfl

/-! ### `modTask` / `setTask` / `spawnTask` -/

theorem modTask_ok {k k' : Kernel} {t : Nat} {f : Task → Except String Task}
    (h : k.modTask t f = .ok k') :
    ∃ tk tk', k.tasks[t]? = some tk ∧ f tk = .ok tk' ∧ k' = k.setTask t tk' := by
  unfold Kernel.modTask Kernel.getTask? at h
  cases hg : k.tasks[t]? with
  | none => rw [hg] at h; cases h
  | some tk =>
    rw [hg] at h
    simp only at h
    cases hf : f tk with
    | error e => rw [hf] at h; cases h
    | ok tk' =>
      rw [hf] at h
      simp only [Except.ok.injEq] at h
      exact ⟨tk, tk', rfl, hf, h.symm⟩

theorem setTask_eq (k : Kernel) (t : Nat) (tk : Task) :
    k.setTask t tk = { k with tasks := k.tasks.set t tk } := rfl

/-! ### one request -/

/-- what one request does: either the segment continues from a `SegStep`-related state, or it halts -/
def OpOutcome (S : Scheduler σ) (me fuel : Nat) (st : ExecState P σ) {β : Type} (o : KOp P.U β)
    (kont : β → Prog P.U Unit) (e : SegEnd P σ) : Prop :=
  (∃ b st', SegStep S me o st st' ∧ e = runSegment S me fuel st' (kont b)) ∨ SegHalt S me o kont st e

theorem onTask_outcome (S : Scheduler σ) (me fuel : Nat) (st : ExecState P σ) {β : Type} (o : KOp P.U β)
    (hq : Quiet o) (kont : β → Prog P.U Unit) (b : β) (t : Nat) (f : Task → Except String Task) :
    OpOutcome S me fuel st o kont
      (match st.k.modTask t f with
        | .ok k' => runSegment S me fuel { st with k := k' } (kont b)
        | .error e => SegEnd.panicked e st) := by
  cases h : st.k.modTask t f with
  | error e => exact Or.inr (SegHalt.panicked o kont st e)
  | ok k' =>
    obtain ⟨tk, tk', _, _, rfl⟩ := modTask_ok h
    refine Or.inl ⟨b, _, SegStep.tasks o st (st.k.tasks.set t tk') hq (by simp), rfl⟩

theorem setTask_outcome (S : Scheduler σ) (me fuel : Nat) (st : ExecState P σ) {β : Type} (o : KOp P.U β)
    (hq : Quiet o) (kont : β → Prog P.U Unit) (b : β) (t : Nat) (tk : Task) :
    OpOutcome S me fuel st o kont (runSegment S me fuel { st with k := st.k.setTask t tk } (kont b)) :=
  Or.inl ⟨b, _, SegStep.tasks o st (st.k.tasks.set t tk) hq (by simp), rfl⟩

theorem nop_outcome (S : Scheduler σ) (me fuel : Nat) (st : ExecState P σ) {β : Type} (o : KOp P.U β)
    (hq : Quiet o) (kont : β → Prog P.U Unit) (b : β) :
    OpOutcome S me fuel st o kont (runSegment S me fuel st (kont b)) :=
  Or.inl ⟨b, st, SegStep.nop o st hq, rfl⟩

theorem runSegment_op (S : Scheduler σ) (me fuel : Nat) (st : ExecState P σ) {β : Type} (o : KOp P.U β)
    (kont : β → Prog P.U Unit) :
    OpOutcome S me fuel st o kont (runSegment S me (fuel + 1) st (.op o kont)) := by
  have q : ∀ {γ : Type} (o : KOp P.U γ), isYield o = false → isReset o = false → isSwitch o = false →
      Quiet o := fun _ h1 h2 h3 => ⟨h1, h2, h3⟩
  cases o with
  | switch => rw [runSegment]; exact Or.inr (SegHalt.switch kont st)
  | me => rw [runSegment]; exact nop_outcome S me fuel st _ (q _ rfl rfl rfl) kont _
  | getU => rw [runSegment]; exact nop_outcome S me fuel st _ (q _ rfl rfl rfl) kont _
  | setU u => rw [runSegment]; exact Or.inl ⟨(), _, SegStep.setU _ st u (q _ rfl rfl rfl), rfl⟩
  | emit s => rw [runSegment]; exact Or.inl ⟨(), _, SegStep.obs _ st s (q _ rfl rfl rfl), rfl⟩
  | block sp => rw [runSegment]; exact onTask_outcome S me fuel st _ (q _ rfl rfl rfl) kont () _ _
  | blockTask t => rw [runSegment]; exact onTask_outcome S me fuel st _ (q _ rfl rfl rfl) kont () _ _
  | sleepUnlessWoken => rw [runSegment]; exact onTask_outcome S me fuel st _ (q _ rfl rfl rfl) kont () _ _
  | unblock t => rw [runSegment]; exact onTask_outcome S me fuel st _ (q _ rfl rfl rfl) kont () _ _
  | wake t =>
    rw [runSegment]
    split
    · exact nop_outcome S me fuel st _ (q _ rfl rfl rfl) kont _
    · split
      · exact Or.inr (SegHalt.panicked _ kont st _)
      · split
        · exact nop_outcome S me fuel st _ (q _ rfl rfl rfl) kont _
        · exact onTask_outcome S me fuel st _ (q _ rfl rfl rfl) kont () _ _
  | isFinished t => rw [runSegment]; exact nop_outcome S me fuel st _ (q _ rfl rfl rfl) kont _
  | requestYield => rw [runSegment]; exact Or.inl ⟨(), _, SegStep.yield st, rfl⟩
  | rand =>
    rw [runSegment]
    rcases h : S.nextU64 st.sch with ⟨r, s'⟩
    cases r with
    | ok v => exact Or.inl ⟨v, _, SegStep.rand st v s' h, rfl⟩
    | error e => exact Or.inr (SegHalt.randFail kont st e s' h)
  | spawn fut body => rw [runSegment]; exact Or.inl ⟨_, _, SegStep.spawn st fut body, rfl⟩
  | park =>
    rw [runSegment]
    split
    · exact Or.inr (SegHalt.panicked _ kont st _)
    · split
      · exact setTask_outcome S me fuel st _ (q _ rfl rfl rfl) kont _ _ _
      · exact Or.inr (SegHalt.panicked _ kont st _)
  | unpark t => rw [runSegment]; exact onTask_outcome S me fuel st _ (q _ rfl rfl rfl) kont () _ _
  | setWaiter target =>
    rw [runSegment]
    split
    · exact Or.inr (SegHalt.panicked _ kont st _)
    · split
      · exact setTask_outcome S me fuel st _ (q _ rfl rfl rfl) kont _ _ _
      · exact Or.inr (SegHalt.panicked _ kont st _)
  | takeWaiter =>
    rw [runSegment]
    split
    · exact Or.inr (SegHalt.panicked _ kont st _)
    · exact setTask_outcome S me fuel st _ (q _ rfl rfl rfl) kont _ _ _
  | detach t => rw [runSegment]; exact onTask_outcome S me fuel st _ (q _ rfl rfl rfl) kont () _ _
  | clock => rw [runSegment]; exact nop_outcome S me fuel st _ (q _ rfl rfl rfl) kont _
  | clockOf t => rw [runSegment]; exact nop_outcome S me fuel st _ (q _ rfl rfl rfl) kont _
  | updateClock c => rw [runSegment]; exact onTask_outcome S me fuel st _ (q _ rfl rfl rfl) kont () _ _
  | incClock =>
    rw [runSegment]
    split
    · exact Or.inr (SegHalt.panicked _ kont st _)
    · exact setTask_outcome S me fuel st _ (q _ rfl rfl rfl) kont _ _ _
  | joinClockOf t c => rw [runSegment]; exact onTask_outcome S me fuel st _ (q _ rfl rfl rfl) kont () _ _
  | exitTruncates => rw [runSegment]; exact nop_outcome S me fuel st _ (q _ rfl rfl rfl) kont _
  | resetSteps => rw [runSegment]; exact Or.inl ⟨(), _, SegStep.reset st, rfl⟩
  | ctxSwitches => rw [runSegment]; exact nop_outcome S me fuel st _ (q _ rfl rfl rfl) kont _
  | isPanicking => rw [runSegment]; exact nop_outcome S me fuel st _ (q _ rfl rfl rfl) kont _

/-- **Soundness of the relational semantics.** -/
theorem runSegment_trace (S : Scheduler σ) (me : Nat) :
    ∀ (fuel : Nat) (st : ExecState P σ) (p : Prog P.U Unit), SegTrace S me st p (runSegment S me fuel st p)
  | 0, st, p => by rw [runSegment]; exact SegTrace.fuel st p
  | fuel + 1, st, .pure () => by
    rw [runSegment]
    repeat' split
    all_goals first | exact SegTrace.ret st | exact SegTrace.retPanicking st _
  | fuel + 1, st, .panic msg => by
    rw [runSegment]
    split
    · split
      · exact SegTrace.abort st msg
      · exact SegTrace.unwind st msg st.k.panicking _ _ (runSegment_trace S me fuel _ (P.unwind me))
    · exact SegTrace.unwind st msg _ st.k.alsoPanicking _ (runSegment_trace S me fuel _ (P.unwind me))
  | fuel + 1, st, .op o kont => by
    rcases runSegment_op S me fuel st o kont with ⟨b, st', hs, he⟩ | hh
    · rw [he]
      exact SegTrace.step o kont st st' b _ hs (runSegment_trace S me fuel st' (kont b))
    · exact SegTrace.halt o kont st _ hh

end ShuttleProofs.Kernel
