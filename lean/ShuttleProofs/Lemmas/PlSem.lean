import ShuttleModel.Wrap.PlLocks
/-
  Lemmas about the pure strictly fair semaphore `FSem` (ShuttleModel/Wrap/PlLocks.lean) and about
  sums over the phase list of the most-general client.
-/
namespace ShuttleProofs.Pl
open ShuttleModel

/-- total number of permits requested by a list of `(task, n)` entries -/
def reqSum : List (Nat × Nat) → Nat
  | [] => 0
  | (_, n) :: q => n + reqSum q

theorem grant_spec (q : List (Nat × Nat)) (a : Nat) :
    q = (FSem.grant q a).1 ++ (FSem.grant q a).2.1 ∧
    (FSem.grant q a).2.2 + reqSum (FSem.grant q a).1 = a := by
  induction q generalizing a with
  | nil => simp [FSem.grant, reqSum]
  | cons e q ih =>
    obtain ⟨t, n⟩ := e
    unfold FSem.grant
    by_cases h : n ≤ a
    · have := ih (a - n)
      simp only [h, if_true, reqSum]
      constructor
      · simp only [List.cons_append]; congr 1; exact this.1
      · omega
    · simp [h, reqSum]

/-- a request that is granted fits into what is available -/
theorem grant_head_le (t n : Nat) (q : List (Nat × Nat)) (a : Nat)
    (h : (t, n) ∈ (FSem.grant q a).1) : n ≤ a := by
  induction q generalizing a with
  | nil => simp [FSem.grant] at h
  | cons e q ih =>
    obtain ⟨t', n'⟩ := e
    unfold FSem.grant at h
    by_cases h' : n' ≤ a
    · simp only [h', if_true, List.mem_cons, Prod.mk.injEq] at h
      rcases h with ⟨_, rfl⟩ | h
      · exact h'
      · have := ih (a - n') h; omega
    · simp [h'] at h

/-- nothing is granted when the head of the queue does not fit -/
theorem grant_blocked (t n : Nat) (q : List (Nat × Nat)) (a : Nat) (h : ¬ n ≤ a) :
    FSem.grant ((t, n) :: q) a = ([], (t, n) :: q, a) := by
  simp [FSem.grant, h]

/-- sum of `f` over the phases of all tasks -/
def total (f : PlPhase → Nat) (ph : List PlPhase) : Nat := (ph.map f).sum

theorem total_set (f : PlPhase → Nat) (ph : List PlPhase) (t : Nat) (p : PlPhase) (h : t < ph.length) :
    total f (ph.set t p) + f ((ph[t]?).getD .idle) = total f ph + f p := by
  induction ph generalizing t with
  | nil => simp at h
  | cons x xs ih =>
    cases t with
    | zero => simp [total]; omega
    | succ t =>
      have := ih t (by simpa using h)
      simp [total] at this ⊢
      omega

theorem total_ge (f : PlPhase → Nat) (ph : List PlPhase) (t : Nat) (h : t < ph.length) :
    f ((ph[t]?).getD .idle) ≤ total f ph := by
  induction ph generalizing t with
  | nil => simp at h
  | cons x xs ih =>
    cases t with
    | zero => simp [total]
    | succ t =>
      have := ih t (by simpa using h)
      simp [total] at this ⊢
      omega

theorem total_ge_two (f : PlPhase → Nat) (ph : List PlPhase) (t u : Nat) (ht : t < ph.length)
    (hu : u < ph.length) (hne : t ≠ u) :
    f ((ph[t]?).getD .idle) + f ((ph[u]?).getD .idle) ≤ total f ph := by
  induction ph generalizing t u with
  | nil => simp at ht
  | cons x xs ih =>
    cases t with
    | zero =>
      cases u with
      | zero => exact absurd rfl hne
      | succ u =>
        have := total_ge f xs u (by simpa using hu)
        simp [total] at this ⊢
        omega
    | succ t =>
      cases u with
      | zero =>
        have := total_ge f xs t (by simpa using ht)
        simp [total] at this ⊢
        omega
      | succ u =>
        have := ih t u (by simpa using ht) (by simpa using hu) (by omega)
        simp [total] at this ⊢
        omega

end ShuttleProofs.Pl
