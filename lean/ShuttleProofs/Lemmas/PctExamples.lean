import ShuttleProofs.Lemmas.PctRun

/-!
# Concrete scheduler states used by the non-vacuity examples of `ShuttleProofs.C11`

All of them are computed by running the model itself (`newFromSeed 42 3 10`, then `newExecution` / `nextTask` calls).
-/

namespace ShuttleProofs.Pct
open ShuttleModel ShuttleModel.Pct

/-- `next_task` on an optional state; `none` if the model panics. -/
def stepOk (s : Option PctState) (r : List Nat) (cur : Option Nat) (y : Bool) : Option PctState :=
  match s with
  | none => none
  | some s =>
    match nextTask s r cur y with
    | .ok _ s' => some s'
    | .panic _ => none

/-- `new_execution` on an optional state; `none` if it returns `None` or panics. -/
def execOk (s : Option PctState) : Option PctState :=
  match s with
  | none => none
  | some s =>
    match newExecution s with
    | .some _ s' => some s'
    | _ => none

/-- `PctScheduler::new_from_seed(42, 3, 10)`. -/
def ex0 : PctState := PctState.newFromSeed 42 3 10

/-- First execution (iteration 1, identity priorities): main spawns tasks 1, 2; three multi-choice decisions, one of
    them with `is_yielding`. -/
def exFirst : Option PctState :=
  let s := execOk (some ex0)
  let s := stepOk s [0] none false
  let s := stepOk s [0, 1] (some 0) false
  let s := stepOk s [0, 1, 2] (some 0) false
  let s := stepOk s [1, 2] (some 0) true
  stepOk s [2] (some 1) false

/-- Start of the second execution: priorities shuffled, change points `[2, 1]` sampled from `max_steps = 3`. -/
def exSecond : Option PctState := execOk exFirst

/-- Two decisions into the second execution; the first offers the unknown tasks 16 and 17 (both inserted by a swap),
    the second is at `steps = 1`, a change point, so `current = 0` is demoted. -/
def exSecond1 : Option PctState := stepOk exSecond [0, 1, 17] (some 0) false
def exSecond2 : Option PctState := stepOk exSecond1 [0, 1, 17] (some 0) false

end ShuttleProofs.Pct

namespace ShuttleProofs.Pct
open ShuttleModel ShuttleModel.Pct

/-- The same states as plain `PctState`s (the `getD` default is never used: the examples check `exX = some exXS`). -/
def exFirstS : PctState := exFirst.getD ex0
def exSecondS : PctState := exSecond.getD ex0
def exSecond1S : PctState := exSecond1.getD ex0
def exSecond2S : PctState := exSecond2.getD ex0

end ShuttleProofs.Pct

namespace ShuttleProofs.Pct
open ShuttleModel ShuttleModel.Pct

/-- The bodies of the two executions above as call lists (for the run-level theorems). -/
def exBody1 : List Call :=
  [.task [0] none false, .task [0, 1] (some 0) false, .task [0, 1, 2] (some 0) false,
   .task [1, 2] (some 0) true, .u64, .task [2] (some 1) false]
def exBody2 : List Call :=
  [.task [0, 1, 17] (some 0) false, .task [0, 1, 17] (some 0) false]

/-- A scheduler that ran one execution without any multi-choice decision (`max_steps = 0`). -/
def exNoConc : PctState := (stepOk (execOk (some ex0)) [0] none false).getD ex0

end ShuttleProofs.Pct
