/-
  Helper lemmas for C10 (`choose_uniform`, `every_offered_positive`, `choose_history_free`):
  the exact acceptance set of the widening-multiply rejection sampler of rand 0.8
  (`UniformInt::sample_single_inclusive`) and its connection to the executable `genIndex`.
-/
import ShuttleModel.Rng
import Mathlib.Order.Interval.Finset.Nat

namespace ShuttleProofs.Rng
open ShuttleModel.Rng

/-! ## Arithmetic of the acceptance zone (generic in the word size `B = 2^bits`) -/

theorem leadingZeros_spec {bits n : Nat} (hn : 0 < n) (hlt : n < 2 ^ bits) :
    n * 2 ^ leadingZeros bits n < 2 ^ bits ∧ 2 ^ bits ≤ 2 * (n * 2 ^ leadingZeros bits n) := by
  have hne : n ≠ 0 := Nat.pos_iff_ne_zero.mp hn
  have h1 : 2 ^ Nat.log2 n ≤ n := Nat.log2_self_le hne
  have h2 : n < 2 ^ (Nat.log2 n + 1) := Nat.lt_log2_self
  have h3 : Nat.log2 n < bits := (Nat.log2_lt hne).2 hlt
  unfold leadingZeros
  generalize Nat.log2 n = l at *
  obtain ⟨d, rfl⟩ : ∃ d, bits = l + 1 + d := ⟨bits - (l + 1), by omega⟩
  have hd : l + 1 + d - (l + 1) = d := by omega
  rw [hd, Nat.pow_add]
  have hp : 0 < 2 ^ d := Nat.two_pow_pos _
  constructor
  · exact (Nat.mul_lt_mul_right hp).2 h2
  · have : 2 ^ (l + 1) = 2 * 2 ^ l := by rw [Nat.pow_succ, Nat.mul_comm]
    rw [this, Nat.mul_assoc]
    exact Nat.mul_le_mul_left 2 (Nat.mul_le_mul_right _ h1)

/-- `zone = range * 2^leading_zeros - 1`: the shift does not overflow and the `wrapping_sub`
    does not wrap. -/
theorem zoneSingle_eq {bits n : Nat} (hn : 0 < n) (hlt : n < 2 ^ bits) :
    zoneSingle bits n = n * 2 ^ leadingZeros bits n - 1 := by
  obtain ⟨h1, _⟩ := leadingZeros_spec hn hlt
  have hpos : 0 < n * 2 ^ leadingZeros bits n := Nat.mul_pos hn (Nat.two_pow_pos _)
  unfold zoneSingle
  simp only [Nat.shiftLeft_eq]
  generalize n * 2 ^ leadingZeros bits n = x at *
  generalize 2 ^ bits = B at *
  rw [Nat.mod_eq_of_lt h1]
  have : x + B - 1 = (x - 1) + B := by omega
  rw [this, Nat.add_mod_right, Nat.mod_eq_of_lt (by omega)]

theorem le_mul_iff_ceil {a n v : Nat} (hn : 0 < n) : a ≤ v * n ↔ (a + n - 1) / n ≤ v := by
  have h := Nat.div_lt_iff_lt_mul hn (x := a + n - 1) (y := v + 1)
  rw [Nat.succ_mul] at h
  generalize (a + n - 1) / n = c at *
  omega

theorem mul_lt_iff_ceil {a n L v : Nat} (hn : 0 < n) :
    v * n < a + n * L ↔ v < (a + n - 1) / n + L := by
  rcases Nat.lt_or_ge v L with h | h
  · have : v * n < L * n := (Nat.mul_lt_mul_right hn).2 h
    rw [Nat.mul_comm n L]
    generalize (a + n - 1) / n = c
    constructor <;> intro _ <;> omega
  · obtain ⟨w, rfl⟩ := Nat.exists_eq_add_of_le h
    have := le_mul_iff_ceil (a := a) (v := w) hn
    rw [Nat.add_mul, Nat.mul_comm n L]
    generalize (a + n - 1) / n = c at *
    omega

theorem div_mod_window {B m i z : Nat} (hz : z ≤ B) (hzp : 0 < z) :
    (m % B ≤ z - 1 ∧ m / B = i) ↔ (i * B ≤ m ∧ m < i * B + z) := by
  have hB : 0 < B := Nat.lt_of_lt_of_le hzp hz
  have e := Nat.div_add_mod m B
  have r := Nat.mod_lt m hB
  generalize m / B = q at *
  generalize m % B = r at *
  rw [Nat.mul_comm i B]
  constructor
  · rintro ⟨h1, rfl⟩
    omega
  · rintro ⟨h1, h2⟩
    have hq : q = i := by
      rcases Nat.lt_trichotomy q i with h | h | h
      · have := Nat.mul_le_mul_left B (Nat.succ_le_of_lt h)
        rw [Nat.mul_succ] at this
        omega
      · exact h
      · have := Nat.mul_le_mul_left B (Nat.succ_le_of_lt h)
        rw [Nat.mul_succ] at this
        omega
    subst hq
    omega

/-- The exact acceptance window of one rejection-loop iteration: with `zone = n·L − 1`
    (`n·L ≤ B`), the raw draws mapped to index `i` are exactly the `L` consecutive values
    starting at `⌈i·B / n⌉`. -/
theorem wmulStep_eq_some_iff {B n L i v : Nat} (hn : 0 < n) (hL : 0 < L) (hz : n * L ≤ B) :
    wmulStep B n (n * L - 1) v = some i ↔
      (i * B + n - 1) / n ≤ v ∧ v < (i * B + n - 1) / n + L := by
  unfold wmulStep
  simp only [Option.ite_none_right_eq_some, Option.some.injEq]
  rw [div_mod_window hz (Nat.mul_pos hn hL), le_mul_iff_ceil hn, mul_lt_iff_ceil hn]

theorem window_le {B n L i : Nat} (hn : 0 < n) (hz : n * L ≤ B) (hi : i < n) :
    (i * B + n - 1) / n + L ≤ B := by
  apply Nat.le_of_not_lt
  rw [← mul_lt_iff_ceil hn]
  have : (i + 1) * B ≤ n * B := Nat.mul_le_mul_right B hi
  rw [Nat.succ_mul] at this
  rw [Nat.mul_comm B n]
  omega

theorem wmulStep_filter_eq {B n L i : Nat} (hn : 0 < n) (hL : 0 < L) (hz : n * L ≤ B)
    (hi : i < n) :
    (Finset.range B).filter (fun v => wmulStep B n (n * L - 1) v = some i)
      = Finset.Ico ((i * B + n - 1) / n) ((i * B + n - 1) / n + L) := by
  ext v
  have := window_le hn hz hi
  simp only [Finset.mem_filter, Finset.mem_range, Finset.mem_Ico, wmulStep_eq_some_iff hn hL hz]
  omega

/-- Every index `i < n` is hit by exactly `L` raw draws. -/
theorem wmulStep_card {B n L i : Nat} (hn : 0 < n) (hL : 0 < L) (hz : n * L ≤ B) (hi : i < n) :
    ((Finset.range B).filter (fun v => wmulStep B n (n * L - 1) v = some i)).card = L := by
  rw [wmulStep_filter_eq hn hL hz hi, Nat.card_Ico]
  omega

/-- An accepted draw yields an in-range index. -/
theorem wmulStep_lt {B n zone v i : Nat} (hn : 0 < n) (hv : v < B)
    (h : wmulStep B n zone v = some i) : i < n := by
  unfold wmulStep at h
  simp only [Option.ite_none_right_eq_some, Option.some.injEq] at h
  obtain ⟨_, rfl⟩ := h
  rw [Nat.div_lt_iff_lt_mul (by omega), Nat.mul_comm n B]
  exact (Nat.mul_lt_mul_right hn).2 hv

end ShuttleProofs.Rng
