import ShuttleProofs.Lemmas.ChanSteps
/-
  C06 — the inductive invariant of the channel LTS.
-/
namespace ShuttleModel.C06
open ShuttleModel

theorem not_mustBlock {s : ChanState} (h : s.senderMustBlock = false) :
    (∀ k, s.bound = some k → (k = 0 → s.messages = []) ∧ (0 < k → s.messages.length < k)) ∧
    s.waitingSenders = [] ∧ (s.bound = some 0 → s.waitingReceivers ≠ []) := by
  have := senderMustBlock_iff s
  rw [h] at this
  simp at this
  refine ⟨fun b hb => ?_, this.2.1, this.2.2⟩
  have := this.1 b hb
  constructor
  · intro h0; subst h0; simp at this; exact this
  · intro h0; omega

/-- the inductive invariant -/
structure Inv (c : Cfg) : Prop where
  ws_nodup : c.ch.waitingSenders.Nodup
  wr_le : c.ch.waitingReceivers.length ≤ 1
  disj : ∀ t ∈ c.ch.waitingSenders, t ∉ c.ch.waitingReceivers
  ub_sub : ∀ t ∈ c.ub, t ∈ c.ch.waitingSenders ∨ t ∈ c.ch.waitingReceivers
  /-- unbounded channels never have waiting senders -/
  unb : c.ch.bound = none → c.ch.waitingSenders = [] ∧ c.ch.receiverClock = none
  /-- `receiver_clock` holds one clock per free slot -/
  rc : ∀ k, c.ch.bound = some k →
    ∃ l, c.ch.receiverClock = some l ∧ (0 < k → l.length + c.ch.messages.length = k)
  /-- rendezvous: a message is in the buffer only while the waiting receiver has been unblocked to
  take it -/
  rdv : c.ch.bound = some 0 → c.ch.messages.length ≤ 1 ∧
    (c.ch.messages ≠ [] → ∃ r, c.ch.waitingReceivers = [r] ∧ r ∈ c.ub)
  /-- only the head of the sender queue is ever unblocked while a receiver exists … -/
  sub_head : c.ch.knownReceivers ≠ 0 → ∀ t ∈ c.ub, t ∈ c.ch.waitingSenders →
    c.ch.waitingSenders.head? = some t
  /-- … and then a slot (rendezvous: a waiting receiver) is reserved for it -/
  sub_room : c.ch.knownReceivers ≠ 0 → ∀ t ∈ c.ub, t ∈ c.ch.waitingSenders → ∀ k, c.ch.bound = some k →
    (0 < k → c.ch.messages.length < k) ∧ (k = 0 → c.ch.messages = [] ∧ c.ch.waitingReceivers ≠ [])
  /-- a receiver is unblocked only for a message or for disconnection -/
  rub : ∀ r ∈ c.ub, r ∈ c.ch.waitingReceivers → c.ch.messages ≠ [] ∨ c.ch.knownSenders = 0
  /-- endpoint counts -/
  ks_ge : c.liveS ≤ c.ch.knownSenders
  kr_ge : c.liveR = true → 1 ≤ c.ch.knownReceivers
  kr_le : c.ch.knownReceivers ≤ 1
  ws_live : c.ch.waitingSenders ≠ [] → 1 ≤ c.liveS
  wr_live : c.ch.waitingReceivers ≠ [] → c.liveR = true
  exact : c.skipped = false → c.ch.knownSenders = c.liveS ∧ (c.liveR = false → c.ch.knownReceivers = 0)
  /-- no stranded waiter -/
  ns_space : c.ch.knownReceivers ≠ 0 → ∀ k, c.ch.bound = some k → 0 < k → c.ch.messages.length < k →
    ∀ h, c.ch.waitingSenders.head? = some h → h ∈ c.ub
  ns_rdv : c.ch.knownReceivers ≠ 0 → c.ch.bound = some 0 → c.ch.messages = [] →
    c.ch.waitingReceivers ≠ [] → ∀ h, c.ch.waitingSenders.head? = some h → h ∈ c.ub
  ns_msg : c.ch.messages ≠ [] → ∀ r, c.ch.waitingReceivers.head? = some r → r ∈ c.ub
  ns_noR : c.ch.knownReceivers = 0 → ∀ t ∈ c.ch.waitingSenders, t ∈ c.ub
  ns_noS : c.ch.knownSenders = 0 → ∀ r ∈ c.ch.waitingReceivers, r ∈ c.ub
  /-- FIFO bookkeeping -/
  fifo : c.sent.map (·.2) = c.received ++ c.ch.messages.map (·.1)

theorem inv_init (b : Option Nat) : Inv (Cfg.init b) := by
  constructor <;> simp [Cfg.init, ChanState.new]
  cases b <;> simp

theorem inv_clone {c c' : Cfg} (hi : Inv c) (he : enabled c .cloneS) (hf : fire c .cloneS = .ok c') :
    Inv c' := by
  simp [fire, ChanState.cloneSenderStep] at hf
  subst hf
  simp [enabled] at he
  cases hi
  constructor <;> grind

theorem inv_dropS {c c' : Cfg} {stop : Bool} (hi : Inv c) (he : enabled c (.dropS stop))
    (hf : fire c (.dropS stop) = .ok c') : Inv c' := by
  simp only [fire, ChanState.dropSenderStep] at hf
  simp [enabled] at he
  cases hi
  cases stop
  · by_cases h0 : c.ch.knownSenders = 0
    · simp [h0] at hf
    · by_cases h1 : c.ch.knownSenders - 1 = 0 <;> simp [h0, h1] at hf <;> subst hf <;>
        constructor <;> grind
  · simp at hf; subst hf
    constructor <;> grind

theorem inv_dropR {c c' : Cfg} {stop : Bool} (hi : Inv c) (he : enabled c (.dropR stop))
    (hf : fire c (.dropR stop) = .ok c') : Inv c' := by
  simp only [fire, ChanState.dropReceiverStep] at hf
  simp [enabled] at he
  cases hi
  cases stop
  · by_cases h0 : c.ch.knownReceivers = 0
    · simp [h0] at hf
    · by_cases h1 : c.ch.knownReceivers - 1 = 0 <;> simp [h0, h1] at hf <;> subst hf <;>
        constructor <;> grind
  · simp at hf; subst hf
    constructor <;> grind

end ShuttleModel.C06
