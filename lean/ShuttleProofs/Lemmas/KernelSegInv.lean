import ShuttleProofs.Lemmas.KernelSegment
/-!
# Kernel lemmas, part 4: what a task segment can and cannot change

* `SegFrame me st st'` — fields no request touches (`current`, `next`, `maxSteps`, `seed`, `ctxSwitches`),
  monotone quantities (number of tasks, schedule length, `hasYielded`), and the bookkeeping invariants
  (`conts.length = tasks.length`, `stepsResetAt ≤ schedLen`).
* `SegLog extra st st'` — the log grew by non-`dec` events `evs` and the recorded schedule grew by exactly one
  `.random` per `draw` in `evs` (plus `extra`, which is `[.random]` only when `next_u64` itself panicked).
* `Never bad p` / `UntilSwitch bad p` — the program never issues (resp. does not issue before its next
  `switch`) a request satisfying `bad`; used for `requestYield` and `resetSteps`.  Since a panic continues
  with the unwinding program `P.unwind me`, the theorems also ask the same of every `P.unwind i`.
-/

namespace ShuttleProofs.Kernel
open ShuttleModel

variable {P : Program} {σ : Type}

/-! ### events and the recorded schedule -/

def isDec : Ev → Bool
  | .dec _ _ _ _ => true
  | _ => false

/-- the schedule steps an event stands for -/
def evSteps : Ev → List SStep
  | .dec _ _ _ (some t) => [.task t]
  | .draw _ => [.random]
  | _ => []

/-- projection of a log onto schedule steps -/
def logSteps (l : List Ev) : List SStep := l.flatMap evSteps

theorem logSteps_append (l l' : List Ev) : logSteps (l ++ l') = logSteps l ++ logSteps l' := by
  unfold logSteps; exact List.flatMap_append

theorem logSteps_nil : logSteps [] = [] := rfl

/-! ### `spawnTask` -/

theorem spawnTask_some_spec (k : Kernel) (me : Nat) :
    ∃ ts, (k.spawnTask (some me)).2 = { k with tasks := ts } ∧ k.tasks.length ≤ ts.length ∧
      (me < k.tasks.length → ts.length = k.tasks.length + 1) := by
  simp only [Kernel.spawnTask, Kernel.getTask?]
  cases h : k.tasks[me]? with
  | none =>
    refine ⟨k.tasks, rfl, Nat.le_refl _, ?_⟩
    intro hlt
    rw [List.getElem?_eq_none_iff] at h
    omega
  | some ptk =>
    refine ⟨_, rfl, ?_, ?_⟩ <;> simp [Kernel.setTask]

/-! ### frame -/

structure SegFrame (me : Nat) (st st' : ExecState P σ) : Prop where
  current : st'.k.current = st.k.current
  next : st'.k.next = st.k.next
  maxSteps : st'.k.maxSteps = st.k.maxSteps
  seed : st'.k.seed = st.k.seed
  ctxSwitches : st'.k.ctxSwitches = st.k.ctxSwitches
  tasksLen : st.k.tasks.length ≤ st'.k.tasks.length
  conts : me < st.k.tasks.length → st.conts.length = st.k.tasks.length →
    st'.conts.length = st'.k.tasks.length
  schedLen : st.k.schedLen ≤ st'.k.schedLen
  reset : st.k.stepsResetAt ≤ st.k.schedLen → st'.k.stepsResetAt ≤ st'.k.schedLen
  yieldMono : st.k.hasYielded = true → st'.k.hasYielded = true

theorem SegFrame.refl (me : Nat) (st : ExecState P σ) : SegFrame me st st :=
  ⟨rfl, rfl, rfl, rfl, rfl, Nat.le_refl _, fun _ h => h, Nat.le_refl _, fun h => h, fun h => h⟩

theorem SegFrame.trans {me : Nat} {a b c : ExecState P σ} (h1 : SegFrame me a b) (h2 : SegFrame me b c) :
    SegFrame me a c where
  current := h2.current.trans h1.current
  next := h2.next.trans h1.next
  maxSteps := h2.maxSteps.trans h1.maxSteps
  seed := h2.seed.trans h1.seed
  ctxSwitches := h2.ctxSwitches.trans h1.ctxSwitches
  tasksLen := Nat.le_trans h1.tasksLen h2.tasksLen
  conts := fun hme hc => h2.conts (Nat.lt_of_lt_of_le hme h1.tasksLen) (h1.conts hme hc)
  schedLen := Nat.le_trans h1.schedLen h2.schedLen
  reset := fun h => h2.reset (h1.reset h)
  yieldMono := fun h => h2.yieldMono (h1.yieldMono h)

/-- updating `conts` in place -/
theorem SegFrame.setConts (me : Nat) (st : ExecState P σ) (i : Nat) (p : Prog P.U Unit) :
    SegFrame me st { st with conts := st.conts.set i p } :=
  ⟨rfl, rfl, rfl, rfl, rfl, Nat.le_refl _, fun _ h => by simpa using h, Nat.le_refl _, fun h => h, fun h => h⟩

theorem SegStep.frame {S : Scheduler σ} {me : Nat} {β : Type} {o : KOp P.U β} {st st' : ExecState P σ}
    (h : SegStep S me o st st') : SegFrame me st st' := by
  cases h with
  | nop _ _ _ => exact SegFrame.refl me st
  | setU _ _ u _ =>
    exact ⟨rfl, rfl, rfl, rfl, rfl, Nat.le_refl _, fun _ h => h, Nat.le_refl _, fun h => h, fun h => h⟩
  | obs _ _ s _ =>
    exact ⟨rfl, rfl, rfl, rfl, rfl, Nat.le_refl _, fun _ h => h, Nat.le_refl _, fun h => h, fun h => h⟩
  | tasks _ _ ts _ hl =>
    exact ⟨rfl, rfl, rfl, rfl, rfl, Nat.le_of_eq hl.symm, fun _ h => by simpa [hl] using h, Nat.le_refl _,
      fun h => h, fun h => h⟩
  | yield _ =>
    exact ⟨rfl, rfl, rfl, rfl, rfl, Nat.le_refl _, fun _ h => h, Nat.le_refl _, fun h => h, fun _ => rfl⟩
  | reset _ =>
    exact ⟨rfl, rfl, rfl, rfl, rfl, Nat.le_refl _, fun _ h => h, Nat.le_refl _,
      fun _ => Nat.le_refl _, fun h => h⟩
  | rand _ v s' _ =>
    refine ⟨rfl, rfl, rfl, rfl, rfl, Nat.le_refl _, fun _ h => h, ?_, ?_, fun h => h⟩
    · simp [pushRandom, Kernel.schedLen]
    · intro h
      simp only [pushRandom, Kernel.schedLen, List.length_cons] at h ⊢
      omega
  | spawn _ fut body =>
    obtain ⟨ts, heq, hle, hlt⟩ := spawnTask_some_spec st.k me
    refine ⟨?_, ?_, ?_, ?_, ?_, ?_, ?_, ?_, ?_, ?_⟩
    all_goals simp only [heq]
    all_goals first | rfl | skip
    · exact hle
    · intro hme hc
      simp only [List.length_append, List.length_cons, List.length_nil, hc, hlt hme]
    · exact Nat.le_refl _
    · exact fun h => h
    · exact fun h => h

theorem SegHalt.frame {S : Scheduler σ} {me : Nat} {β : Type} {o : KOp P.U β} {kont : β → Prog P.U Unit}
    {st : ExecState P σ} {e : SegEnd P σ} (h : SegHalt S me o kont st e) : SegFrame me st e.st := by
  cases h with
  | switch _ _ => exact SegFrame.setConts me st me _
  | panicked _ _ _ msg => exact SegFrame.refl me st
  | randFail _ _ err s' _ =>
    refine ⟨rfl, rfl, rfl, rfl, rfl, Nat.le_refl _, fun _ h => h, ?_, ?_, fun h => h⟩
    · simp [SegEnd.st, pushRandom, Kernel.schedLen]
    · intro h
      simp only [SegEnd.st, pushRandom, Kernel.schedLen, List.length_cons] at h ⊢
      omega

theorem SegTrace.frame {S : Scheduler σ} {me : Nat} {st : ExecState P σ} {p : Prog P.U Unit}
    {e : SegEnd P σ} (h : SegTrace S me st p e) : SegFrame me st e.st := by
  induction h with
  | fuel st p => exact SegFrame.setConts me st me p
  | ret st => exact SegFrame.setConts me st me _
  | retPanicking st msg => exact SegFrame.refl me st
  | abort st msg => exact SegFrame.refl me st
  | unwind st msg pk apk e _ ih =>
    have h0 : SegFrame me st { st with k := { st.k with panicking := pk, alsoPanicking := apk } } :=
      ⟨rfl, rfl, rfl, rfl, rfl, Nat.le_refl _, fun _ h => h, Nat.le_refl _, fun h => h, fun h => h⟩
    exact h0.trans ih
  | halt o kont st e hh => exact hh.frame
  | step o kont st st' b e hs _ ih => exact hs.frame.trans ih

/-! ### log / recorded schedule -/

def SegLog (extra : List SStep) (st st' : ExecState P σ) : Prop :=
  ∃ evs : List Ev, st'.log.toList = st.log.toList ++ evs ∧ (∀ ev ∈ evs, isDec ev = false) ∧
    st'.k.schedRev = extra ++ (logSteps evs).reverse ++ st.k.schedRev

theorem SegLog.refl (st : ExecState P σ) : SegLog [] st st :=
  ⟨[], by simp, by simp, by simp [logSteps]⟩

/-- any change that leaves `log` and `schedRev` alone -/
theorem SegLog.of_eq {st st' : ExecState P σ} (h1 : st'.log = st.log) (h2 : st'.k.schedRev = st.k.schedRev) :
    SegLog [] st st' :=
  ⟨[], by simp [h1], by simp, by simp [logSteps, h2]⟩

theorem SegLog.trans {x : List SStep} {a b c : ExecState P σ} (h1 : SegLog [] a b) (h2 : SegLog x b c) :
    SegLog x a c := by
  obtain ⟨e1, hl1, hd1, hs1⟩ := h1
  obtain ⟨e2, hl2, hd2, hs2⟩ := h2
  refine ⟨e1 ++ e2, ?_, ?_, ?_⟩
  · rw [hl2, hl1, List.append_assoc]
  · intro ev hev
    rcases List.mem_append.mp hev with h | h
    · exact hd1 ev h
    · exact hd2 ev h
  · rw [hs2, hs1, logSteps_append, List.reverse_append]
    simp only [List.nil_append, List.append_assoc]

theorem SegStep.log {S : Scheduler σ} {me : Nat} {β : Type} {o : KOp P.U β} {st st' : ExecState P σ}
    (h : SegStep S me o st st') : SegLog [] st st' := by
  cases h with
  | nop _ _ _ => exact SegLog.refl st
  | setU _ _ u _ => exact SegLog.of_eq rfl rfl
  | obs _ _ s _ =>
    refine ⟨[.obs s], by simp, ?_, by simp [logSteps, evSteps]⟩
    intro ev hev
    simp only [List.mem_singleton] at hev
    subst hev; rfl
  | tasks _ _ ts _ hl => exact SegLog.of_eq rfl rfl
  | yield _ => exact SegLog.of_eq rfl rfl
  | reset _ => exact SegLog.of_eq rfl rfl
  | rand _ v s' _ =>
    refine ⟨[.draw v], by simp, ?_, by simp [logSteps, evSteps, pushRandom]⟩
    intro ev hev
    simp only [List.mem_singleton] at hev
    subst hev; rfl
  | spawn _ fut body =>
    obtain ⟨ts, heq, _, _⟩ := spawnTask_some_spec st.k me
    exact SegLog.of_eq rfl (by simp only [heq])

/-- A segment appends only `draw`/`obs` events; the recorded schedule gains one `.random` per `draw`, except
that a `next_u64` that panics has already pushed its `.random` (`extra = [.random]`, end = `schedPanic`). -/
theorem SegTrace.log {S : Scheduler σ} {me : Nat} {st : ExecState P σ} {p : Prog P.U Unit}
    {e : SegEnd P σ} (h : SegTrace S me st p e) :
    SegLog [] st e.st ∨ (∃ msg st', e = .schedPanic msg st' ∧ SegLog [.random] st st') := by
  induction h with
  | fuel st p => exact Or.inl (SegLog.of_eq rfl rfl)
  | ret st => exact Or.inl (SegLog.of_eq rfl rfl)
  | retPanicking st msg => exact Or.inl (SegLog.refl st)
  | abort st msg => exact Or.inl (SegLog.refl st)
  | unwind st msg pk apk e _ ih =>
    have h0 : SegLog [] st { st with k := { st.k with panicking := pk, alsoPanicking := apk } } :=
      SegLog.of_eq rfl rfl
    rcases ih with ih | ⟨m, st'', he, ih⟩
    · exact Or.inl (h0.trans ih)
    · exact Or.inr ⟨m, st'', he, h0.trans ih⟩
  | halt o kont st e hh =>
    cases hh with
    | switch _ _ => exact Or.inl (SegLog.of_eq rfl rfl)
    | panicked _ _ _ msg => exact Or.inl (SegLog.refl st)
    | randFail _ _ err s' _ =>
      refine Or.inr ⟨err, _, rfl, [], by simp, by simp, by simp [logSteps, pushRandom]⟩
  | step o kont st st' b e hs _ ih =>
    rcases ih with ih | ⟨msg, st'', he, ih⟩
    · exact Or.inl (hs.log.trans ih)
    · exact Or.inr ⟨msg, st'', he, hs.log.trans ih⟩

/-- the scheduler-panic end is the only one with an unmatched `.random` -/
theorem SegTrace.log_of_not_schedPanic {S : Scheduler σ} {me : Nat} {st : ExecState P σ} {p : Prog P.U Unit}
    {e : SegEnd P σ} (h : SegTrace S me st p e) (hne : ∀ msg st', e ≠ .schedPanic msg st') :
    SegLog [] st e.st := by
  rcases h.log with h | ⟨msg, st', he, _⟩
  · exact h
  · exact absurd he (hne msg st')

/-! ### programs that avoid a class of requests -/

/-- `p` never issues a request satisfying `bad` (on any path, in any continuation) -/
inductive Never (bad : {β : Type} → KOp P.U β → Bool) : Prog P.U Unit → Prop
  | pure : Never bad (.pure ())
  | panic (msg : String) : Never bad (.panic msg)
  | op {β : Type} (o : KOp P.U β) (kont : β → Prog P.U Unit) :
      bad o = false → (∀ b, Never bad (kont b)) → Never bad (.op o kont)

/-- `p` issues no request satisfying `bad` before its next `switch` -/
inductive UntilSwitch (bad : {β : Type} → KOp P.U β → Bool) : Prog P.U Unit → Prop
  | pure : UntilSwitch bad (.pure ())
  | panic (msg : String) : UntilSwitch bad (.panic msg)
  | switch (kont : Unit → Prog P.U Unit) : UntilSwitch bad (.op .switch kont)
  | op {β : Type} (o : KOp P.U β) (kont : β → Prog P.U Unit) :
      bad o = false → (∀ b, UntilSwitch bad (kont b)) → UntilSwitch bad (.op o kont)

theorem Never.untilSwitch {bad : {β : Type} → KOp P.U β → Bool} {p : Prog P.U Unit} (h : Never bad p) :
    UntilSwitch bad p := by
  induction h with
  | pure => exact .pure
  | panic msg => exact .panic msg
  | op o kont hb _ ih => exact .op o kont hb ih

theorem SegStep.hasYielded_eq {S : Scheduler σ} {me : Nat} {β : Type} {o : KOp P.U β}
    {st st' : ExecState P σ} (h : SegStep S me o st st') (hy : isYield o = false) :
    st'.k.hasYielded = st.k.hasYielded := by
  cases h with
  | yield _ => simp [isYield] at hy
  | spawn _ fut body =>
    obtain ⟨ts, heq, _, _⟩ := spawnTask_some_spec st.k me
    simp only [heq]
  | _ => rfl

theorem SegStep.stepsResetAt_eq {S : Scheduler σ} {me : Nat} {β : Type} {o : KOp P.U β}
    {st st' : ExecState P σ} (h : SegStep S me o st st') (hy : isReset o = false) :
    st'.k.stepsResetAt = st.k.stepsResetAt := by
  cases h with
  | reset _ => simp [isReset] at hy
  | spawn _ fut body =>
    obtain ⟨ts, heq, _, _⟩ := spawnTask_some_spec st.k me
    simp only [heq]
  | _ => rfl

theorem SegHalt.kernel_eq {S : Scheduler σ} {me : Nat} {β : Type} {o : KOp P.U β} {kont : β → Prog P.U Unit}
    {st : ExecState P σ} {e : SegEnd P σ} (h : SegHalt S me o kont st e) :
    e.st.k.hasYielded = st.k.hasYielded ∧ e.st.k.stepsResetAt = st.k.stepsResetAt := by
  cases h <;> exact ⟨rfl, rfl⟩

/-- **Only `request_yield` sets `has_yielded`**: a segment that issues no `requestYield` before its next
`switch` leaves the flag as it found it. -/
theorem SegTrace.hasYielded_eq {S : Scheduler σ} {me : Nat} {st : ExecState P σ} {p : Prog P.U Unit}
    {e : SegEnd P σ} (h : SegTrace S me st p e) (hp : UntilSwitch (P := P) isYield p)
    (hu : ∀ i, UntilSwitch (P := P) isYield (P.unwind i)) :
    e.st.k.hasYielded = st.k.hasYielded := by
  induction h with
  | fuel st p => rfl
  | ret st => rfl
  | retPanicking st msg => rfl
  | abort st msg => rfl
  | unwind st msg pk apk e _ ih => exact ih (hu me)
  | halt o kont st e hh => exact hh.kernel_eq.1
  | step o kont st st' b e hs _ ih =>
    cases hp with
    | switch _ =>
      have := hs.not_switch
      simp [isSwitch] at this
    | op _ _ hb hk => exact (ih (hk b)).trans (hs.hasYielded_eq hb)

/-- **Only `reset_step_count` moves `steps_reset_at`.** -/
theorem SegTrace.stepsResetAt_eq {S : Scheduler σ} {me : Nat} {st : ExecState P σ} {p : Prog P.U Unit}
    {e : SegEnd P σ} (h : SegTrace S me st p e) (hp : UntilSwitch (P := P) isReset p)
    (hu : ∀ i, UntilSwitch (P := P) isReset (P.unwind i)) :
    e.st.k.stepsResetAt = st.k.stepsResetAt := by
  induction h with
  | fuel st p => rfl
  | ret st => rfl
  | retPanicking st msg => rfl
  | abort st msg => rfl
  | unwind st msg pk apk e _ ih => exact ih (hu me)
  | halt o kont st e hh => exact hh.kernel_eq.2
  | step o kont st st' b e hs _ ih =>
    cases hp with
    | switch _ =>
      have := hs.not_switch
      simp [isSwitch] at this
    | op _ _ hb hk => exact (ih (hk b)).trans (hs.stepsResetAt_eq hb)

theorem SegStep.conts_eq {S : Scheduler σ} {me : Nat} {β : Type} {o : KOp P.U β}
    {st st' : ExecState P σ} (h : SegStep S me o st st') :
    st'.conts = st.conts ∨ ∃ body, st'.conts = st.conts ++ [P.bodies body] := by
  cases h with
  | spawn _ fut body => exact Or.inr ⟨body, rfl⟩
  | _ => exact Or.inl rfl

theorem mem_set_elim {α : Type _} {l : List α} {i : Nat} {a x : α} (h : x ∈ l.set i a) : x ∈ l ∨ x = a :=
  List.mem_or_eq_of_mem_set h

/-- If every task body and every stored continuation `Never` issues a `bad` request, the same holds after a
segment of one of them. -/
theorem SegTrace.never_conts {S : Scheduler σ} {me : Nat} {st : ExecState P σ} {p : Prog P.U Unit}
    {e : SegEnd P σ} (bad : {β : Type} → KOp P.U β → Bool) (h : SegTrace S me st p e)
    (hp : Never (P := P) bad p) (hb : ∀ i, Never (P := P) bad (P.bodies i))
    (hu : ∀ i, Never (P := P) bad (P.unwind i))
    (hc : ∀ q ∈ st.conts, Never (P := P) bad q) : ∀ q ∈ e.st.conts, Never (P := P) bad q := by
  induction h with
  | fuel st p =>
    intro q hq
    rcases mem_set_elim hq with h | h
    · exact hc q h
    · rw [h]; exact hp
  | ret st =>
    intro q hq
    rcases mem_set_elim hq with h | h
    · exact hc q h
    · rw [h]; exact Never.pure
  | retPanicking st msg => exact hc
  | abort st msg => exact hc
  | unwind st msg pk apk e _ ih => exact ih (hu me) hc
  | halt o kont st e hh =>
    cases hh with
    | switch _ _ =>
      intro q hq
      rcases mem_set_elim hq with h | h
      · exact hc q h
      · rw [h]
        cases hp with
        | op _ _ _ hk => exact hk ()
    | panicked _ _ _ msg => exact hc
    | randFail _ _ err s' _ => exact hc
  | step o kont st st' b e hs _ ih =>
    cases hp with
    | op _ _ _ hk =>
      apply ih (hk b)
      rcases hs.conts_eq with h | ⟨body, h⟩
      · rw [h]; exact hc
      · rw [h]
        intro q hq
        rcases List.mem_append.mp hq with h' | h'
        · exact hc q h'
        · simp only [List.mem_singleton] at h'
          rw [h']; exact hb body

end ShuttleProofs.Kernel
