import ShuttleProofs.Lemmas.ClockBasic
/-!
# Vector-clock lemmas, part 2: `partial_cmp` / `<=` against the pointwise order

`VectorClock::partial_cmp` starts from the comparison of the two *lengths* and then unifies it with the
component comparisons on the common prefix. Consequences (all proved below):

* `le_iff_of_length_le`   : when `len a ≤ len b`,  `a <= b`  ⇔  pointwise `a ≤ b` with zero-extension;
* `le_false_of_length_gt` : when `len a > len b`,  `a <= b` is **false whatever the components are** —
  even if the extra components of `a` are all zero, i.e. `a` and `b` are the same vector;
* `le_deviates`           : the concrete witness `[1,0] <= [1]` is false while `[1] <= [1,0]` is true.
-/

namespace ShuttleProofs.Clock
open ShuttleModel

/-- `a[i] ≤ b[i]` on the common prefix -/
def allLe : List Nat → List Nat → Prop
  | a :: c, b :: o => a ≤ b ∧ allLe c o
  | _, _ => True

theorem allLe_iff_of_length_le : ∀ (a b : List Nat), a.length ≤ b.length →
    (allLe a b ↔ ∀ i, lget a i ≤ lget b i)
  | [], b, _ => by simp [allLe]
  | a :: c, [], h => by simp at h
  | a :: c, b :: o, h => by
    have ih := allLe_iff_of_length_le c o (by simpa using h)
    simp only [allLe, ih]
    constructor
    · rintro ⟨h0, hs⟩ i
      cases i with
      | zero => simpa using h0
      | succ i => simpa using hs i
    · intro hh
      exact ⟨by simpa using hh 0, fun i => by simpa using hh (i + 1)⟩

theorem cmpNat_lt {a b : Nat} (h : a < b) : Clock.cmpNat a b = .lt := by simp [Clock.cmpNat, h]
theorem cmpNat_eq (a : Nat) : Clock.cmpNat a a = .eq := by simp [Clock.cmpNat]
theorem cmpNat_gt {a b : Nat} (h : b < a) : Clock.cmpNat a b = .gt := by
  have h1 : ¬ a < b := by omega
  have h2 : ¬ a = b := by omega
  simp [Clock.cmpNat, h1, h2]

/-- starting from `Greater` the result is `Greater` or incomparable -/
theorem aux_gt : ∀ (a b : List Nat),
    Clock.partialCmpAux .gt a b = some .gt ∨ Clock.partialCmpAux .gt a b = none
  | [], b => by left; cases b <;> rfl
  | a :: c, [] => by left; rfl
  | a :: c, b :: o => by
    rcases Nat.lt_trichotomy a b with h | h | h
    · right; simp [Clock.partialCmpAux, cmpNat_lt h, Clock.unify]
    · subst h
      have := aux_gt c o
      simpa [Clock.partialCmpAux, cmpNat_eq, Clock.unify] using this
    · have := aux_gt c o
      simpa [Clock.partialCmpAux, cmpNat_gt h, Clock.unify] using this

/-- starting from `Less` the result is `Less` exactly when the common prefix is pointwise `≤` -/
theorem aux_lt : ∀ (a b : List Nat),
    (Clock.partialCmpAux .lt a b = some .lt ∧ allLe a b) ∨ (Clock.partialCmpAux .lt a b = none ∧ ¬ allLe a b)
  | [], b => by left; cases b <;> exact ⟨rfl, trivial⟩
  | a :: c, [] => by left; exact ⟨rfl, trivial⟩
  | a :: c, b :: o => by
    rcases Nat.lt_trichotomy a b with h | h | h
    · rcases aux_lt c o with ⟨h1, h2⟩ | ⟨h1, h2⟩
      · left; exact ⟨by simpa [Clock.partialCmpAux, cmpNat_lt h, Clock.unify] using h1, ⟨Nat.le_of_lt h, h2⟩⟩
      · right; exact ⟨by simpa [Clock.partialCmpAux, cmpNat_lt h, Clock.unify] using h1, fun hh => h2 hh.2⟩
    · subst h
      rcases aux_lt c o with ⟨h1, h2⟩ | ⟨h1, h2⟩
      · left; exact ⟨by simpa [Clock.partialCmpAux, cmpNat_eq, Clock.unify] using h1, ⟨Nat.le_refl _, h2⟩⟩
      · right; exact ⟨by simpa [Clock.partialCmpAux, cmpNat_eq, Clock.unify] using h1, fun hh => h2 hh.2⟩
    · right
      refine ⟨by simp [Clock.partialCmpAux, cmpNat_gt h, Clock.unify], fun hh => ?_⟩
      have := hh.1
      omega

/-- starting from `Equal` the result is `Less` or `Equal` exactly when the common prefix is pointwise `≤` -/
theorem aux_eq : ∀ (a b : List Nat),
    (Clock.partialCmpAux .eq a b = some .lt ∨ Clock.partialCmpAux .eq a b = some .eq) ↔ allLe a b
  | [], b => by cases b <;> simp [Clock.partialCmpAux, allLe]
  | a :: c, [] => by simp [Clock.partialCmpAux, allLe]
  | a :: c, b :: o => by
    rcases Nat.lt_trichotomy a b with h | h | h
    · have e : Clock.partialCmpAux .eq (a :: c) (b :: o) = Clock.partialCmpAux .lt c o := by
        simp [Clock.partialCmpAux, cmpNat_lt h, Clock.unify]
      rw [e]
      rcases aux_lt c o with ⟨h1, h2⟩ | ⟨h1, h2⟩
      · rw [h1]; exact ⟨fun _ => ⟨Nat.le_of_lt h, h2⟩, fun _ => Or.inl rfl⟩
      · rw [h1]
        exact ⟨fun hh => (by rcases hh with hh | hh <;> cases hh), fun hh => absurd hh.2 h2⟩
    · subst h
      have e : Clock.partialCmpAux .eq (a :: c) (a :: o) = Clock.partialCmpAux .eq c o := by
        simp [Clock.partialCmpAux, cmpNat_eq, Clock.unify]
      rw [e, aux_eq c o]
      simp [allLe]
    · have e : Clock.partialCmpAux .eq (a :: c) (b :: o) = Clock.partialCmpAux .gt c o := by
        simp [Clock.partialCmpAux, cmpNat_gt h, Clock.unify]
      rw [e]
      simp only [allLe]
      constructor
      · intro hh
        rcases aux_gt c o with h1 | h1 <;> rw [h1] at hh <;> rcases hh with hh | hh <;> cases hh
      · intro hh
        have := hh.1
        omega

theorem le_def (a b : List Nat) :
    Clock.le a b = true ↔
      (Clock.partialCmp a b = some .lt ∨ Clock.partialCmp a b = some .eq) := by
  unfold Clock.le
  cases h : Clock.partialCmp a b with
  | none => simp
  | some o => cases o <;> simp

theorem le_iff_of_length_le_l (a b : List Nat) (h : a.length ≤ b.length) :
    Clock.le a b = true ↔ ∀ i, lget a i ≤ lget b i := by
  rw [le_def, ← allLe_iff_of_length_le a b h]
  rcases Nat.lt_or_eq_of_le h with hl | hl
  · have e : Clock.partialCmp a b = Clock.partialCmpAux .lt a b := by
      show Clock.partialCmpAux (Clock.cmpNat a.length b.length) a b = _
      rw [cmpNat_lt hl]
    rw [e]
    rcases aux_lt a b with ⟨h1, h2⟩ | ⟨h1, h2⟩
    · rw [h1]; exact ⟨fun _ => h2, fun _ => Or.inl rfl⟩
    · rw [h1]; exact ⟨fun hh => (by rcases hh with hh | hh <;> cases hh), fun hh => absurd hh h2⟩
  · have e : Clock.partialCmp a b = Clock.partialCmpAux .eq a b := by
      show Clock.partialCmpAux (Clock.cmpNat a.length b.length) a b = _
      rw [hl, cmpNat_eq]
    rw [e]
    exact aux_eq a b

theorem le_false_of_length_gt_l (a b : List Nat) (h : b.length < a.length) : Clock.le a b = false := by
  have e : Clock.partialCmp a b = Clock.partialCmpAux .gt a b := by
    show Clock.partialCmpAux (Clock.cmpNat a.length b.length) a b = _
    rw [cmpNat_gt h]
  unfold Clock.le
  rw [e]
  rcases aux_gt a b with h1 | h1 <;> rw [h1]

/-- **`<=` on clocks whose left operand is not longer is the pointwise order with zero-extension.**
(In particular for equal lengths.) -/
theorem le_iff_of_length_le (a b : Clock) (h : List.length a ≤ List.length b) :
    Clock.le a b = true ↔ ple a b :=
  le_iff_of_length_le_l a b h

theorem le_iff_of_length_eq (a b : Clock) (h : List.length a = List.length b) :
    Clock.le a b = true ↔ ple a b :=
  le_iff_of_length_le a b (Nat.le_of_eq h)

/-- **The length rule**: a longer clock is never `<=` a shorter one, whatever its components. -/
theorem le_false_of_length_gt (a b : Clock) (h : List.length b < List.length a) : Clock.le a b = false :=
  le_false_of_length_gt_l a b h

/-- `<=` always implies the pointwise order … -/
theorem ple_of_le (a b : Clock) (h : Clock.le a b = true) : ple a b := by
  rcases Nat.lt_or_ge (List.length b) (List.length a) with hl | hl
  · rw [le_false_of_length_gt a b hl] at h; cases h
  · exact (le_iff_of_length_le a b hl).mp h

/-- … but not conversely: **the deviation of `partial_cmp` from the pointwise order with zero-extension.**
`[1,0]` and `[1]` are the same vector; `[1] <= [1,0]` holds and `[1,0] <= [1]` does not. A target clock
handed to `ReplayScheduler::set_target_clock` with its trailing zeros stripped (for instance re-typed
from a printed clock) is *shorter* than the clock of every task that has been extended for a later
spawn, so `task.clock <= target` fails for those tasks and their steps are skipped although the target
depends on them. -/
theorem le_deviates :
    ple (Clock.ofList [1, 0]) (Clock.ofList [1]) ∧ Clock.le (Clock.ofList [1, 0]) (Clock.ofList [1]) = false ∧
    Clock.le (Clock.ofList [1]) (Clock.ofList [1, 0]) = true ∧
    Clock.partialCmp (Clock.ofList [1, 0]) (Clock.ofList [1]) = some .gt := by
  refine ⟨fun i => ?_, by decide, by decide, by decide⟩
  match i with
  | 0 => decide
  | 1 => decide
  | i + 2 => exact Nat.le_of_eq rfl

/-- Within one execution the deviation cannot bite if clock lengths are monotone along the order:
when the target is at least as long as the task's clock, the replay test is exactly the pointwise one. -/
theorem replay_test_exact (task target : Clock) (h : List.length task ≤ List.length target) :
    Clock.le task target = true ↔ ple task target := le_iff_of_length_le task target h

end ShuttleProofs.Clock
