import ShuttleModel.Sched.Pct

/-!
# Lemmas about the association-list model of `HashMap<TaskId, usize>` (`ShuttleModel.Pct.mapGet/mapInsert`)

When the keys of `m` are exactly `a, a+1, …, a+len-1` (in that order), `mapGet`/`mapInsert` are plain list indexing /
`List.set` / append on the list of values.
-/

namespace ShuttleProofs.Pct
open ShuttleModel ShuttleModel.Pct

/-- The keys of the map, in list order. -/
def keys (m : List (Nat × Nat)) : List Nat := m.map Prod.fst
/-- The values of the map, in list order (= indexed by task id when `keys m = List.range m.length`). -/
def vals (m : List (Nat × Nat)) : List Nat := m.map Prod.snd

@[simp] theorem keys_nil : keys [] = [] := rfl
@[simp] theorem vals_nil : vals [] = [] := rfl
@[simp] theorem keys_cons (p) (m) : keys (p :: m) = p.1 :: keys m := rfl
@[simp] theorem vals_cons (p) (m) : vals (p :: m) = p.2 :: vals m := rfl
@[simp] theorem keys_length (m) : (keys m).length = m.length := by simp [keys]
@[simp] theorem vals_length (m) : (vals m).length = m.length := by simp [vals]
@[simp] theorem keys_append (m m') : keys (m ++ m') = keys m ++ keys m' := by simp [keys]
@[simp] theorem vals_append (m m') : vals (m ++ m') = vals m ++ vals m' := by simp [vals]

theorem mapGet_range' (m : List (Nat × Nat)) : ∀ (a k : Nat), keys m = List.range' a m.length → a ≤ k →
    mapGet m k = (vals m)[k - a]? := by
  induction m with
  | nil => intro a k _ _; simp [mapGet]
  | cons p m ih =>
    intro a k h hk
    obtain ⟨k', v'⟩ := p
    simp only [keys_cons, List.length_cons, List.range'_succ, List.cons.injEq] at h
    obtain ⟨rfl, h⟩ := h
    simp only [mapGet, vals_cons]
    by_cases hka : k = k'
    · subst hka; simp
    · have : k - k' = (k - (k' + 1)) + 1 := by omega
      rw [if_neg hka, this, List.getElem?_cons_succ]
      exact ih (k' + 1) k h (by omega)

theorem mapInsert_range'_lt (m : List (Nat × Nat)) : ∀ (a k v : Nat), keys m = List.range' a m.length → a ≤ k →
    k < a + m.length → mapInsert m k v = m.set (k - a) (k, v) := by
  induction m with
  | nil => intro a k v _ h1 h2; simp at h2; omega
  | cons p m ih =>
    intro a k v h hk hlt
    obtain ⟨k', v'⟩ := p
    simp only [keys_cons, List.length_cons, List.range'_succ, List.cons.injEq] at h
    obtain ⟨rfl, h⟩ := h
    simp only [mapInsert]
    by_cases hka : k = k'
    · subst hka; simp
    · have : k - k' = (k - (k' + 1)) + 1 := by omega
      rw [if_neg hka, if_neg (by omega), this, List.set_cons_succ]
      rw [ih (k' + 1) k v h (by omega) (by simp at hlt; omega)]

theorem mapInsert_range'_end (m : List (Nat × Nat)) : ∀ (a v : Nat), keys m = List.range' a m.length →
    mapInsert m (a + m.length) v = m ++ [(a + m.length, v)] := by
  induction m with
  | nil => intro a v _; simp [mapInsert]
  | cons p m ih =>
    intro a v h
    obtain ⟨k', v'⟩ := p
    simp only [keys_cons, List.length_cons, List.range'_succ, List.cons.injEq] at h
    obtain ⟨rfl, h⟩ := h
    simp only [mapInsert, List.length_cons]
    rw [if_neg (by omega), if_neg (by omega)]
    have := ih (k' + 1) v h
    rw [show k' + 1 + m.length = k' + (m.length + 1) by omega] at this
    rw [this]; simp

/-- `keys m = 0, 1, …, len-1`. -/
def KeysOk (m : List (Nat × Nat)) : Prop := keys m = List.range m.length

theorem mapGet_eq {m : List (Nat × Nat)} (h : KeysOk m) (k : Nat) : mapGet m k = (vals m)[k]? := by
  have := mapGet_range' m 0 k (by rw [← List.range_eq_range']; exact h) (Nat.zero_le _)
  simpa using this

theorem mapGet_isSome_iff {m : List (Nat × Nat)} (h : KeysOk m) (k : Nat) :
    (mapGet m k).isSome ↔ k < m.length := by
  rw [mapGet_eq h]; simp

theorem mapGet_eq_none_iff {m : List (Nat × Nat)} (h : KeysOk m) (k : Nat) :
    mapGet m k = none ↔ m.length ≤ k := by
  rw [mapGet_eq h]; simp

theorem mapGet_lt {m : List (Nat × Nat)} (h : KeysOk m) {k v : Nat} (hg : mapGet m k = some v) :
    k < m.length := by
  rw [← mapGet_isSome_iff h, hg]; rfl

theorem mapGet_mem_vals {m : List (Nat × Nat)} (h : KeysOk m) {k v : Nat} (hg : mapGet m k = some v) :
    v ∈ vals m := by
  rw [mapGet_eq h] at hg
  exact List.mem_of_getElem? hg

theorem mapInsert_lt {m : List (Nat × Nat)} (h : KeysOk m) {k : Nat} (hk : k < m.length) (v : Nat) :
    mapInsert m k v = m.set k (k, v) := by
  have := mapInsert_range'_lt m 0 k v (by rw [← List.range_eq_range']; exact h) (Nat.zero_le _) (by omega)
  simpa using this

theorem mapInsert_end {m : List (Nat × Nat)} (h : KeysOk m) (v : Nat) :
    mapInsert m m.length v = m ++ [(m.length, v)] := by
  have := mapInsert_range'_end m 0 v (by rw [← List.range_eq_range']; exact h)
  simpa using this

theorem keys_set_self {m : List (Nat × Nat)} (h : KeysOk m) (k v : Nat) : keys (m.set k (k, v)) = keys m := by
  have h' : keys m = List.range m.length := h
  have e : keys (m.set k (k, v)) = (keys m).set k k := by simp [keys, List.map_set]
  rw [e, h']
  by_cases hk : k < m.length
  · have : (List.range m.length)[k]'(by simpa using hk) = k := by simp
    conv => lhs; arg 3; rw [← this]
    exact List.set_getElem_self _
  · exact List.set_eq_of_length_le (by simp; omega)

theorem vals_set (m : List (Nat × Nat)) (k v : Nat) : vals (m.set k (k, v)) = (vals m).set k v := by
  simp [vals, List.map_set]

theorem keysOk_insert_lt {m : List (Nat × Nat)} (h : KeysOk m) {k : Nat} (hk : k < m.length) (v : Nat) :
    KeysOk (mapInsert m k v) := by
  rw [mapInsert_lt h hk]; unfold KeysOk; rw [keys_set_self h, List.length_set]; exact h

theorem vals_insert_lt {m : List (Nat × Nat)} (h : KeysOk m) {k : Nat} (hk : k < m.length) (v : Nat) :
    vals (mapInsert m k v) = (vals m).set k v := by
  rw [mapInsert_lt h hk, vals_set]

theorem length_insert_lt {m : List (Nat × Nat)} (h : KeysOk m) {k : Nat} (hk : k < m.length) (v : Nat) :
    (mapInsert m k v).length = m.length := by
  rw [mapInsert_lt h hk]; simp

theorem keysOk_insert_end {m : List (Nat × Nat)} (h : KeysOk m) (v : Nat) :
    KeysOk (mapInsert m m.length v) := by
  rw [mapInsert_end h]; unfold KeysOk at *
  simp [h, List.range_succ]

theorem vals_insert_end {m : List (Nat × Nat)} (h : KeysOk m) (v : Nat) :
    vals (mapInsert m m.length v) = vals m ++ [v] := by
  rw [mapInsert_end h]; simp

theorem length_insert_end {m : List (Nat × Nat)} (h : KeysOk m) (v : Nat) :
    (mapInsert m m.length v).length = m.length + 1 := by
  rw [mapInsert_end h]; simp

end ShuttleProofs.Pct
