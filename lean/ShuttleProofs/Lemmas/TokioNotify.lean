import ShuttleModel.Wrap.TokioNotify
import ShuttleModel.Wrap.TokioWatch
/-
  The most-general client of the tokio-wrapper `Notify` (and of the futures oneshot under it) over
  the PURE transitions of `ShuttleModel/Wrap/TokioNotify.lean` / `TokioBase.lean`.

  `NOp`: `notified` (a `notified()` call), `pollInner id` (`enable` / the first half of `poll`),
  `notifyOne idx` (`idx` = what `gen_range` returned — arbitrary), `notifyWaiters`, `drop id`
  (`Drop for Notified`).  The oneshot sends are wake-up plumbing: the flags decide readiness
  (`poll_inner` returns `true` exactly when the flag is NOTIFIED).
-/
namespace ShuttleModel
namespace Tokio
namespace NotifyLts

inductive NOp where
  | notified
  | pollInner (id : Nat)
  | notifyOne (idx : Nat)
  | notifyWaiters
  | drop (id : Nat)
deriving Repr, DecidableEq

/-- one atomic step; `none` = not enabled / the Rust code panics -/
def nstep (s : TNotify) : NOp → Option TNotify
  | .notified => some s.notified.2
  | .pollInner id =>
    match s.pollInner id with
    | (.lost, _) => none
    | (_, s') => some s'
  | .notifyOne idx =>
    if s.enabledIds.isEmpty then some s.notifyOneNone
    else match s.enabledIds[idx]? with
      | some id => some (s.notifyOneTake id)
      | none => none
  | .notifyWaiters => some s.notifyWaitersTake.2
  | .drop id =>
    match s.dropNotified id with
    | .ok (s', _) => some s'
    | .error _ => none

def run (s : TNotify) : List NOp → Option TNotify
  | [] => some s
  | op :: ops => match nstep s op with
    | some s' => run s' ops
    | none => none

inductive Reach : TNotify → Prop
  | init : Reach {}
  | step {s s' : TNotify} {op : NOp} : Reach s → nstep s op = some s' → Reach s'

theorem run_reach {s s' : TNotify} (hs : Reach s) : ∀ {ops : List NOp}, run s ops = some s' → Reach s' := by
  intro ops
  induction ops generalizing s with
  | nil => intro h; simp only [run] at h; cases h; exact hs
  | cons op ops ih =>
    intro h
    simp only [run] at h
    cases hn : nstep s op with
    | none => rw [hn] at h; cases h
    | some s1 => rw [hn] at h; exact ih (Reach.step hs hn) h

/-! ### cells -/

theorem find_id {cells : List NCell} {id : Nat} {c : NCell} (h : cells.find? (·.id == id) = some c) :
    c.id = id := by
  have := List.find?_some h
  simpa using this

theorem cell_id (s : TNotify) (id : Nat) : (s.cell id).id = id := by
  unfold TNotify.cell
  cases h : s.cells.find? (·.id == id) with
  | none => rfl
  | some c => simpa using find_id h

theorem find_map_ne (cells : List NCell) (c : NCell) (j : Nat) (hj : j ≠ c.id) :
    (cells.map (fun x => if x.id == c.id then c else x)).find? (·.id == j) = cells.find? (·.id == j) := by
  induction cells with
  | nil => rfl
  | cons x xs ih =>
    simp only [List.map_cons, List.find?_cons]
    by_cases hx : x.id = c.id
    · have hb : (x.id == c.id) = true := by simpa using hx
      have h1 : (c.id == j) = false := by simpa using (fun h => hj h.symm)
      have h2 : (x.id == j) = false := by rw [hx]; exact h1
      simp only [hb, ↓reduceIte, h1, h2]
      exact ih
    · have h3 : (x.id == c.id) = false := by simpa using hx
      simp only [h3, Bool.false_eq_true, ↓reduceIte]
      rw [ih]

def HasCell (s : TNotify) (id : Nat) : Prop := ∃ c, s.cells.find? (·.id == id) = some c

theorem find_map_eq (cells : List NCell) (c : NCell) (h : ∃ x, cells.find? (·.id == c.id) = some x) :
    (cells.map (fun x => if x.id == c.id then c else x)).find? (·.id == c.id) = some c := by
  induction cells with
  | nil => rcases h with ⟨x, hx⟩; simp at hx
  | cons x xs ih =>
    simp only [List.map_cons, List.find?_cons]
    by_cases hx : x.id = c.id
    · have hb : (x.id == c.id) = true := by simpa using hx
      simp only [hb, ↓reduceIte, beq_self_eq_true]
    · have h1 : (x.id == c.id) = false := by simpa using hx
      rcases h with ⟨y, hy⟩
      simp only [List.find?_cons, h1] at hy
      simp only [h1, Bool.false_eq_true, ↓reduceIte]
      exact ih ⟨y, hy⟩

theorem cell_setCell_ne (s : TNotify) (c : NCell) (j : Nat) (hj : j ≠ c.id) :
    (s.setCell c).cell j = s.cell j := by
  unfold TNotify.cell TNotify.setCell
  simp only
  rw [find_map_ne s.cells c j hj]

theorem cell_setCell_eq (s : TNotify) (c : NCell) (h : HasCell s c.id) :
    (s.setCell c).cell c.id = c := by
  unfold TNotify.cell TNotify.setCell
  simp only
  rw [find_map_eq s.cells c h]
  rfl

theorem hasCell_setCell (s : TNotify) (c : NCell) (j : Nat) (h : HasCell s j) : HasCell (s.setCell c) j := by
  unfold HasCell TNotify.setCell
  simp only
  by_cases hj : j = c.id
  · subst hj
    exact ⟨c, find_map_eq s.cells c h⟩
  · rw [find_map_ne s.cells c j hj]
    exact h

/-- setting the flag of `id` leaves every other cell alone -/
theorem flagOf_setFlag_ne (s : TNotify) (id j f : Nat) (hj : j ≠ id) :
    (s.setFlag id f).flagOf j = s.flagOf j := by
  have hc : ({ s.cell id with flag := f } : NCell).id = id := cell_id s id
  show ((s.setCell { s.cell id with flag := f }).cell j).flag = (s.cell j).flag
  rw [cell_setCell_ne s _ j (by rw [hc]; exact hj)]

theorem flagOf_setFlag_eq (s : TNotify) (id f : Nat) (h : HasCell s id) :
    (s.setFlag id f).flagOf id = f := by
  have hc : ({ s.cell id with flag := f } : NCell).id = id := cell_id s id
  show ((s.setCell { s.cell id with flag := f }).cell id).flag = f
  have := cell_setCell_eq s { s.cell id with flag := f } (by rw [hc]; exact h)
  rw [hc] at this
  rw [this]

theorem hasCell_setFlag (s : TNotify) (id j f : Nat) (h : HasCell s j) : HasCell (s.setFlag id f) j :=
  hasCell_setCell s _ j h

/-! ### the stored permit -/

theorem setFlag_pending (s : TNotify) (id f : Nat) : (s.setFlag id f).pending = s.pending := rfl
theorem setFlag_waiters (s : TNotify) (id f : Nat) : (s.setFlag id f).waiters = s.waiters := rfl

theorem pollInner_consumed_pending {s : TNotify} {id : Nat} (h : (s.pollInner id).1 = .consumed) :
    (s.pollInner id).2.pending = false := by
  unfold TNotify.pollInner at h ⊢
  by_cases h1 : (s.flagOf id == flagNotified) = true
  · rw [if_pos h1] at h; cases h
  · rw [if_neg h1] at h ⊢
    simp only at h ⊢
    generalize (if s.flagOf id == flagInit then s.setFlag id flagEnabled else s) = s1 at h ⊢
    by_cases h2 : s1.pending = true
    · by_cases h3 : s1.waiters.contains id = true
      · rw [if_pos h2, if_pos h3]; rfl
      · rw [if_pos h2, if_neg h3] at h; cases h
    · rw [if_neg h2] at h; cases h

theorem pollInner_of_not_pending {s : TNotify} {id : Nat} (hp : s.pending = false) :
    (s.pollInner id).1 ≠ .consumed := by
  unfold TNotify.pollInner
  by_cases h1 : (s.flagOf id == flagNotified) = true
  · rw [if_pos h1]; simp
  · rw [if_neg h1]
    simp only
    generalize hs1 : (if s.flagOf id == flagInit then s.setFlag id flagEnabled else s) = s1
    have h2 : ¬ s1.pending = true := by
      rw [← hs1]
      split <;> simp [setFlag_pending, hp]
    rw [if_neg h2]
    simp

/-! ### notify_waiters -/

theorem foldl_setFlag_flag (ids : List Nat) (s : TNotify) (j : Nat) (hc : HasCell s j) :
    HasCell (ids.foldl (fun s id => s.setFlag id flagNotified) s) j ∧
    ((j ∈ ids ∨ s.flagOf j = flagNotified) →
      (ids.foldl (fun s id => s.setFlag id flagNotified) s).flagOf j = flagNotified) := by
  induction ids generalizing s with
  | nil => exact ⟨hc, fun h => h.elim (fun h => by cases h) (fun h => h)⟩
  | cons x xs ih =>
    simp only [List.foldl_cons]
    have hc' := hasCell_setFlag s x j flagNotified hc
    refine ⟨(ih _ hc').1, ?_⟩
    intro h
    apply (ih _ hc').2
    by_cases hx : j = x
    · right; subst hx; exact flagOf_setFlag_eq s j flagNotified hc
    · rcases h with h | h
      · simp only [List.mem_cons] at h
        rcases h with h | h
        · exact absurd h hx
        · left; exact h
      · right; rw [flagOf_setFlag_ne s x j flagNotified hx]; exact h

theorem foldl_setFlag_pw (ids : List Nat) (s : TNotify) :
    (ids.foldl (fun s id => s.setFlag id flagNotified) s).pending = s.pending ∧
    (ids.foldl (fun s id => s.setFlag id flagNotified) s).waiters = s.waiters := by
  induction ids generalizing s with
  | nil => exact ⟨rfl, rfl⟩
  | cons x xs ih =>
    simp only [List.foldl_cons]
    exact ⟨(ih _).1.trans (setFlag_pending s x _), (ih _).2.trans (setFlag_waiters s x _)⟩

/-! ### flags of the other waiters -/

theorem nstep_pollInner {s s' : TNotify} {j : Nat} (h : nstep s (.pollInner j) = some s') :
    s' = (s.pollInner j).2 := by
  simp only [nstep] at h
  split at h
  · cases h
  · rename_i heq; cases h; rw [heq]

theorem pollInner_self_notified {s : TNotify} {id : Nat} (hf : s.flagOf id = flagNotified) :
    s.pollInner id = (.ready, s) := by
  unfold TNotify.pollInner
  rw [if_pos (by simp [hf])]

theorem pollInner_flag_other (s : TNotify) (j id : Nat) (hj : j ≠ id) :
    (s.pollInner j).2.flagOf id = s.flagOf id := by
  unfold TNotify.pollInner
  by_cases h1 : (s.flagOf j == flagNotified) = true
  · rw [if_pos h1]
  · rw [if_neg h1]
    simp only
    generalize hs1 : (if s.flagOf j == flagInit then s.setFlag j flagEnabled else s) = s1
    have h0 : s1.flagOf id = s.flagOf id := by
      rw [← hs1]
      split
      · exact flagOf_setFlag_ne s j id _ (Ne.symm hj)
      · rfl
    by_cases h2 : s1.pending = true
    · rw [if_pos h2]
      by_cases h3 : s1.waiters.contains j = true
      · rw [if_pos h3]
        show (TNotify.setFlag _ j flagNotified).flagOf id = _
        rw [flagOf_setFlag_ne _ j id _ (Ne.symm hj)]
        exact h0
      · rw [if_neg h3]; exact h0
    · rw [if_neg h2]; exact h0

theorem dropNotified_flag_other {s s' : TNotify} {j id : Nat} {effs : List Eff} (hj : j ≠ id)
    (h : s.dropNotified j = .ok (s', effs)) : s'.flagOf id = s.flagOf id := by
  unfold TNotify.dropNotified at h
  simp only [OsCore.dropTx, OsCore.dropRx] at h
  by_cases h1 : ((s.cell j).flag != flagNotified) = true
  · rw [if_pos h1] at h
    by_cases h2 : s.waiters.contains j = true
    · rw [if_pos h2] at h
      cases h
      refine (congrArg NCell.flag (cell_setCell_ne _ _ id ?_)).trans ?_
      · show id ≠ (s.cell j).id
        rw [cell_id]; exact Ne.symm hj
      · rfl
    · rw [if_neg h2] at h; cases h
  · rw [if_neg h1] at h
    cases h
    refine (congrArg NCell.flag (cell_setCell_ne _ _ id ?_)).trans ?_
    · show id ≠ (s.cell j).id
      rw [cell_id]; exact Ne.symm hj
    · rfl

/-! ### oneshot -/

inductive OOp where
  | send (v : Nat)
  | dropTx
  | closeRx
  | dropRx
  | tryRecv
  | recv (cx : Nat)
deriving Repr, DecidableEq

/-- the oneshot channel with its two handles: the `Sender` is consumed by `send` / `dropTx` -/
structure OS where
  core : OsCore := {}
  txAlive : Bool := true
  /-- ghost: values accepted by `send`, values handed to the receiver -/
  sent : List Nat := []
  delivered : List Nat := []

def ostep (o : OS) : OOp → Option OS
  | .send v =>
    if o.txAlive then
      let (ok, c) := o.core.send v
      some { o with core := c.dropTx.1, txAlive := false, sent := if ok then o.sent ++ [v] else o.sent }
    else none
  | .dropTx => if o.txAlive then some { o with core := o.core.dropTx.1, txAlive := false } else none
  | .closeRx => some { o with core := o.core.closeRx.1 }
  | .dropRx => some { o with core := o.core.dropRx.1 }
  | .tryRecv =>
    match o.core.tryRecv with
    | (.value v, c) => some { o with core := c, delivered := o.delivered ++ [v] }
    | (_, c) => some { o with core := c }
  | .recv cx =>
    match o.core.recv cx with
    | (some (some v), c) => some { o with core := c, delivered := o.delivered ++ [v] }
    | (_, c) => some { o with core := c }

inductive OReach : OS → Prop
  | init : OReach {}
  | step {o o' : OS} {op : OOp} : OReach o → ostep o op = some o' → OReach o'

/-- what is in the slot or already delivered is exactly what was sent, and at most one value is sent -/
structure OInv (o : OS) : Prop where
  acct : o.delivered ++ o.core.data.toList = o.sent
  one : o.sent.length ≤ 1
  alive : o.txAlive = true → o.sent = [] ∧ o.core.data = none

theorem ostep_inv {o o' : OS} {op : OOp} (hi : OInv o) (h : ostep o op = some o') : OInv o' := by
  have hacct := hi.acct
  have hone := hi.one
  have halive := hi.alive
  rcases o with ⟨⟨complete, data, rxT, txT⟩, txAlive, sent, delivered⟩
  simp only at hacct hone halive
  cases op with
  | send v =>
    cases txAlive with
    | false => simp [ostep] at h
    | true =>
      have ⟨hs, hd⟩ := halive rfl
      subst hs; subst hd
      cases complete <;> simp [ostep, OsCore.send, OsCore.dropTx] at h <;> subst h <;>
        constructor <;> simp_all
  | dropTx =>
    cases txAlive with
    | false => simp [ostep] at h
    | true =>
      simp [ostep, OsCore.dropTx] at h; subst h
      constructor <;> simp_all
  | closeRx =>
    simp [ostep, OsCore.closeRx] at h; subst h
    constructor <;> simp_all
  | dropRx =>
    simp [ostep, OsCore.dropRx] at h; subst h
    constructor <;> simp_all
  | tryRecv =>
    cases complete <;> cases data <;> simp [ostep, OsCore.tryRecv] at h <;> subst h <;>
      constructor <;> simp_all
  | recv cx =>
    cases complete <;> cases data <;> simp [ostep, OsCore.recv] at h <;> subst h <;>
      constructor <;> simp_all

theorem oreach_inv {o : OS} (h : OReach o) : OInv o := by
  induction h with
  | init => exact ⟨rfl, by simp, fun _ => ⟨rfl, rfl⟩⟩
  | step _ hs ih => exact ostep_inv ih hs

end NotifyLts
end Tokio
end ShuttleModel
