import ShuttleProofs.Lemmas.SemFrame
/-
  The number of permits an `Acquire` asks for never changes, and waiters are created only by
  `Acquire::new`: any property of the requested amounts that holds for the created waiters holds
  for every waiter in the table.
-/
namespace ShuttleModel
namespace SemLts
open Sem (PollOut)

/-- every waiter of the table requests an amount satisfying `P` -/
def AllN (P : Nat → Prop) (T : List Waiter) : Prop := ∀ w ∈ T, P w.n

theorem AllN.tset {P : Nat → Prop} {T : List Waiter} (h : AllN P T) {w' : Waiter} (hw : P w'.n) :
    AllN P (SemLts.tset T w') := by
  intro x hx
  rcases mem_tset.mp hx with ⟨hx, _⟩ | ⟨rfl, _⟩
  · exact h x hx
  · exact hw

theorem AllN.tdrop {P : Nat → Prop} {T : List Waiter} (h : AllN P T) (wid : Nat) :
    AllN P (SemLts.tdrop T wid) := fun x hx => h x (mem_tdrop.mp hx).1

theorem AllN.of_getW {P : Nat → Prop} {s : SemState} (h : AllN P s.table) {wid : Nat} {w : Waiter}
    (hw : s.getW wid = some w) : P w.n := h w (tget_some_mem hw).1

theorem unblockFront_allN (P : Nat → Prop) (fin : Nat → Bool) (q : List Nat) (s : SemState)
    (h : AllN P s.table) : AllN P (SemState.unblockFront fin q s).1.table := by
  induction q generalizing s with
  | nil => exact h
  | cons wid rest ih =>
    rw [SemState.unblockFront]
    cases hw : s.getW wid with
    | none => exact ih s h
    | some w =>
      simp only
      have hn : P w.n := h.of_getW hw
      by_cases hf : fin w.taskId = true
      · rw [if_pos hf]
        exact ih (s.setW (staleW w)) (h.tset (w' := staleW w) hn)
      · rw [if_neg hf]
        by_cases hfit : w.n ≤ s.avail
        · rw [if_pos hfit]
          cases hpa : s.paAcquire w.n w.clock with
          | none => exact h
          | some r =>
            obtain ⟨s', c⟩ := r
            simp only
            obtain ⟨fr, _, _⟩ := paAcquire_some hpa
            have h' : AllN P s'.table := by rw [fr.table]; exact h
            exact ih (s'.setW (grantedW w)) (h'.tset (w' := grantedW w) hn)
        · rw [if_neg hfit]; exact h

theorem clear_allN (P : Nat → Prop) (f : Waiter → Waiter) (hf : ∀ w, (f w).n = w.n) (q : List Nat)
    (s : SemState) (h : AllN P s.table) : AllN P (q.foldl (clearStep f) s).table := by
  induction q generalizing s with
  | nil => exact h
  | cons wid rest ih =>
    simp only [List.foldl_cons]
    apply ih
    unfold clearStep
    cases hw : s.getW wid with
    | none => exact h
    | some w => exact h.tset (w' := f w) (by rw [hf]; exact h.of_getW hw)

theorem removeWaiterPure_allN (P : Nat → Prop) (fin : Nat → Bool) {s s' : SemState}
    {effs : List Eff} {wid : Nat} (h : AllN P s.table)
    (hr : s.removeWaiterPure fin wid = .ok (s', effs)) : AllN P s'.table := by
  obtain ⟨w, idx, hw, hnc, hp, hidx⟩ := removeWaiterPure_pre hr
  rw [removeWaiterPure_eq fin hw hnc hp hidx] at hr
  have hn : P w.n := h.of_getW hw
  have h2 : AllN P (rmState s w idx).table :=
    h.tset (w' := { w with isQueued := false }) hn
  by_cases hb : (s.fair && idx == 0) = true
  · rw [if_pos hb] at hr
    simp only [Except.ok.injEq] at hr
    have := unblockFront_allN P fin (rmState s w idx).queue (rmState s w idx) h2
    rw [hr] at this; exact this
  · rw [if_neg hb] at hr
    simp only [Except.ok.injEq, Prod.mk.injEq] at hr
    rw [← hr.1]; exact h2

theorem pollPure_allN (P : Nat → Prop) {s : SemState} {wid me cx : Nat} {clk : Clock}
    {fin : Nat → Bool} {w0 : Waiter} {o : PollOut} (hi : Inv s) (h : AllN P s.table)
    (hw : s.getW wid = some w0) (hp : s.pollPure wid me cx clk fin = .ok o) : AllN P o.s.table := by
  have hn : P w0.n := h.of_getW hw
  cases pollPure_cases hw hp with
  | granted _ _ ho => subst ho; exact h.tset (w' := finishedW w0) hn
  | closed _ _ _ ho => subst ho; exact h.tset (w' := finishedW w0) hn
  | acquiredFresh _ _ _ s' pc hacq ho =>
    subst ho
    obtain ⟨_, _, ht, _⟩ := acquirePermits_inv hi hacq
    have h1 : AllN P s'.table := by rw [ht]; exact h
    exact (h1.tset (w' := polled w0) hn).tset (w' := gotW (polled w0)) hn
  | acquiredQueued _ _ _ _ _ s' s3 pc effs w4 hacq hrm hw4 ho =>
    subst ho
    obtain ⟨_, _, ht, _⟩ := acquirePermits_inv hi hacq
    have h1 : AllN P s'.table := by rw [ht]; exact h
    have h2 : AllN P (s'.setW (polled w0)).table := h1.tset (w' := polled w0) hn
    have h3 := removeWaiterPure_allN P fin h2 hrm
    have hn4 : P w4.n := h3.of_getW hw4
    exact h3.tset (w' := gotW w4) hn4
  | enqueued _ _ _ _ _ ho =>
    subst ho
    exact AllN.tset (T := s.table) h (w' := enqW w0 me cx) hn
  | stillQueued _ _ _ _ _ _ ho => subst ho; exact h.tset (w' := waitW w0 me cx) hn
  | fairWait _ _ _ _ _ ho => subst ho; exact h.tset (w' := waitW w0 me cx) hn

/-- the requested amounts are immutable and only `Acquire::new` adds waiters -/
theorem step_allN (P : Nat → Prop) (fin : Nat → Bool) {s : SemState} {op : SemOp} {o : StepOut}
    (hi : Inv s) (h : AllN P s.table) (hnew : ∀ task n c, op = .newAcq task n c → P n)
    (hs : step fin s op = .ok o) : AllN P o.s.table := by
  cases op with
  | tryAcquire task n clk =>
    simp only [step] at hs
    cases hacq : s.acquirePermits n clk with
    | error msg => rw [hacq] at hs; cases hs
    | ok r =>
      rw [hacq] at hs
      cases r with
      | ok p =>
        obtain ⟨s', pc⟩ := p
        simp only [Except.ok.injEq] at hs
        subst hs
        obtain ⟨_, _, ht, _⟩ := acquirePermits_inv hi hacq
        simp only [ht]; exact h
      | error e =>
        simp only [Except.ok.injEq] at hs
        subst hs; exact h
  | newAcq task n clk =>
    simp only [step, Except.ok.injEq] at hs
    subst hs
    intro w hw
    have hw' : w ∈ s.table ++ [{ wid := s.nextWid, taskId := task, n := n, clock := clk }] := hw
    rcases List.mem_append.mp hw' with h1 | h1
    · exact h w h1
    · simp only [List.mem_singleton] at h1
      subst h1; exact hnew task n clk rfl
  | poll wid me cx clk =>
    simp only [step] at hs
    cases hw : s.getW wid with
    | none => rw [hw] at hs; cases hs
    | some w0 =>
      rw [hw] at hs
      simp only at hs
      by_cases hc : w0.completed = true
      · rw [if_pos hc] at hs; cases hs
      · rw [if_neg hc] at hs
        cases hpp : s.pollPure wid me cx clk fin with
        | error msg => rw [hpp] at hs; cases hs
        | ok po =>
          rw [hpp] at hs
          simp only [Except.ok.injEq] at hs
          subst hs
          exact pollPure_allN P hi h hw hpp
  | dropAcquire task wid =>
    simp only [step] at hs
    cases hw : s.getW wid with
    | none =>
      rw [hw] at hs
      simp only [Except.ok.injEq] at hs
      subst hs; exact h
    | some w =>
      rw [hw] at hs
      simp only at hs
      by_cases hq : w.isQueued = true
      · rw [if_pos hq] at hs
        cases hrm : s.removeWaiterPure fin wid with
        | error msg => rw [hrm] at hs; cases hs
        | ok r =>
          obtain ⟨s', effs⟩ := r
          rw [hrm] at hs
          simp only [Except.ok.injEq] at hs
          subst hs
          exact (removeWaiterPure_allN P fin h hrm).tdrop wid
      · rw [if_neg hq] at hs
        by_cases hg : (w.hasPermits && !w.completed) = true
        · rw [if_pos hg] at hs
          simp only [Except.ok.injEq] at hs
          subst hs; exact h.tdrop wid
        · rw [if_neg hg] at hs
          simp only [Except.ok.injEq] at hs
          subst hs; exact h.tdrop wid
  | release task n clk =>
    simp only [step] at hs
    by_cases hn : n = 0
    · rw [if_pos hn] at hs
      simp only [Except.ok.injEq] at hs
      subst hs; exact h
    · rw [if_neg hn] at hs
      simp only [Except.ok.injEq] at hs
      subst hs
      simp only [SemState.releasePure]
      by_cases hf : (s.paRelease n clk).fair = true
      · rw [if_pos hf]
        exact unblockFront_allN P fin _ (s.paRelease n clk) h
      · rw [if_neg hf]; exact h
  | close =>
    simp only [step, Except.ok.injEq] at hs
    subst hs
    by_cases hc : s.closed = true
    · have : s.closePure fin = (s, []) := by simp [SemState.closePure, hc]
      rw [this]; exact h
    · rw [closePure_eq fin s (by simpa using hc)]
      exact clear_allN P (fun w => { w with isQueued := false, waker := none }) (fun _ => rfl)
        s.queue s h
  | poisonRelease task n =>
    simp only [step] at hs
    by_cases hn : n = 0
    · rw [if_pos hn] at hs
      simp only [Except.ok.injEq] at hs
      subst hs; exact h
    · rw [if_neg hn] at hs
      simp only [Except.ok.injEq] at hs
      subst hs
      rw [releasePoison_eq]
      exact clear_allN P (fun w => { w with isQueued := false }) (fun _ => rfl)
        (s.paRelease n Clock.new).queue (s.paRelease n Clock.new) h

end SemLts
end ShuttleModel
