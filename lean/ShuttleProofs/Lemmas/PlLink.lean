import ShuttleModel.Wrap.PlLocks
/-
  The link between the `BatchSemaphore` model the differential harness exercises (`SemState`,
  Prim/Sem.lean) and the clock-free strictly fair semaphore the C20 theorems are stated on (`FSem`):
  `SemState.toF` commutes with the three atomic transitions on a concrete scenario (try-acquire, the
  enqueueing poll, a release that grants the queued request).  These are checked instances, not a
  general simulation proof (that needs a well-formedness invariant for the `Acquire` table).
-/
namespace ShuttleProofs.Pl.Link
open ShuttleModel

def s0 : SemState := SemState.constNew 2 true
def s1 : SemState := match s0.acquirePermits 1 Clock.new with | .ok (.ok (s, _)) => s | _ => s0
/-- the state after task 7's `Acquire(2)` was polled once: `Acquire::new`, `enqueue_waiter` -/
def s3 : SemState :=
  let (w, s2) := s1.newAcquire 7 2 Clock.new
  ({ s2 with queue := s2.queue ++ [w] }).setW
    { wid := w, taskId := 7, n := 2, clock := Clock.new, isQueued := true, waker := some 7 }
def s4 := s3.releasePure (fun _ => false) 1 Clock.new

theorem link_tryAcq : s1.toF = (s0.toF.tryAcq 1).getD s0.toF := by decide
theorem link_enqueue : s3.toF = (s1.toF.acq 7 2).2 := by decide
theorem link_release : s4.1.toF = (s3.toF.rel 1).1 := by decide
theorem link_granted : (s3.toF.rel 1).2 = [(7, 2)] ∧ s4.2.contains (Eff.unblock 7) = true := by decide

end ShuttleProofs.Pl.Link
