import ShuttleProofs.Lemmas.ReplaySim
/-!
# Replay lemmas, part 5: the schedule seed stored in the kernel (`Schedule::new(seed)`) is never read

`withSeed sd k` / `stSeed sd st` replace the `seed` field; task segments, `schedule()`, loop iterations and whole runs
commute with that replacement (`execute_seed`).  (Same proof scheme as `KernelSim.lean` for `maxSteps`.)
-/

namespace ShuttleProofs.Replay
open ShuttleModel ShuttleProofs.Kernel

variable {P : Program} {σ : Type}

def withSeed (sd : Nat) (k : Kernel) : Kernel := { k with seed := sd }

def stSeed (sd : Nat) (st : ExecState P σ) : ExecState P σ := { st with k := withSeed sd st.k }

def endSeed (sd : Nat) : SegEnd P σ → SegEnd P σ
  | .atSwitch st => .atSwitch (stSeed sd st)
  | .returned st => .returned (stSeed sd st)
  | .panicked m st => .panicked m (stSeed sd st)
  | .schedPanic m st => .schedPanic m (stSeed sd st)
  | .outOfFuel st => .outOfFuel (stSeed sd st)
  | .aborted m st => .aborted m (stSeed sd st)

def resSeed (sd : Nat) (r : Result P σ) : Result P σ := ⟨r.outcome, stSeed sd r.st⟩

def sumSeed (sd : Nat) : Result P σ ⊕ ExecState P σ → Result P σ ⊕ ExecState P σ
  | .inl r => .inl (resSeed sd r)
  | .inr st => .inr (stSeed sd st)

theorem modTask_withSeed (sd : Nat) (k : Kernel) (t : Nat) (f : Task → Except String Task) :
    (withSeed sd k).modTask t f =
      match k.modTask t f with
      | .ok k' => .ok (withSeed sd k')
      | .error e => .error e := by
  unfold Kernel.modTask Kernel.getTask?
  show (match k.tasks[t]? with
    | none => _
    | some tk => _) = _
  cases k.tasks[t]? with
  | none => rfl
  | some tk =>
    simp only
    cases f tk <;> rfl

theorem spawnTask_withSeed (sd : Nat) (k : Kernel) (me : Nat) :
    (withSeed sd k).spawnTask (some me) =
      ((k.spawnTask (some me)).1, withSeed sd (k.spawnTask (some me)).2) := by
  simp only [Kernel.spawnTask, Kernel.getTask?]
  show (match k.tasks[me]? with
    | none => _
    | some ptk => _) = _
  cases k.tasks[me]? <;> rfl

section segment
variable (S : Scheduler σ) (me fuel : Nat) (sd : Nat)
  (ih : ∀ (st : ExecState P σ) (p : Prog P.U Unit),
    runSegment S me fuel (stSeed sd st) p = endSeed sd (runSegment S me fuel st p))
include ih

theorem onTask_seed (st : ExecState P σ) (t : Nat) (g : Task → Except String Task) (cont : Prog P.U Unit) :
    (match (stSeed sd st).k.modTask t g with
      | .ok k' => runSegment S me fuel { stSeed sd st with k := k' } cont
      | .error e => SegEnd.panicked e (stSeed sd st)) =
    endSeed sd (match st.k.modTask t g with
      | .ok k' => runSegment S me fuel { st with k := k' } cont
      | .error e => SegEnd.panicked e st) := by
  show (match (withSeed sd st.k).modTask t g with
      | .ok k' => runSegment S me fuel { stSeed sd st with k := k' } cont
      | .error e => SegEnd.panicked e (stSeed sd st)) = _
  rw [modTask_withSeed]
  cases st.k.modTask t g with
  | error e => rfl
  | ok k' => exact ih { st with k := k' } cont

theorem runSegment_op_stSeed (st : ExecState P σ) {β : Type} (o : KOp P.U β) (kont : β → Prog P.U Unit) :
    runSegment S me (fuel + 1) (stSeed sd st) (.op o kont) =
      endSeed sd (runSegment S me (fuel + 1) st (.op o kont)) := by
  cases o with
  | switch => rw [runSegment, runSegment]; rfl
  | me => rw [runSegment, runSegment]; exact ih st _
  | getU => rw [runSegment, runSegment]; exact ih st _
  | setU u => rw [runSegment, runSegment]; exact ih { st with u := u } _
  | emit s => rw [runSegment, runSegment]; exact ih { st with log := st.log.push (.obs s) } _
  | block sp => rw [runSegment, runSegment]; exact onTask_seed S me fuel sd ih st _ _ _
  | blockTask t => rw [runSegment, runSegment]; exact onTask_seed S me fuel sd ih st _ _ _
  | sleepUnlessWoken => rw [runSegment, runSegment]; exact onTask_seed S me fuel sd ih st _ _ _
  | unblock t => rw [runSegment, runSegment]; exact onTask_seed S me fuel sd ih st _ _ _
  | wake t =>
    rw [runSegment, runSegment]
    show (if (st.k.current == Cur.stopped || st.k.current == Cur.finished) = true then _ else
      match st.k.tasks[t]? with
      | none => _
      | some tk => _) = _
    split
    · exact ih st _
    · simp only [Kernel.getTask?]
      cases st.k.tasks[t]? with
      | none => rfl
      | some tk =>
        simp only
        split
        · exact ih st _
        · exact onTask_seed S me fuel sd ih st _ _ _
  | isFinished t => rw [runSegment, runSegment]; exact ih st _
  | requestYield =>
    rw [runSegment, runSegment]; exact ih { st with k := { st.k with hasYielded := true } } _
  | rand =>
    rw [runSegment, runSegment]
    show (match S.nextU64 st.sch with
      | (.ok v, s') => _
      | (.error e, s') => _) = _
    rcases S.nextU64 st.sch with ⟨r, s'⟩
    cases r with
    | ok v =>
      exact ih { st with k := { st.k with schedRev := .random :: st.k.schedRev }, sch := s',
                         log := st.log.push (.draw v) } _
    | error e => rfl
  | spawn fut body =>
    rw [runSegment, runSegment]
    have h1 : (stSeed sd st).k.getTask? me = st.k.tasks[me]? := rfl
    have h2 : st.k.getTask? me = st.k.tasks[me]? := rfl
    simp only [Kernel.spawnTask, h1, h2]
    cases st.k.tasks[me]? with
    | none => exact ih { st with conts := st.conts ++ [P.bodies body] } _
    | some ptk =>
      exact ih { st with
        k := { st.k.setTask me { ptk with clock := (ptk.clock.increment me).extend st.k.tasks.length } with
          tasks := (st.k.setTask me { ptk with clock := (ptk.clock.increment me).extend st.k.tasks.length }).tasks
            ++ [{ clock := (ptk.clock.increment me).extend st.k.tasks.length, parent := some me }] },
        conts := st.conts ++ [P.bodies body] } _
  | park =>
    rw [runSegment, runSegment]
    show (match st.k.tasks[me]? with
      | none => _
      | some tk => _) = _
    simp only [Kernel.getTask?]
    cases st.k.tasks[me]? with
    | none => rfl
    | some tk =>
      simp only
      cases tk.park with
      | error e => rfl
      | ok x => exact ih { st with k := st.k.setTask me x.2 } _
  | unpark t => rw [runSegment, runSegment]; exact onTask_seed S me fuel sd ih st _ _ _
  | setWaiter target =>
    rw [runSegment, runSegment]
    show (match st.k.tasks[target]? with
      | none => _
      | some tk => _) = _
    simp only [Kernel.getTask?]
    cases st.k.tasks[target]? with
    | none => rfl
    | some tk =>
      simp only
      cases tk.setWaiter me with
      | error e => rfl
      | ok x => exact ih { st with k := st.k.setTask target x.2 } _
  | takeWaiter =>
    rw [runSegment, runSegment]
    show (match st.k.tasks[me]? with
      | none => _
      | some tk => _) = _
    simp only [Kernel.getTask?]
    cases st.k.tasks[me]? with
    | none => rfl
    | some tk => exact ih { st with k := st.k.setTask me { tk with waiter := none } } _
  | detach t => rw [runSegment, runSegment]; exact onTask_seed S me fuel sd ih st _ _ _
  | clock => rw [runSegment, runSegment]; exact ih st _
  | clockOf t => rw [runSegment, runSegment]; exact ih st _
  | updateClock c => rw [runSegment, runSegment]; exact onTask_seed S me fuel sd ih st _ _ _
  | incClock =>
    rw [runSegment, runSegment]
    show (match st.k.tasks[me]? with
      | none => _
      | some tk => _) = _
    simp only [Kernel.getTask?]
    cases st.k.tasks[me]? with
    | none => rfl
    | some tk => exact ih { st with k := st.k.setTask me { tk with clock := tk.clock.increment me } } _
  | joinClockOf t c => rw [runSegment, runSegment]; exact onTask_seed S me fuel sd ih st _ _ _
  | exitTruncates => rw [runSegment, runSegment]; exact ih st _
  | resetSteps =>
    rw [runSegment, runSegment]; exact ih { st with k := { st.k with stepsResetAt := st.k.schedLen } } _
  | ctxSwitches => rw [runSegment, runSegment]; exact ih st _
  | isPanicking => rw [runSegment, runSegment]; exact ih st _

end segment

/-- **A task segment never reads `maxSteps`.** -/
theorem runSegment_stSeed (S : Scheduler σ) (me : Nat) (sd : Nat) :
    ∀ (fuel : Nat) (st : ExecState P σ) (p : Prog P.U Unit),
      runSegment S me fuel (stSeed sd st) p = endSeed sd (runSegment S me fuel st p)
  | 0, st, p => by rw [runSegment, runSegment]; rfl
  | fuel + 1, st, .pure () => by
    rw [runSegment, runSegment]
    show (match st.k.panicking with
      | some (t, msg) => _
      | none => _) = _
    cases st.k.panicking with
    | none => rfl
    | some x =>
      obtain ⟨t, msg⟩ := x
      simp only
      split
      · rfl
      · show (match st.k.alsoPanicking.find? (·.1 == me) with
          | some (_, msg') => _
          | none => _) = _
        cases st.k.alsoPanicking.find? (·.1 == me) with
        | none => rfl
        | some y => rfl
  | fuel + 1, st, .panic msg => by
    rw [runSegment, runSegment]
    show (match st.k.panicking with
      | some (t, _) => _
      | none => _) = _
    cases st.k.panicking with
    | none => exact runSegment_stSeed S me sd fuel { st with k := { st.k with panicking := some (me, msg) } } _
    | some x =>
      obtain ⟨t, m⟩ := x
      simp only
      show (if (t == me || st.k.alsoPanicking.any (·.1 == me)) = true then _ else _) = _
      split
      · rfl
      · exact runSegment_stSeed S me sd fuel
          { st with k := { st.k with alsoPanicking := st.k.alsoPanicking ++ [(me, msg)] } } _
  | fuel + 1, st, .op o kont =>
    runSegment_op_stSeed S me fuel sd (runSegment_stSeed S me sd fuel) st o kont

theorem finishSeg_endSeed (sd : Nat) (t : Nat) (e : SegEnd P σ) :
    finishSeg t (endSeed sd e) = sumSeed sd (finishSeg t e) := by
  cases e with
  | returned st' =>
    simp only [endSeed, finishSeg]
    show (match (withSeed sd st'.k).modTask t (fun x => x.finish) with
      | .ok k' => _
      | .error e => _) = _
    rw [modTask_withSeed]
    cases st'.k.modTask t (fun x => x.finish) <;> rfl
  | _ => rfl

/-! ### `schedule()` -/

def stepSeed {σ : Type} (sd : Nat) : Kernel.SchedStep σ → Kernel.SchedStep σ
  | .ok k s ev => .ok (withSeed sd k) s ev
  | .err e k s => .err e (withSeed sd k) s
  | .schedPanic m k s => .schedPanic m (withSeed sd k) s

theorem scheduleCore_withSeed (S : Scheduler σ) (sd : Nat) (k : Kernel) (s : σ) :
    scheduleCore S (withSeed sd k) s = stepSeed sd (scheduleCore S k s) := by
  unfold scheduleCore
  have he : endsHere (withSeed sd k) = endsHere k := rfl
  have ha : ask S (withSeed sd k) s = ask S k s := rfl
  have ht : ∀ t : Nat, (withSeed sd k).tasks[t]? = k.tasks[t]? := fun _ => rfl
  rw [he, ha]
  cases endsHere k with
  | true => rfl
  | false =>
    simp only [Bool.false_eq_true, if_false]
    rcases ask S k s with ⟨ans, s'⟩
    cases ans with
    | panic msg => rfl
    | choose ch =>
      cases ch with
      | none => rfl
      | some t =>
        simp only [ht]
        cases k.tasks[t]? with
        | none => rfl
        | some tk =>
          simp only
          split
          · rfl
          · split
            · split
              · rfl
              · cases tk.unblock <;> rfl
            · rfl

theorem schedule_withSeed (S : Scheduler σ) (sd : Nat) (k : Kernel) (s : σ) :
    (withSeed sd k).schedule S s = stepSeed sd (k.schedule S s) := by
  rw [schedule_eq, schedule_eq]
  have hn : (withSeed sd k).next = k.next := rfl
  have hm : (withSeed sd k).maxSteps = k.maxSteps := rfl
  have hx : ∀ n, (withSeed sd k).stepBoundExceeded n = k.stepBoundExceeded n := fun _ => rfl
  rw [hn, hm]
  split
  · rfl
  · cases k.maxSteps with
    | none => exact scheduleCore_withSeed S _ k s
    | failAfter n =>
      simp only [hx]
      split
      · rfl
      · exact scheduleCore_withSeed S _ k s
    | continueAfter n =>
      simp only [hx]
      split
      · rfl
      · exact scheduleCore_withSeed S _ k s

/-! ### one iteration, whole runs -/

theorem advance_withSeed (sd : Nat) (k : Kernel) : (withSeed sd k).advance = withSeed sd k.advance := by
  obtain ⟨tasks, current, next, hy, cs, ra, sr, seed, ms', pk, ap⟩ := k
  cases next <;> rfl

theorem afterSched_stSeed (sd : Nat) (st : ExecState P σ) (k : Kernel) (s : σ) (ev : Option Ev) :
    afterSched (stSeed sd st) (withSeed sd k) s ev = stSeed sd (afterSched st k s ev) := by
  unfold afterSched
  rw [advance_withSeed]
  rfl

theorem afterOk_stSeed (S : Scheduler σ) (segFuel : Nat) (sd : Nat) (st1 : ExecState P σ) (ev : Option Ev) :
    afterOk S segFuel (stSeed sd st1) ev = sumSeed sd (afterOk S segFuel st1 ev) := by
  unfold afterOk
  have hc : (stSeed sd st1).k.current = st1.k.current := rfl
  rw [hc]
  cases hcur : st1.k.current with
  | none => rfl
  | stopped => rfl
  | finished =>
    simp only
    have hu : (stSeed sd st1).k.unfinishedAttached = st1.k.unfinishedAttached := rfl
    rw [hu]
    cases st1.k.unfinishedAttached <;> rfl
  | some t =>
    simp only
    have hp : (stSeed sd st1).conts[t]? = st1.conts[t]? := rfl
    rw [hp]
    cases st1.conts[t]? with
    | none => rfl
    | some p =>
      simp only
      rw [runSegment_stSeed, finishSeg_endSeed]

theorem loopStep_stSeed (S : Scheduler σ) (segFuel : Nat) (sd : Nat) (st : ExecState P σ) :
    loopStep S segFuel (stSeed sd st) = sumSeed sd (loopStep S segFuel st) := by
  have e1 : (stSeed sd st).k.schedule S (stSeed sd st).sch = stepSeed sd (st.k.schedule S st.sch) :=
    schedule_withSeed S sd st.k st.sch
  unfold loopStep
  rw [e1]
  cases st.k.schedule S st.sch with
  | err e k s => cases e <;> rfl
  | schedPanic msg k s => rfl
  | ok k s ev =>
    simp only [stepSeed]
    rw [afterSched_stSeed, afterOk_stSeed]

theorem runLoop_stSeed (S : Scheduler σ) (segFuel : Nat) (sd : Nat) :
    ∀ (fuel : Nat) (st : ExecState P σ),
      runLoop S segFuel fuel (stSeed sd st) = resSeed sd (runLoop S segFuel fuel st)
  | 0, st => by rw [runLoop_zero, runLoop_zero]; rfl
  | fuel + 1, st => by
    rw [runLoop_succ, runLoop_succ, loopStep_stSeed S segFuel sd st]
    cases h : loopStep S segFuel st with
    | inl r => rfl
    | inr st' =>
      simp only [sumSeed]
      exact runLoop_stSeed S segFuel sd fuel st'

/-- **The schedule seed does not influence an execution**: executing with seed `sd` instead of `seed` gives the
same result, except for the `seed` field stored in the kernel. -/
theorem execute_seed (P : Program) (S : Scheduler σ) (ms : MaxSteps) (seed sd : Nat) (s : σ) (fuel segFuel : Nat) :
    execute P S ms sd s fuel segFuel = resSeed sd (execute P S ms seed s fuel segFuel) := by
  rw [execute_eq, execute_eq, ← runLoop_stSeed]
  rfl

theorem resSeed_outcome (sd : Nat) (r : Result P σ) : (resSeed sd r).outcome = r.outcome := rfl
theorem resSeed_log (sd : Nat) (r : Result P σ) : (resSeed sd r).st.log = r.st.log := rfl
theorem resSeed_sch (sd : Nat) (r : Result P σ) : (resSeed sd r).st.sch = r.st.sch := rfl
theorem resSeed_u (sd : Nat) (r : Result P σ) : (resSeed sd r).st.u = r.st.u := rfl
theorem resSeed_schedule (sd : Nat) (r : Result P σ) : (resSeed sd r).st.k.schedule_ = r.st.k.schedule_ := rfl

end ShuttleProofs.Replay
