import ShuttleModel.Prim.Locks
/-!
# Atomics (C04, atomic part): every atomic operation is one scheduling point followed by one
indivisible, switch-free segment that performs std's `fetch_update` on the value.
-/
namespace ShuttleModel

/-! ### Part 1: switch-free programs -/

/-- is the request the scheduling point `thread::switch()` -/
def KOp.isSwitch {U : Type} : {β : Type} → KOp U β → Bool
  | _, .switch => true
  | _, _ => false

namespace Prog
variable {U : Type}

/-- no `thread::switch()` request anywhere in the program -/
inductive SwitchFree : {α : Type} → Prog U α → Prop
  | pure {α : Type} (a : α) : SwitchFree (Prog.pure a)
  | panic {α : Type} (m : String) : SwitchFree (Prog.panic m : Prog U α)
  | op {α β : Type} (o : KOp U β) (k : β → Prog U α) :
      o.isSwitch = false → (∀ b, SwitchFree (k b)) → SwitchFree (Prog.op o k)

@[simp] theorem pure_bind' {α β : Type} (a : α) (f : α → Prog U β) : (Prog.pure a) >>= f = f a := rfl
@[simp] theorem pure_bind'' {α β : Type} (a : α) (f : α → Prog U β) :
    (Pure.pure a : Prog U α) >>= f = f a := rfl
@[simp] theorem op_bind {α β γ : Type} (o : KOp U γ) (k : γ → Prog U α) (f : α → Prog U β) :
    (Prog.op o k) >>= f = Prog.op o (fun b => k b >>= f) := rfl
@[simp] theorem panic_bind {α β : Type} (m : String) (f : α → Prog U β) :
    (Prog.panic m : Prog U α) >>= f = Prog.panic m := rfl
@[simp] theorem lift_bind {α β : Type} (o : KOp U α) (f : α → Prog U β) :
    (Prog.lift o) >>= f = Prog.op o f := rfl

theorem bind_assoc' {α β γ : Type} (p : Prog U α) (f : α → Prog U β) (g : β → Prog U γ) :
    (p >>= f) >>= g = p >>= fun a => f a >>= g := by
  induction p with
  | pure a => rfl
  | panic m => rfl
  | op o k ih => simp only [op_bind]; congr 1; funext b; exact ih b

theorem bind_pure' {α : Type} (p : Prog U α) : p >>= Prog.pure = p := by
  induction p with
  | pure a => rfl
  | panic m => rfl
  | op o k ih => simp only [op_bind]; congr 1; funext b; exact ih b

theorem SwitchFree.bind {α β : Type} {p : Prog U α} {f : α → Prog U β}
    (hp : p.SwitchFree) (hf : ∀ a, (f a).SwitchFree) : (p >>= f).SwitchFree := by
  induction hp with
  | pure a => exact hf a
  | panic m => exact SwitchFree.panic m
  | op o k ho _ ih => exact SwitchFree.op o _ ho (fun b => ih b)

theorem SwitchFree.lift {β : Type} (o : KOp U β) (ho : o.isSwitch = false) : (Prog.lift o).SwitchFree :=
  SwitchFree.op o _ ho (fun b => SwitchFree.pure b)

theorem SwitchFree.pure' {α : Type} (a : α) : (Pure.pure a : Prog U α).SwitchFree := SwitchFree.pure a

end Prog

namespace K
variable {U : Type}

theorem getU_switchFree : (K.getU : Prog U U).SwitchFree := Prog.SwitchFree.lift _ rfl
theorem setU_switchFree (u : U) : (K.setU u).SwitchFree := Prog.SwitchFree.lift _ rfl
theorem getL_switchFree {S : Type} (L : Lens U S) : (K.getL L).SwitchFree :=
  getU_switchFree.bind (fun _ => Prog.SwitchFree.pure _)
theorem setL_switchFree {S : Type} (L : Lens U S) (s : S) : (K.setL L s).SwitchFree :=
  getU_switchFree.bind (fun _ => setU_switchFree _)
theorem updateClock_switchFree (c : Clock) : (K.updateClock c : Prog U Unit).SwitchFree :=
  Prog.SwitchFree.lift _ rfl
theorem incClock_switchFree : (K.incClock : Prog U Clock).SwitchFree := Prog.SwitchFree.lift _ rfl
/-- the scheduling point itself is (of course) not switch-free: the predicate is not vacuous -/
theorem switch_not_switchFree : ¬ (K.switch : Prog U Unit).SwitchFree := by
  intro h; cases h with | op _ _ ho _ => cases ho

end K

namespace Atomic
variable {U : Type}

theorem exhale_switchFree (L : Lens U AtomicState) : (exhale L).SwitchFree :=
  (K.getL_switchFree L).bind fun _ => (K.setL_switchFree L _).bind fun _ => K.updateClock_switchFree _

theorem inhale_switchFree (L : Lens U AtomicState) : (inhale L).SwitchFree :=
  (K.getL_switchFree L).bind fun _ => K.incClock_switchFree.bind fun _ => K.setL_switchFree L _

end Atomic

/-! ### Part 2a: every atomic operation is `switch; body` with a switch-free body -/

namespace Atomic
variable {U : Type}

/-- what `load` does after its scheduling point -/
def loadBody (L : Lens U AtomicState) : Prog U Nat := do
  exhale L
  let a ← K.getL L
  pure a.value

def storeBody (L : Lens U AtomicState) (v : Nat) : Prog U Unit := do
  inhale L
  let a ← K.getL L
  K.setL L { a with value := v % 2 ^ a.bits }

def swapBody (L : Lens U AtomicState) (v : Nat) : Prog U Nat := do
  exhale L
  inhale L
  let a ← K.getL L
  K.setL L { a with value := v % 2 ^ a.bits }
  pure a.value

def fetchUpdateBody (L : Lens U AtomicState) (f : Nat → Option Nat) : Prog U (Bool × Nat) := do
  exhale L
  let a ← K.getL L
  match f a.value with
  | some v =>
    K.setL L { a with value := v % 2 ^ a.bits }
    inhale L
    pure (true, a.value)
  | none => pure (false, a.value)

theorem load_eq (L : Lens U AtomicState) : load L = K.switch >>= fun _ => loadBody L := rfl
theorem store_eq (L : Lens U AtomicState) (v : Nat) : store L v = K.switch >>= fun _ => storeBody L v := rfl
theorem swap_eq (L : Lens U AtomicState) (v : Nat) : swap L v = K.switch >>= fun _ => swapBody L v := rfl
theorem fetchUpdate_eq (L : Lens U AtomicState) (f : Nat → Option Nat) :
    fetchUpdate L f = K.switch >>= fun _ => fetchUpdateBody L f := rfl

theorem load_eq_op (L : Lens U AtomicState) : load L = Prog.op .switch (fun _ => loadBody L) := rfl
theorem store_eq_op (L : Lens U AtomicState) (v : Nat) :
    store L v = Prog.op .switch (fun _ => storeBody L v) := rfl
theorem swap_eq_op (L : Lens U AtomicState) (v : Nat) :
    swap L v = Prog.op .switch (fun _ => swapBody L v) := rfl
theorem fetchUpdate_eq_op (L : Lens U AtomicState) (f : Nat → Option Nat) :
    fetchUpdate L f = Prog.op .switch (fun _ => fetchUpdateBody L f) := rfl

theorem loadBody_switchFree (L : Lens U AtomicState) : (loadBody L).SwitchFree :=
  (exhale_switchFree L).bind fun _ => (K.getL_switchFree L).bind fun _ => Prog.SwitchFree.pure _

theorem storeBody_switchFree (L : Lens U AtomicState) (v : Nat) : (storeBody L v).SwitchFree :=
  (inhale_switchFree L).bind fun _ => (K.getL_switchFree L).bind fun _ => K.setL_switchFree L _

theorem swapBody_switchFree (L : Lens U AtomicState) (v : Nat) : (swapBody L v).SwitchFree :=
  (exhale_switchFree L).bind fun _ => (inhale_switchFree L).bind fun _ =>
    (K.getL_switchFree L).bind fun _ => (K.setL_switchFree L _).bind fun _ => Prog.SwitchFree.pure _

theorem fetchUpdateBody_switchFree (L : Lens U AtomicState) (f : Nat → Option Nat) :
    (fetchUpdateBody L f).SwitchFree :=
  (exhale_switchFree L).bind fun _ => (K.getL_switchFree L).bind fun a => by
    cases h : f a.value with
    | none => simp only []; exact Prog.SwitchFree.pure _
    | some v =>
      simp only []
      exact (K.setL_switchFree L _).bind fun _ => (inhale_switchFree L).bind fun _ => Prog.SwitchFree.pure _

end Atomic

/-- **Every atomic operation is exactly one scheduling point, at its very beginning, followed by a
switch-free body** (equality of programs). -/
theorem Atomic.ops_are_switch_then_switchFree_body {U : Type} (L : Lens U AtomicState) :
    (Atomic.load L = Prog.op .switch (fun _ => Atomic.loadBody L) ∧ (Atomic.loadBody L).SwitchFree) ∧
    (∀ v, Atomic.store L v = Prog.op .switch (fun _ => Atomic.storeBody L v) ∧
      (Atomic.storeBody L v).SwitchFree) ∧
    (∀ v, Atomic.swap L v = Prog.op .switch (fun _ => Atomic.swapBody L v) ∧
      (Atomic.swapBody L v).SwitchFree) ∧
    (∀ f, Atomic.fetchUpdate L f = Prog.op .switch (fun _ => Atomic.fetchUpdateBody L f) ∧
      (Atomic.fetchUpdateBody L f).SwitchFree) :=
  ⟨⟨rfl, Atomic.loadBody_switchFree L⟩, fun v => ⟨rfl, Atomic.storeBody_switchFree L v⟩,
    fun v => ⟨rfl, Atomic.swapBody_switchFree L v⟩, fun f => ⟨rfl, Atomic.fetchUpdateBody_switchFree L f⟩⟩

/-! ### Part 2b: the body is std's `fetch_update`, run as one indivisible piece of a segment -/

/-- the lens laws (very well-behaved lens) -/
structure Lens.Lawful {U S : Type} (L : Lens U S) : Prop where
  get_set : ∀ (s : S) (u : U), L.get (L.set s u) = s
  set_get : ∀ (u : U), L.set (L.get u) u = u
  set_set : ∀ (s s' : S) (u : U), L.set s (L.set s' u) = L.set s u

/-- std's `fetch_update(f)` on an integer atomic of `bits` bits: new state, `Ok`/`Err`, previous value -/
def AtomicState.rmw (a : AtomicState) (f : Nat → Option Nat) : AtomicState × Bool × Nat :=
  match f a.value with
  | some v => ({ a with value := v % 2 ^ a.bits }, true, a.value)
  | none => (a, false, a.value)

section Run
variable {P : Program} {σ : Type} (S : Scheduler σ) (me : Nat)

/-! one-request steps of `runSegment` -/

theorem runSegment_getU (fuel : Nat) (st : ExecState P σ) (kont : P.U → Prog P.U Unit) :
    runSegment S me (fuel + 1) st (.op .getU kont) = runSegment S me fuel st (kont st.u) := by
  rw [runSegment]

theorem runSegment_setU (fuel : Nat) (st : ExecState P σ) (u : P.U) (kont : Unit → Prog P.U Unit) :
    runSegment S me (fuel + 1) st (.op (.setU u) kont) = runSegment S me fuel { st with u := u } (kont ()) := by
  rw [runSegment]

theorem runSegment_updateClock (fuel : Nat) (st : ExecState P σ) (c : Clock) (kont : Unit → Prog P.U Unit)
    (tk : Task) (h : st.k.tasks[me]? = some tk) :
    runSegment S me (fuel + 1) st (.op (.updateClock c) kont) =
      runSegment S me fuel
        { st with k := st.k.setTask me { tk with clock := (tk.clock.increment me).update c } } (kont ()) := by
  rw [runSegment]
  simp only [Kernel.modTask, Kernel.getTask?, h]

theorem runSegment_incClock (fuel : Nat) (st : ExecState P σ) (kont : Clock → Prog P.U Unit)
    (tk : Task) (h : st.k.tasks[me]? = some tk) :
    runSegment S me (fuel + 1) st (.op .incClock kont) =
      runSegment S me fuel
        { st with k := st.k.setTask me { tk with clock := tk.clock.increment me } }
        (kont (tk.clock.increment me)) := by
  rw [runSegment]
  simp only [Kernel.getTask?, h]

theorem runSegment_switch (fuel : Nat) (st : ExecState P σ) (kont : Unit → Prog P.U Unit) :
    runSegment S me (fuel + 1) st (.op .switch kont) =
      .atSwitch { st with conts := st.conts.set me (kont ()) } := by
  rw [runSegment]

end Run

namespace Atomic
variable {P : Program} {σ : Type} (S : Scheduler σ) (me : Nat)

/-- `st` with the atomic behind `L` replaced by `a` and task `me`'s clock replaced by `c`; everything else
(rest of the shared state, every other task, every other field of task `me`, continuations, scheduler,
log) as in `st` -/
def frame (L : Lens P.U AtomicState) (me : Nat) (tk : Task) (st : ExecState P σ) (a : AtomicState)
    (c : Clock) : ExecState P σ :=
  { st with u := L.set a st.u, k := st.k.setTask me { tk with clock := c } }

variable {L : Lens P.U AtomicState}

theorem frame_self (hL : L.Lawful) {st : ExecState P σ} {tk : Task} (h : st.k.tasks[me]? = some tk) :
    frame L me tk st (L.get st.u) tk.clock = st := by
  have hlt : me < st.k.tasks.length := by
    rcases Nat.lt_or_ge me st.k.tasks.length with h' | h'
    · exact h'
    · rw [List.getElem?_eq_none h'] at h; cases h
  have hget : st.k.tasks[me] = tk := by
    rw [List.getElem?_eq_getElem hlt] at h; exact Option.some.inj h
  have : st.k.tasks.set me tk = st.k.tasks := by
    rw [← hget]; exact List.set_getElem_self hlt
  simp only [frame, hL.set_get, Kernel.setTask, this]

theorem frame_tasks {st : ExecState P σ} (tk : Task) (a : AtomicState) (c : Clock)
    (hlt : me < st.k.tasks.length) :
    (frame L me tk st a c).k.tasks[me]? = some { tk with clock := c } := by
  simp only [frame, Kernel.setTask]
  rw [List.getElem?_set_self hlt]

theorem run_getL (hL : L.Lawful) (fuel : Nat) (st : ExecState P σ) (tk : Task) (a : AtomicState) (c : Clock)
    (k : AtomicState → Prog P.U Unit) :
    runSegment S me (fuel + 1) (frame L me tk st a c) (K.getL L >>= k) =
      runSegment S me fuel (frame L me tk st a c) (k a) := by
  simp only [K.getL, K.getU, Prog.lift_bind, Prog.op_bind, Prog.pure_bind'', runSegment_getU]
  simp only [frame, hL.get_set]

theorem run_setL (hL : L.Lawful) (fuel : Nat) (st : ExecState P σ) (tk : Task) (a a' : AtomicState) (c : Clock)
    (k : Unit → Prog P.U Unit) :
    runSegment S me (fuel + 2) (frame L me tk st a c) (K.setL L a' >>= k) =
      runSegment S me fuel (frame L me tk st a' c) (k ()) := by
  simp only [K.setL, K.getU, K.setU, Prog.lift_bind, Prog.op_bind, runSegment_getU, runSegment_setU]
  simp only [frame, hL.set_set]

theorem run_updateClock (fuel : Nat) (st : ExecState P σ) (tk : Task) (a : AtomicState) (c c0 : Clock)
    (hlt : me < st.k.tasks.length) (k : Unit → Prog P.U Unit) :
    runSegment S me (fuel + 1) (frame L me tk st a c) (K.updateClock c0 >>= k) =
      runSegment S me fuel (frame L me tk st a ((c.increment me).update c0)) (k ()) := by
  simp only [K.updateClock, Prog.lift_bind]
  rw [runSegment_updateClock S me fuel _ c0 k _ (frame_tasks me tk a c hlt)]
  simp only [frame, Kernel.setTask, List.set_set]

theorem run_incClock (fuel : Nat) (st : ExecState P σ) (tk : Task) (a : AtomicState) (c : Clock)
    (hlt : me < st.k.tasks.length) (k : Clock → Prog P.U Unit) :
    runSegment S me (fuel + 1) (frame L me tk st a c) (K.incClock >>= k) =
      runSegment S me fuel (frame L me tk st a (c.increment me)) (k (c.increment me)) := by
  simp only [K.incClock, Prog.lift_bind]
  rw [runSegment_incClock S me fuel _ k _ (frame_tasks me tk a c hlt)]
  simp only [frame, Kernel.setTask, List.set_set]

/-- effect of `exhale_clock` on (atomic, own clock) -/
def exhaleSpec (me : Nat) (a : AtomicState) (c : Clock) : AtomicState × Clock :=
  ({ a with clock := some (a.clock.getD Clock.new) }, (c.increment me).update (a.clock.getD Clock.new))

/-- effect of `inhale_clock` on (atomic, own clock) -/
def inhaleSpec (me : Nat) (a : AtomicState) (c : Clock) : AtomicState × Clock :=
  ({ a with clock := some ((a.clock.getD Clock.new).update (c.increment me)) }, c.increment me)

theorem run_exhale (hL : L.Lawful) (fuel : Nat) (st : ExecState P σ) (tk : Task) (a : AtomicState) (c : Clock)
    (hlt : me < st.k.tasks.length) (k : Unit → Prog P.U Unit) :
    runSegment S me (fuel + 4) (frame L me tk st a c) (exhale L >>= k) =
      runSegment S me fuel (frame L me tk st (exhaleSpec me a c).1 (exhaleSpec me a c).2) (k ()) := by
  simp only [exhale, Prog.bind_assoc']
  rw [run_getL S me hL, run_setL S me hL, run_updateClock S me _ _ _ _ _ _ hlt]
  rfl

theorem run_inhale (hL : L.Lawful) (fuel : Nat) (st : ExecState P σ) (tk : Task) (a : AtomicState) (c : Clock)
    (hlt : me < st.k.tasks.length) (k : Unit → Prog P.U Unit) :
    runSegment S me (fuel + 4) (frame L me tk st a c) (inhale L >>= k) =
      runSegment S me fuel (frame L me tk st (inhaleSpec me a c).1 (inhaleSpec me a c).2) (k ()) := by
  simp only [inhale, Prog.bind_assoc']
  rw [run_getL S me hL, run_incClock S me _ _ _ _ _ hlt, run_setL S me hL]
  rfl

/-! effect of each body on (atomic, own clock), as pure functions -/

def loadSpec (me : Nat) (a : AtomicState) (c : Clock) : AtomicState × Clock := exhaleSpec me a c

def storeSpec (me : Nat) (v : Nat) (a : AtomicState) (c : Clock) : AtomicState × Clock :=
  ({ (inhaleSpec me a c).1 with value := v % 2 ^ a.bits }, (inhaleSpec me a c).2)

def swapSpec (me : Nat) (v : Nat) (a : AtomicState) (c : Clock) : AtomicState × Clock :=
  storeSpec me v (exhaleSpec me a c).1 (exhaleSpec me a c).2

def fetchUpdateSpec (me : Nat) (f : Nat → Option Nat) (a : AtomicState) (c : Clock) : AtomicState × Clock :=
  match f a.value with
  | some v => inhaleSpec me { (exhaleSpec me a c).1 with value := v % 2 ^ a.bits } (exhaleSpec me a c).2
  | none => exhaleSpec me a c

/-- number of kernel requests `fetch_update` issues after its scheduling point -/
def fetchUpdateCost (f : Nat → Option Nat) (a : AtomicState) : Nat :=
  match f a.value with
  | some _ => 11
  | none => 5

theorem run_loadBody (hL : L.Lawful) (fuel : Nat) (st : ExecState P σ) (tk : Task) (a : AtomicState)
    (c : Clock) (hlt : me < st.k.tasks.length) (k : Nat → Prog P.U Unit) :
    runSegment S me (fuel + 5) (frame L me tk st a c) (loadBody L >>= k) =
      runSegment S me fuel (frame L me tk st (loadSpec me a c).1 (loadSpec me a c).2) (k a.value) := by
  simp only [loadBody, Prog.bind_assoc']
  rw [run_exhale S me hL _ _ _ _ _ hlt, run_getL S me hL]
  rfl

theorem run_storeBody (hL : L.Lawful) (fuel : Nat) (st : ExecState P σ) (tk : Task) (a : AtomicState)
    (c : Clock) (hlt : me < st.k.tasks.length) (v : Nat) (k : Unit → Prog P.U Unit) :
    runSegment S me (fuel + 7) (frame L me tk st a c) (storeBody L v >>= k) =
      runSegment S me fuel (frame L me tk st (storeSpec me v a c).1 (storeSpec me v a c).2) (k ()) := by
  simp only [storeBody, Prog.bind_assoc']
  rw [run_inhale S me hL _ _ _ _ _ hlt, run_getL S me hL, run_setL S me hL]
  rfl

theorem run_swapBody (hL : L.Lawful) (fuel : Nat) (st : ExecState P σ) (tk : Task) (a : AtomicState)
    (c : Clock) (hlt : me < st.k.tasks.length) (v : Nat) (k : Nat → Prog P.U Unit) :
    runSegment S me (fuel + 11) (frame L me tk st a c) (swapBody L v >>= k) =
      runSegment S me fuel (frame L me tk st (swapSpec me v a c).1 (swapSpec me v a c).2) (k a.value) := by
  simp only [swapBody, Prog.bind_assoc']
  rw [run_exhale S me hL _ _ _ _ _ hlt, run_inhale S me hL _ _ _ _ _ hlt, run_getL S me hL,
    run_setL S me hL]
  rfl

theorem run_fetchUpdateBody (hL : L.Lawful) (fuel : Nat) (st : ExecState P σ) (tk : Task) (a : AtomicState)
    (c : Clock) (hlt : me < st.k.tasks.length) (f : Nat → Option Nat) (k : Bool × Nat → Prog P.U Unit) :
    runSegment S me (fuel + fetchUpdateCost f a) (frame L me tk st a c) (fetchUpdateBody L f >>= k) =
      runSegment S me fuel (frame L me tk st (fetchUpdateSpec me f a c).1 (fetchUpdateSpec me f a c).2)
        (k (a.rmw f).2) := by
  simp only [fetchUpdateBody, Prog.bind_assoc']
  cases hf : f a.value with
  | none =>
    have hc : fetchUpdateCost f a = 5 := by simp only [fetchUpdateCost, hf]
    rw [hc, run_exhale S me hL _ _ _ _ _ hlt, run_getL S me hL]
    simp only [exhaleSpec, fetchUpdateSpec, AtomicState.rmw, hf]
    rfl
  | some v =>
    have hc : fetchUpdateCost f a = 11 := by simp only [fetchUpdateCost, hf]
    rw [hc, run_exhale S me hL _ _ _ _ _ hlt, run_getL S me hL]
    simp only [exhaleSpec, hf, Prog.bind_assoc']
    rw [run_setL S me hL, run_inhale S me hL _ _ _ _ _ hlt]
    simp only [exhaleSpec, fetchUpdateSpec, AtomicState.rmw, hf]
    rfl

/-! #### the headline statements: from an arbitrary state `st` in which task `me` exists -/

/-- `st'` is `st` after task `me` performed std's `fetch_update(f)` on the atomic behind `L`, and nothing
else happened: value and result as std, the integer type (`bits`, …) unchanged, the rest of the shared
state unchanged, continuations / scheduler state / log unchanged, and the kernel differs only in task
`me`'s vector clock. -/
structure RmwEffect (L : Lens P.U AtomicState) (me : Nat) (f : Nat → Option Nat)
    (st st' : ExecState P σ) : Prop where
  value : (L.get st'.u).value = ((L.get st.u).rmw f).1.value
  bits : (L.get st'.u).bits = (L.get st.u).bits
  /-- every field of the atomic other than `value` and its vector clock is unchanged -/
  rest : ∃ cl, L.get st'.u = { (L.get st.u) with value := ((L.get st.u).rmw f).1.value, clock := cl }
  frame : st'.u = L.set (L.get st'.u) st.u
  conts : st'.conts = st.conts
  log : st'.log = st.log
  sch : st'.sch = st.sch
  kernel : ∃ tk c, st.k.tasks[me]? = some tk ∧ st'.k = st.k.setTask me { tk with clock := c }

theorem frame_effect (hL : L.Lawful) {st : ExecState P σ} {tk : Task} (h : st.k.tasks[me]? = some tk)
    (f : Nat → Option Nat) (a' : AtomicState) (c' : Clock)
    (ha : ∃ cl, a' = { (L.get st.u) with value := ((L.get st.u).rmw f).1.value, clock := cl }) :
    RmwEffect L me f st (frame L me tk st a' c') := by
  obtain ⟨cl, rfl⟩ := ha
  refine ⟨?_, ?_, ⟨cl, ?_⟩, ?_, rfl, rfl, rfl, ⟨tk, c', h, rfl⟩⟩
  · simp only [frame, hL.get_set]
  · simp only [frame, hL.get_set]
  · simp only [frame, hL.get_set]
  · simp only [frame, hL.get_set]

theorem lt_of_getElem? {st : ExecState P σ} {tk : Task} (h : st.k.tasks[me]? = some tk) :
    me < st.k.tasks.length := by
  rcases Nat.lt_or_ge me st.k.tasks.length with h' | h'
  · exact h'
  · rw [List.getElem?_eq_none h'] at h; cases h

theorem rmw_none (a : AtomicState) : a.rmw (fun _ => none) = (a, false, a.value) := rfl
theorem rmw_some (a : AtomicState) (v : Nat) :
    a.rmw (fun _ => some v) = ({ a with value := v % 2 ^ a.bits }, true, a.value) := rfl

/-- `load` after its scheduling point: 5 kernel requests, returns the current value, changes nothing but
vector clocks — std's `fetch_update(|_| None)` -/
theorem loadBody_runSegment_exact (hL : L.Lawful) {st : ExecState P σ} {tk : Task}
    (h : st.k.tasks[me]? = some tk) (fuel : Nat) (k : Nat → Prog P.U Unit) :
    runSegment S me (fuel + 5) st (loadBody L >>= k) =
      runSegment S me fuel
        (frame L me tk st (loadSpec me (L.get st.u) tk.clock).1 (loadSpec me (L.get st.u) tk.clock).2)
        (k (L.get st.u).value) := by
  have e := run_loadBody S me hL fuel st tk (L.get st.u) tk.clock (lt_of_getElem? me h) k
  rw [frame_self me hL h] at e
  exact e

theorem storeBody_runSegment_exact (hL : L.Lawful) {st : ExecState P σ} {tk : Task}
    (h : st.k.tasks[me]? = some tk) (fuel : Nat) (v : Nat) (k : Unit → Prog P.U Unit) :
    runSegment S me (fuel + 7) st (storeBody L v >>= k) =
      runSegment S me fuel
        (frame L me tk st (storeSpec me v (L.get st.u) tk.clock).1 (storeSpec me v (L.get st.u) tk.clock).2)
        (k ()) := by
  have e := run_storeBody S me hL fuel st tk (L.get st.u) tk.clock (lt_of_getElem? me h) v k
  rw [frame_self me hL h] at e
  exact e

theorem swapBody_runSegment_exact (hL : L.Lawful) {st : ExecState P σ} {tk : Task}
    (h : st.k.tasks[me]? = some tk) (fuel : Nat) (v : Nat) (k : Nat → Prog P.U Unit) :
    runSegment S me (fuel + 11) st (swapBody L v >>= k) =
      runSegment S me fuel
        (frame L me tk st (swapSpec me v (L.get st.u) tk.clock).1 (swapSpec me v (L.get st.u) tk.clock).2)
        (k (L.get st.u).value) := by
  have e := run_swapBody S me hL fuel st tk (L.get st.u) tk.clock (lt_of_getElem? me h) v k
  rw [frame_self me hL h] at e
  exact e

theorem fetchUpdateBody_runSegment_exact (hL : L.Lawful) {st : ExecState P σ} {tk : Task}
    (h : st.k.tasks[me]? = some tk) (fuel : Nat) (f : Nat → Option Nat) (k : Bool × Nat → Prog P.U Unit) :
    runSegment S me (fuel + fetchUpdateCost f (L.get st.u)) st (fetchUpdateBody L f >>= k) =
      runSegment S me fuel
        (frame L me tk st (fetchUpdateSpec me f (L.get st.u) tk.clock).1
          (fetchUpdateSpec me f (L.get st.u) tk.clock).2)
        (k ((L.get st.u).rmw f).2) := by
  have e := run_fetchUpdateBody S me hL fuel st tk (L.get st.u) tk.clock (lt_of_getElem? me h) f k
  rw [frame_self me hL h] at e
  exact e

theorem loadSpec_rmw (me : Nat) (a : AtomicState) (c : Clock) :
    ∃ cl, (loadSpec me a c).1 = { a with value := (a.rmw (fun _ => none)).1.value, clock := cl } :=
  ⟨_, rfl⟩

theorem storeSpec_rmw (me : Nat) (v : Nat) (a : AtomicState) (c : Clock) :
    ∃ cl, (storeSpec me v a c).1 = { a with value := (a.rmw (fun _ => some v)).1.value, clock := cl } :=
  ⟨_, rfl⟩

theorem swapSpec_rmw (me : Nat) (v : Nat) (a : AtomicState) (c : Clock) :
    ∃ cl, (swapSpec me v a c).1 = { a with value := (a.rmw (fun _ => some v)).1.value, clock := cl } :=
  ⟨_, rfl⟩

theorem fetchUpdateSpec_rmw (me : Nat) (f : Nat → Option Nat) (a : AtomicState) (c : Clock) :
    ∃ cl, (fetchUpdateSpec me f a c).1 = { a with value := (a.rmw f).1.value, clock := cl } := by
  cases hf : f a.value with
  | none => exact ⟨_, by simp only [fetchUpdateSpec, AtomicState.rmw, hf]; rfl⟩
  | some v => exact ⟨_, by simp only [fetchUpdateSpec, AtomicState.rmw, hf]; rfl⟩

/-- **`load` = `fetch_update(|_| None)` returning the value.** -/
theorem loadBody_runSegment (hL : L.Lawful) {st : ExecState P σ} {tk : Task}
    (h : st.k.tasks[me]? = some tk) (fuel : Nat) (k : Nat → Prog P.U Unit) :
    ∃ st', runSegment S me (fuel + 5) st (loadBody L >>= k) = runSegment S me fuel st' (k (L.get st.u).value) ∧
      RmwEffect L me (fun _ => none) st st' :=
  ⟨_, loadBody_runSegment_exact S me hL h fuel k, frame_effect me hL h _ _ _ (loadSpec_rmw me _ _)⟩

/-- **`store v` = `fetch_update(|_| Some(v))`, result ignored.** -/
theorem storeBody_runSegment (hL : L.Lawful) {st : ExecState P σ} {tk : Task}
    (h : st.k.tasks[me]? = some tk) (fuel : Nat) (v : Nat) (k : Unit → Prog P.U Unit) :
    ∃ st', runSegment S me (fuel + 7) st (storeBody L v >>= k) = runSegment S me fuel st' (k ()) ∧
      RmwEffect L me (fun _ => some v) st st' :=
  ⟨_, storeBody_runSegment_exact S me hL h fuel v k, frame_effect me hL h _ _ _ (storeSpec_rmw me v _ _)⟩

/-- **`swap v` = `fetch_update(|_| Some(v))` returning the previous value.** -/
theorem swapBody_runSegment (hL : L.Lawful) {st : ExecState P σ} {tk : Task}
    (h : st.k.tasks[me]? = some tk) (fuel : Nat) (v : Nat) (k : Nat → Prog P.U Unit) :
    ∃ st', runSegment S me (fuel + 11) st (swapBody L v >>= k) =
        runSegment S me fuel st' (k (L.get st.u).value) ∧
      RmwEffect L me (fun _ => some v) st st' :=
  ⟨_, swapBody_runSegment_exact S me hL h fuel v k, frame_effect me hL h _ _ _ (swapSpec_rmw me v _ _)⟩

/-- **`fetch_update f`.** -/
theorem fetchUpdateBody_runSegment (hL : L.Lawful) {st : ExecState P σ} {tk : Task}
    (h : st.k.tasks[me]? = some tk) (fuel : Nat) (f : Nat → Option Nat) (k : Bool × Nat → Prog P.U Unit) :
    ∃ st', runSegment S me (fuel + fetchUpdateCost f (L.get st.u)) st (fetchUpdateBody L f >>= k) =
        runSegment S me fuel st' (k ((L.get st.u).rmw f).2) ∧
      RmwEffect L me f st st' :=
  ⟨_, fetchUpdateBody_runSegment_exact S me hL h fuel f k,
    frame_effect me hL h _ _ _ (fetchUpdateSpec_rmw me f _ _)⟩

/-! std instances -/

/-- `fetch_add(n)` is `fetch_update(|old| Some(old.wrapping_add(n)))` -/
theorem rmw_fetchAdd (a : AtomicState) (n : Nat) :
    a.rmw (fun old => some (old + n)) = ({ a with value := (a.value + n) % 2 ^ a.bits }, true, a.value) := rfl

/-- `compare_exchange(cur, new)` is `fetch_update(|old| (old == cur).then(|| new))` -/
theorem rmw_compareExchange (a : AtomicState) (cur new : Nat) :
    a.rmw (fun old => if old == cur then some new else none) =
      if a.value = cur then ({ a with value := new % 2 ^ a.bits }, true, a.value) else (a, false, a.value) := by
  by_cases hc : a.value = cur
  · simp only [AtomicState.rmw, hc, beq_self_eq_true, if_true]
  · have : (a.value == cur) = false := by simpa using hc
    simp only [AtomicState.rmw, this, hc, if_false, Bool.false_eq_true]

theorem fetchAdd_runSegment (hL : L.Lawful) {st : ExecState P σ} {tk : Task}
    (h : st.k.tasks[me]? = some tk) (fuel : Nat) (n : Nat) (k : Bool × Nat → Prog P.U Unit) :
    ∃ st', runSegment S me (fuel + 11) st (fetchUpdateBody L (fun old => some (old + n)) >>= k) =
        runSegment S me fuel st' (k (true, (L.get st.u).value)) ∧
      (L.get st'.u).value = ((L.get st.u).value + n) % 2 ^ (L.get st.u).bits ∧
      RmwEffect L me (fun old => some (old + n)) st st' := by
  obtain ⟨st', e, eff⟩ := fetchUpdateBody_runSegment S me hL h fuel (fun old => some (old + n)) k
  exact ⟨st', e, eff.value, eff⟩

theorem compareExchange_runSegment (hL : L.Lawful) {st : ExecState P σ} {tk : Task}
    (h : st.k.tasks[me]? = some tk) (fuel : Nat) (cur new : Nat) (k : Bool × Nat → Prog P.U Unit) :
    ∃ st', runSegment S me (fuel + (if (L.get st.u).value = cur then 11 else 5)) st
          (fetchUpdateBody L (fun old => if old == cur then some new else none) >>= k) =
        runSegment S me fuel st' (k ((L.get st.u).value = cur, (L.get st.u).value)) ∧
      (L.get st'.u).value = (if (L.get st.u).value = cur then new % 2 ^ (L.get st.u).bits
        else (L.get st.u).value) ∧
      RmwEffect L me (fun old => if old == cur then some new else none) st st' := by
  obtain ⟨st', e, eff⟩ := fetchUpdateBody_runSegment S me hL h fuel
    (fun old => if old == cur then some new else none) k
  have hv := eff.value
  rw [rmw_compareExchange] at e hv
  by_cases hc : (L.get st.u).value = cur
  · refine ⟨st', ?_, ?_, eff⟩
    · simp only [hc, if_true, decide_true] at e ⊢
      have hcost : fetchUpdateCost (fun old => if old == cur then some new else none) (L.get st.u) = 11 := by
        simp only [fetchUpdateCost, hc, beq_self_eq_true, if_true]
      rw [hcost] at e; exact e
    · simp only [hc, if_true] at hv ⊢; exact hv
  · refine ⟨st', ?_, ?_, eff⟩
    · have hb : ((L.get st.u).value == cur) = false := by simpa using hc
      have hcost : fetchUpdateCost (fun old => if old == cur then some new else none) (L.get st.u) = 5 := by
        simp only [fetchUpdateCost, hb, Bool.false_eq_true, if_false]
      simp only [hc, if_false, decide_false] at e ⊢
      rw [hcost] at e; exact e
    · simp only [hc, if_false] at hv ⊢; exact hv

end Atomic

/-! ### Part 3: a switch-free piece of program runs inside one segment; total order of atomic operations -/

section SwitchFreeRun
variable {P : Program} {σ : Type} (S : Scheduler σ) (me : Nat)

/-- what one request other than `switch` does: the segment goes on (no continuation is stored: `conts` only
grows by the bodies of spawned tasks), or the request fails (task panic / scheduler panic in `next_u64`) -/
inductive NonSwitchOutcome (fuel : Nat) (st : ExecState P σ) {β : Type} (kont : β → Prog P.U Unit) :
    SegEnd P σ → Prop
  | go (st' : ExecState P σ) (b : β) (ext : List (Prog P.U Unit)) : st'.conts = st.conts ++ ext →
      NonSwitchOutcome fuel st kont (runSegment S me fuel st' (kont b))
  | failed (msg : String) : NonSwitchOutcome fuel st kont (.panicked msg st)
  | schedPanic (msg : String) (st' : ExecState P σ) : st'.conts = st.conts →
      NonSwitchOutcome fuel st kont (.schedPanic msg st')

theorem NonSwitchOutcome.onTask (fuel : Nat) (st : ExecState P σ) {β : Type} (kont : β → Prog P.U Unit) (b : β)
    (t : Nat) (f : Task → Except String Task) :
    NonSwitchOutcome S me fuel st kont
      (match st.k.modTask t f with
        | .ok k' => runSegment S me fuel { st with k := k' } (kont b)
        | .error e => SegEnd.panicked e st) := by
  cases st.k.modTask t f with
  | error e => exact .failed e
  | ok k' => exact .go { st with k := k' } b [] (by simp)

theorem NonSwitchOutcome.same (fuel : Nat) (st : ExecState P σ) {β : Type} (kont : β → Prog P.U Unit) (b : β)
    (st' : ExecState P σ) (h : st'.conts = st.conts) :
    NonSwitchOutcome S me fuel st kont (runSegment S me fuel st' (kont b)) :=
  .go st' b [] (by simp [h])

theorem runSegment_op_nonswitch (fuel : Nat) (st : ExecState P σ) {β : Type} (o : KOp P.U β)
    (ho : o.isSwitch = false) (kont : β → Prog P.U Unit) :
    NonSwitchOutcome S me fuel st kont (runSegment S me (fuel + 1) st (.op o kont)) := by
  cases o with
  | switch => cases ho
  | me => rw [runSegment]; exact .same S me _ _ _ _ _ rfl
  | getU => rw [runSegment]; exact .same S me _ _ _ _ _ rfl
  | setU u => rw [runSegment]; exact .same S me _ _ _ _ _ rfl
  | emit s => rw [runSegment]; exact .same S me _ _ _ _ _ rfl
  | block sp => rw [runSegment]; exact .onTask S me _ _ _ _ _ _
  | blockTask t => rw [runSegment]; exact .onTask S me _ _ _ _ _ _
  | sleepUnlessWoken => rw [runSegment]; exact .onTask S me _ _ _ _ _ _
  | unblock t => rw [runSegment]; exact .onTask S me _ _ _ _ _ _
  | wake t =>
    rw [runSegment]
    split
    · exact .same S me _ _ _ _ _ rfl
    · split
      · exact .failed _
      · split
        · exact .same S me _ _ _ _ _ rfl
        · exact .onTask S me _ _ _ _ _ _
  | isFinished t => rw [runSegment]; exact .same S me _ _ _ _ _ rfl
  | requestYield => rw [runSegment]; exact .same S me _ _ _ _ _ rfl
  | rand =>
    rw [runSegment]
    rcases S.nextU64 st.sch with ⟨r, s'⟩
    cases r with
    | ok v => exact .same S me _ _ _ _ _ rfl
    | error e => exact .schedPanic e _ rfl
  | spawn fut body => rw [runSegment]; exact .go _ _ [P.bodies body] rfl
  | park =>
    rw [runSegment]
    split
    · exact .failed _
    · split
      · exact .same S me _ _ _ _ _ rfl
      · exact .failed _
  | unpark t => rw [runSegment]; exact .onTask S me _ _ _ _ _ _
  | setWaiter target =>
    rw [runSegment]
    split
    · exact .failed _
    · split
      · exact .same S me _ _ _ _ _ rfl
      · exact .failed _
  | takeWaiter =>
    rw [runSegment]
    split
    · exact .failed _
    · exact .same S me _ _ _ _ _ rfl
  | detach t => rw [runSegment]; exact .onTask S me _ _ _ _ _ _
  | clock => rw [runSegment]; exact .same S me _ _ _ _ _ rfl
  | clockOf t => rw [runSegment]; exact .same S me _ _ _ _ _ rfl
  | updateClock c => rw [runSegment]; exact .onTask S me _ _ _ _ _ _
  | incClock =>
    rw [runSegment]
    split
    · exact .failed _
    · exact .same S me _ _ _ _ _ rfl
  | joinClockOf t c => rw [runSegment]; exact .onTask S me _ _ _ _ _ _
  | exitTruncates => rw [runSegment]; exact .same S me _ _ _ _ _ rfl
  | resetSteps => rw [runSegment]; exact .same S me _ _ _ _ _ rfl
  | ctxSwitches => rw [runSegment]; exact .same S me _ _ _ _ _ rfl
  | isPanicking => rw [runSegment]; exact .same S me _ _ _ _ _ rfl

/-- how running `p >>= k` (with `p` switch-free) from `st` with `fuel` can go: `p` is executed completely
inside the current segment and the segment goes on with `k a`; or `p` raises a panic (unwinding starts in
the state reached); or a kernel request of `p` fails; or the segment's fuel runs out inside `p`.
In no case is a scheduling point reached inside `p`. -/
inductive SwitchFreeOutcome {α : Type} (fuel : Nat) (st : ExecState P σ) (k : α → Prog P.U Unit) :
    SegEnd P σ → Prop
  | done (fuel' : Nat) (st' : ExecState P σ) (a : α) (ext : List (Prog P.U Unit)) :
      fuel' ≤ fuel → st'.conts = st.conts ++ ext →
      SwitchFreeOutcome fuel st k (runSegment S me fuel' st' (k a))
  | raised (fuel' : Nat) (st' : ExecState P σ) (msg : String) (ext : List (Prog P.U Unit)) :
      fuel' ≤ fuel → st'.conts = st.conts ++ ext →
      SwitchFreeOutcome fuel st k (runSegment S me fuel' st' (.panic msg))
  | failed (msg : String) (st' : ExecState P σ) (ext : List (Prog P.U Unit)) :
      st'.conts = st.conts ++ ext → SwitchFreeOutcome fuel st k (.panicked msg st')
  | schedPanic (msg : String) (st' : ExecState P σ) (ext : List (Prog P.U Unit)) :
      st'.conts = st.conts ++ ext → SwitchFreeOutcome fuel st k (.schedPanic msg st')
  | outOfFuel (st' : ExecState P σ) (rest : Prog P.U Unit) (ext : List (Prog P.U Unit)) :
      st'.conts = st.conts ++ ext →
      SwitchFreeOutcome fuel st k (.outOfFuel { st' with conts := st'.conts.set me rest })

theorem SwitchFreeOutcome.step {α : Type} {fuel : Nat} {st st1 : ExecState P σ} {k : α → Prog P.U Unit}
    {e : SegEnd P σ} (ext : List (Prog P.U Unit)) (h1 : st1.conts = st.conts ++ ext)
    (h : SwitchFreeOutcome S me fuel st1 k e) : SwitchFreeOutcome S me (fuel + 1) st k e := by
  cases h with
  | done fuel' st' a ext' hf hc =>
    exact .done fuel' st' a (ext ++ ext') (Nat.le_succ_of_le hf) (by rw [hc, h1, List.append_assoc])
  | raised fuel' st' msg ext' hf hc =>
    exact .raised fuel' st' msg (ext ++ ext') (Nat.le_succ_of_le hf) (by rw [hc, h1, List.append_assoc])
  | failed msg st' ext' hc => exact .failed msg st' (ext ++ ext') (by rw [hc, h1, List.append_assoc])
  | schedPanic msg st' ext' hc => exact .schedPanic msg st' (ext ++ ext') (by rw [hc, h1, List.append_assoc])
  | outOfFuel st' rest ext' hc => exact .outOfFuel st' rest (ext ++ ext') (by rw [hc, h1, List.append_assoc])

/-- **(a)** a switch-free piece of program is executed inside one segment. -/
theorem runSegment_switchFree {α : Type} {p : Prog P.U α} (hp : p.SwitchFree) (k : α → Prog P.U Unit) :
    ∀ (fuel : Nat) (st : ExecState P σ),
      SwitchFreeOutcome S me fuel st k (runSegment S me fuel st (p >>= k)) := by
  induction hp with
  | pure a => intro fuel st; exact .done fuel st a [] (Nat.le_refl _) (by simp)
  | panic m => intro fuel st; exact .raised fuel st m [] (Nat.le_refl _) (by simp)
  | op o kont ho _ ih =>
    intro fuel st
    cases fuel with
    | zero => rw [runSegment]; exact .outOfFuel st _ [] (by simp)
    | succ fuel =>
      rw [Prog.op_bind]
      have h1 := runSegment_op_nonswitch S me fuel st o ho (fun b => kont b >>= k)
      generalize runSegment S me (fuel + 1) st (.op o fun b => kont b >>= k) = e at h1
      cases h1 with
      | go st' b ext hc => exact (ih b fuel st').step S me ext hc
      | failed msg => exact .failed msg st [] (by simp)
      | schedPanic msg st' hc => exact .schedPanic msg st' [] (by simp [hc])

/-- a segment of a switch-free program (whose destructors are switch-free too) never ends at a scheduling
point -/
theorem runSegment_switchFree_ne_atSwitch (hu : (P.unwind me).SwitchFree) :
    ∀ (fuel : Nat) (st : ExecState P σ) (p : Prog P.U Unit), p.SwitchFree →
      ∀ st', runSegment S me fuel st p ≠ .atSwitch st' := by
  intro fuel
  induction fuel with
  | zero => intro st p _ st'; rw [runSegment]; exact fun h => by cases h
  | succ fuel ih =>
    intro st p hp st'
    cases hp with
    | pure a =>
      cases a
      rw [runSegment]
      repeat' split
      all_goals exact fun h => by cases h
    | panic m =>
      rw [runSegment]
      split
      · split
        · exact fun h => by cases h
        · exact ih _ _ hu st'
      · exact ih _ _ hu st'
    | op o kont ho hk =>
      have h1 := runSegment_op_nonswitch S me fuel st o ho kont
      generalize runSegment S me (fuel + 1) st (.op o kont) = e at h1
      cases h1 with
      | go st1 b ext hc => exact ih _ _ (hk b) st'
      | failed msg => exact fun h => by cases h
      | schedPanic msg st1 hc => exact fun h => by cases h

end SwitchFreeRun

/-! ### Part 3b: one scheduling point per operation, at its very beginning -/

namespace Atomic
variable {P : Program} {σ : Type} (S : Scheduler σ) (me : Nat) {L : Lens P.U AtomicState}

/-- a task that reaches `load` stops at the scheduling point with *nothing* of the operation done; what it
will run when it is next scheduled is exactly `loadBody` followed by the rest of its program -/
theorem load_runSegment_atSwitch (fuel : Nat) (st : ExecState P σ) (k : Nat → Prog P.U Unit) :
    runSegment S me (fuel + 1) st (load L >>= k) =
      .atSwitch { st with conts := st.conts.set me (loadBody L >>= k) } := by
  rw [load_eq_op, Prog.op_bind, runSegment_switch]

theorem store_runSegment_atSwitch (fuel : Nat) (st : ExecState P σ) (v : Nat) (k : Unit → Prog P.U Unit) :
    runSegment S me (fuel + 1) st (store L v >>= k) =
      .atSwitch { st with conts := st.conts.set me (storeBody L v >>= k) } := by
  rw [store_eq_op, Prog.op_bind, runSegment_switch]

theorem swap_runSegment_atSwitch (fuel : Nat) (st : ExecState P σ) (v : Nat) (k : Nat → Prog P.U Unit) :
    runSegment S me (fuel + 1) st (swap L v >>= k) =
      .atSwitch { st with conts := st.conts.set me (swapBody L v >>= k) } := by
  rw [swap_eq_op, Prog.op_bind, runSegment_switch]

theorem fetchUpdate_runSegment_atSwitch (fuel : Nat) (st : ExecState P σ) (f : Nat → Option Nat)
    (k : Bool × Nat → Prog P.U Unit) :
    runSegment S me (fuel + 1) st (fetchUpdate L f >>= k) =
      .atSwitch { st with conts := st.conts.set me (fetchUpdateBody L f >>= k) } := by
  rw [fetchUpdate_eq_op, Prog.op_bind, runSegment_switch]

/-- when the body of an operation is followed by another scheduling point (e.g. the task's next atomic
operation, by `*_eq_op`), the segment consists of exactly the operation: it ends at that next scheduling
point with the operation's whole effect done and nothing else -/
theorem loadBody_segment (hL : L.Lawful) {st : ExecState P σ} {tk : Task}
    (h : st.k.tasks[me]? = some tk) (fuel : Nat) (kont : Nat → Unit → Prog P.U Unit) :
    ∃ st', runSegment S me (fuel + 1 + 5) st (loadBody L >>= fun r => .op .switch (kont r)) =
        .atSwitch { st' with conts := st'.conts.set me (kont (L.get st.u).value ()) } ∧
      RmwEffect L me (fun _ => none) st st' := by
  obtain ⟨st', e, eff⟩ := loadBody_runSegment S me hL h (fuel + 1) (fun r => .op .switch (kont r))
  exact ⟨st', by rw [e, runSegment_switch], eff⟩

theorem storeBody_segment (hL : L.Lawful) {st : ExecState P σ} {tk : Task}
    (h : st.k.tasks[me]? = some tk) (fuel : Nat) (v : Nat) (kont : Unit → Unit → Prog P.U Unit) :
    ∃ st', runSegment S me (fuel + 1 + 7) st (storeBody L v >>= fun r => .op .switch (kont r)) =
        .atSwitch { st' with conts := st'.conts.set me (kont () ()) } ∧
      RmwEffect L me (fun _ => some v) st st' := by
  obtain ⟨st', e, eff⟩ := storeBody_runSegment S me hL h (fuel + 1) v (fun r => .op .switch (kont r))
  exact ⟨st', by rw [e, runSegment_switch], eff⟩

theorem swapBody_segment (hL : L.Lawful) {st : ExecState P σ} {tk : Task}
    (h : st.k.tasks[me]? = some tk) (fuel : Nat) (v : Nat) (kont : Nat → Unit → Prog P.U Unit) :
    ∃ st', runSegment S me (fuel + 1 + 11) st (swapBody L v >>= fun r => .op .switch (kont r)) =
        .atSwitch { st' with conts := st'.conts.set me (kont (L.get st.u).value ()) } ∧
      RmwEffect L me (fun _ => some v) st st' := by
  obtain ⟨st', e, eff⟩ := swapBody_runSegment S me hL h (fuel + 1) v (fun r => .op .switch (kont r))
  exact ⟨st', by rw [e, runSegment_switch], eff⟩

theorem fetchUpdateBody_segment (hL : L.Lawful) {st : ExecState P σ} {tk : Task}
    (h : st.k.tasks[me]? = some tk) (fuel : Nat) (f : Nat → Option Nat)
    (kont : Bool × Nat → Unit → Prog P.U Unit) :
    ∃ st', runSegment S me (fuel + 1 + fetchUpdateCost f (L.get st.u)) st
          (fetchUpdateBody L f >>= fun r => .op .switch (kont r)) =
        .atSwitch { st' with conts := st'.conts.set me (kont ((L.get st.u).rmw f).2 ()) } ∧
      RmwEffect L me f st st' := by
  obtain ⟨st', e, eff⟩ := fetchUpdateBody_runSegment S me hL h (fuel + 1) f (fun r => .op .switch (kont r))
  exact ⟨st', by rw [e, runSegment_switch], eff⟩

end Atomic

/-! the same at the level of the run loop: one iteration of `runLoop` = the scheduler picks a task; a task
sitting at the scheduling point of an atomic operation only moves past it (shared state untouched) … -/

section Loop
variable {P : Program} {σ : Type} (S : Scheduler σ)

/-- the state in which the chosen task's segment starts -/
def afterSchedule (st : ExecState P σ) (k : Kernel) (s : σ) (ev : Option Ev) : ExecState P σ :=
  { st with k := k.advance, sch := s, log := match ev with | some e => st.log.push e | none => st.log }

theorem advance_tasks (k : Kernel) : k.advance.tasks = k.tasks := by
  unfold Kernel.advance
  simp only
  split <;> rfl

theorem runLoop_chosen (segFuel fuel : Nat) (st : ExecState P σ) (k : Kernel) (s : σ) (ev : Option Ev)
    (t : Nat) (p : Prog P.U Unit)
    (hs : st.k.schedule S st.sch = .ok k s ev) (hc : k.advance.current = .some t)
    (hp : st.conts[t]? = some p) :
    runLoop S segFuel (fuel + 1) st =
      match runSegment S t segFuel (afterSchedule st k s ev) p with
      | .atSwitch st' => runLoop S segFuel fuel st'
      | .returned st' =>
        match st'.k.modTask t (·.finish) with
        | .ok k' => runLoop S segFuel fuel { st' with k := k' }
        | .error e => ⟨.panic t e, st'⟩
      | .panicked msg st' => ⟨.panic t msg, st'⟩
      | .schedPanic msg st' => ⟨.schedPanic msg, st'⟩
      | .aborted msg st' => ⟨.abort msg, st'⟩
      | .outOfFuel st' => ⟨.outOfFuel, st'⟩ := by
  rw [runLoop]
  simp only [hs, hc, hp, afterSchedule]
  rfl

/-- … the scheduler picked a task that is about to start an atomic operation (`*_eq_op`): this iteration
only moves the task past the operation's scheduling point -/
theorem runLoop_at_switch (segFuel fuel : Nat) (st : ExecState P σ) (k : Kernel) (s : σ) (ev : Option Ev)
    (t : Nat) (kont : Unit → Prog P.U Unit)
    (hs : st.k.schedule S st.sch = .ok k s ev) (hc : k.advance.current = .some t)
    (hp : st.conts[t]? = some (.op .switch kont)) :
    runLoop S (segFuel + 1) (fuel + 1) st =
      runLoop S (segFuel + 1) fuel
        { afterSchedule st k s ev with conts := (afterSchedule st k s ev).conts.set t (kont ()) } := by
  rw [runLoop_chosen S _ _ st k s ev t _ hs hc hp, runSegment_switch]

/-- … and the scheduler picked a task that has passed the scheduling point of `fetch_update f` and whose
next request after the operation is again a scheduling point: this iteration performs exactly the
operation, indivisibly -/
theorem runLoop_fetchUpdateBody {L : Lens P.U AtomicState} (hL : L.Lawful) (sf fuel : Nat)
    (st : ExecState P σ) (k : Kernel) (s : σ) (ev : Option Ev) (t : Nat) (tk : Task)
    (f : Nat → Option Nat) (kont : Bool × Nat → Unit → Prog P.U Unit)
    (hs : st.k.schedule S st.sch = .ok k s ev) (hc : k.advance.current = .some t)
    (hp : st.conts[t]? = some (Atomic.fetchUpdateBody L f >>= fun r => .op .switch (kont r)))
    (ht : k.tasks[t]? = some tk) :
    ∃ st', runLoop S (sf + 1 + Atomic.fetchUpdateCost f (L.get st.u)) (fuel + 1) st =
        runLoop S (sf + 1 + Atomic.fetchUpdateCost f (L.get st.u)) fuel
          { st' with conts := st'.conts.set t (kont ((L.get st.u).rmw f).2 ()) } ∧
      Atomic.RmwEffect L t f (afterSchedule st k s ev) st' := by
  have ht' : (afterSchedule st k s ev).k.tasks[t]? = some tk := by
    simp only [afterSchedule, advance_tasks, ht]
  obtain ⟨st', e, eff⟩ := Atomic.fetchUpdateBody_segment S t hL ht' sf f kont
  refine ⟨st', ?_, eff⟩
  rw [runLoop_chosen S _ _ st k s ev t _ hs hc hp]
  have hu : (afterSchedule st k s ev).u = st.u := rfl
  rw [hu] at e
  rw [e]

/-- generic form: if the chosen task's segment ends at a scheduling point in `st''`, the loop goes on
from `st''` -/
theorem runLoop_segment_atSwitch (segFuel fuel : Nat) (st : ExecState P σ) (k : Kernel) (s : σ)
    (ev : Option Ev) (t : Nat) (p : Prog P.U Unit) (st'' : ExecState P σ)
    (hs : st.k.schedule S st.sch = .ok k s ev) (hc : k.advance.current = .some t)
    (hp : st.conts[t]? = some p)
    (he : runSegment S t segFuel (afterSchedule st k s ev) p = .atSwitch st'') :
    runLoop S segFuel (fuel + 1) st = runLoop S segFuel fuel st'' := by
  rw [runLoop_chosen S _ _ st k s ev t _ hs hc hp, he]

theorem runLoop_loadBody {L : Lens P.U AtomicState} (hL : L.Lawful) (sf fuel : Nat)
    (st : ExecState P σ) (k : Kernel) (s : σ) (ev : Option Ev) (t : Nat) (tk : Task)
    (kont : Nat → Unit → Prog P.U Unit)
    (hs : st.k.schedule S st.sch = .ok k s ev) (hc : k.advance.current = .some t)
    (hp : st.conts[t]? = some (Atomic.loadBody L >>= fun r => .op .switch (kont r)))
    (ht : k.tasks[t]? = some tk) :
    ∃ st', runLoop S (sf + 1 + 5) (fuel + 1) st =
        runLoop S (sf + 1 + 5) fuel { st' with conts := st'.conts.set t (kont (L.get st.u).value ()) } ∧
      Atomic.RmwEffect L t (fun _ => none) (afterSchedule st k s ev) st' := by
  have ht' : (afterSchedule st k s ev).k.tasks[t]? = some tk := by
    simp only [afterSchedule, advance_tasks, ht]
  obtain ⟨st', e, eff⟩ := Atomic.loadBody_segment S t hL ht' sf kont
  exact ⟨st', runLoop_segment_atSwitch S _ _ st k s ev t _ _ hs hc hp e, eff⟩

theorem runLoop_storeBody {L : Lens P.U AtomicState} (hL : L.Lawful) (sf fuel : Nat)
    (st : ExecState P σ) (k : Kernel) (s : σ) (ev : Option Ev) (t : Nat) (tk : Task) (v : Nat)
    (kont : Unit → Unit → Prog P.U Unit)
    (hs : st.k.schedule S st.sch = .ok k s ev) (hc : k.advance.current = .some t)
    (hp : st.conts[t]? = some (Atomic.storeBody L v >>= fun r => .op .switch (kont r)))
    (ht : k.tasks[t]? = some tk) :
    ∃ st', runLoop S (sf + 1 + 7) (fuel + 1) st =
        runLoop S (sf + 1 + 7) fuel { st' with conts := st'.conts.set t (kont () ()) } ∧
      Atomic.RmwEffect L t (fun _ => some v) (afterSchedule st k s ev) st' := by
  have ht' : (afterSchedule st k s ev).k.tasks[t]? = some tk := by
    simp only [afterSchedule, advance_tasks, ht]
  obtain ⟨st', e, eff⟩ := Atomic.storeBody_segment S t hL ht' sf v kont
  exact ⟨st', runLoop_segment_atSwitch S _ _ st k s ev t _ _ hs hc hp e, eff⟩

theorem runLoop_swapBody {L : Lens P.U AtomicState} (hL : L.Lawful) (sf fuel : Nat)
    (st : ExecState P σ) (k : Kernel) (s : σ) (ev : Option Ev) (t : Nat) (tk : Task) (v : Nat)
    (kont : Nat → Unit → Prog P.U Unit)
    (hs : st.k.schedule S st.sch = .ok k s ev) (hc : k.advance.current = .some t)
    (hp : st.conts[t]? = some (Atomic.swapBody L v >>= fun r => .op .switch (kont r)))
    (ht : k.tasks[t]? = some tk) :
    ∃ st', runLoop S (sf + 1 + 11) (fuel + 1) st =
        runLoop S (sf + 1 + 11) fuel { st' with conts := st'.conts.set t (kont (L.get st.u).value ()) } ∧
      Atomic.RmwEffect L t (fun _ => some v) (afterSchedule st k s ev) st' := by
  have ht' : (afterSchedule st k s ev).k.tasks[t]? = some tk := by
    simp only [afterSchedule, advance_tasks, ht]
  obtain ⟨st', e, eff⟩ := Atomic.swapBody_segment S t hL ht' sf v kont
  exact ⟨st', runLoop_segment_atSwitch S _ _ st k s ev t _ _ hs hc hp e, eff⟩

end Loop

/-! ### Non-vacuity: an `AtomicU8` holding 250 -/

namespace AtomicExample

/-- one shared `AtomicU8` -/
def P8 : Program := { U := AtomicState, init := { value := 250, bits := 8 }, bodies := fun _ => .pure () }
/-- a scheduler (irrelevant inside a segment) -/
def S0 : Scheduler Unit := { nextTask := fun s _ _ _ => (.choose none, s), nextU64 := fun s => (.ok 0, s) }
/-- the whole shared state is the atomic -/
def idL : Lens AtomicState AtomicState := { get := id, set := fun s _ => s }
theorem idL_lawful : idL.Lawful := ⟨fun _ _ => rfl, fun _ => rfl, fun _ _ _ => rfl⟩
/-- a second lens, into a pair of atomics: the frame condition is not vacuous either -/
def fstL : Lens (AtomicState × Nat) AtomicState := { get := (·.1), set := fun s u => (s, u.2) }
theorem fstL_lawful : fstL.Lawful := ⟨fun _ _ => rfl, fun _ => rfl, fun _ _ _ => rfl⟩

/-- main thread exists, its clock is `[3]`; the atomic holds 250 and has never been touched -/
def st0 : ExecState P8 Unit :=
  { k := { tasks := [{ clock := Clock.ofList [3] }] }, u := { value := 250, bits := 8 },
    conts := [.pure ()], sch := () }

theorem st0_task : st0.k.tasks[0]? = some { clock := Clock.ofList [3] } := rfl

/-- `fetch_add(10)` on 250u8 returns `Ok(250)` and leaves 4 -/
example (fuel : Nat) (k : Bool × Nat → Prog P8.U Unit) :
    ∃ st', runSegment S0 0 (fuel + 11) st0 (Atomic.fetchUpdateBody idL (fun old => some (old + 10)) >>= k) =
        runSegment S0 0 fuel st' (k (true, 250)) ∧
      (idL.get st'.u).value = 4 ∧ (idL.get st'.u).bits = 8 ∧ st'.conts = st0.conts := by
  obtain ⟨st', e, hv, eff⟩ := Atomic.fetchAdd_runSegment S0 0 idL_lawful st0_task fuel 10 k
  exact ⟨st', e, hv, eff.bits, eff.conts⟩

/-- `compare_exchange(250, 7)` succeeds; `compare_exchange(1, 7)` fails with `Err(250)` -/
example (fuel : Nat) (k : Bool × Nat → Prog P8.U Unit) :
    ∃ st', runSegment S0 0 (fuel + 11) st0
          (Atomic.fetchUpdateBody idL (fun old => if old == 250 then some 7 else none) >>= k) =
        runSegment S0 0 fuel st' (k (true, 250)) ∧ (idL.get st'.u).value = 7 := by
  obtain ⟨st', e, hv, _⟩ := Atomic.compareExchange_runSegment S0 0 idL_lawful st0_task fuel 250 7 k
  exact ⟨st', e, hv⟩

example (fuel : Nat) (k : Bool × Nat → Prog P8.U Unit) :
    ∃ st', runSegment S0 0 (fuel + 5) st0
          (Atomic.fetchUpdateBody idL (fun old => if old == 1 then some 7 else none) >>= k) =
        runSegment S0 0 fuel st' (k (false, 250)) ∧ (idL.get st'.u).value = 250 := by
  obtain ⟨st', e, hv, _⟩ := Atomic.compareExchange_runSegment S0 0 idL_lawful st0_task fuel 1 7 k
  exact ⟨st', e, hv⟩

/-- `load` returns 250; `store(300)` leaves `300 as u8 = 44`; `swap(300)` returns 250 and leaves 44 -/
example (fuel : Nat) (k : Nat → Prog P8.U Unit) :
    ∃ st', runSegment S0 0 (fuel + 5) st0 (Atomic.loadBody idL >>= k) = runSegment S0 0 fuel st' (k 250) ∧
      (idL.get st'.u).value = 250 := by
  obtain ⟨st', e, eff⟩ := Atomic.loadBody_runSegment S0 0 idL_lawful st0_task fuel k
  exact ⟨st', e, eff.value⟩

example (fuel : Nat) (k : Unit → Prog P8.U Unit) :
    ∃ st', runSegment S0 0 (fuel + 7) st0 (Atomic.storeBody idL 300 >>= k) = runSegment S0 0 fuel st' (k ()) ∧
      (idL.get st'.u).value = 44 := by
  obtain ⟨st', e, eff⟩ := Atomic.storeBody_runSegment S0 0 idL_lawful st0_task fuel 300 k
  exact ⟨st', e, eff.value⟩

example (fuel : Nat) (k : Nat → Prog P8.U Unit) :
    ∃ st', runSegment S0 0 (fuel + 11) st0 (Atomic.swapBody idL 300 >>= k) = runSegment S0 0 fuel st' (k 250) ∧
      (idL.get st'.u).value = 44 := by
  obtain ⟨st', e, eff⟩ := Atomic.swapBody_runSegment S0 0 idL_lawful st0_task fuel 300 k
  exact ⟨st', e, eff.value⟩

/-- the exact final state, vector clocks included: the thread's clock `[3]` becomes `[5]` (two increments,
one per exhale/inhale), the atomic's clock becomes `[5]`, the value 4 -/
example :
    (Atomic.fetchUpdateSpec 0 (fun old => some (old + 10)) st0.u (Clock.ofList [3])) =
      ({ value := 4, bits := 8, clock := some (Clock.ofList [5]) }, Clock.ofList [5]) := by
  rfl

/-- the switch-free run theorem on a non-trivial program, and `atSwitch` for a real operation -/
example (fuel : Nat) (k : Bool × Nat → Prog P8.U Unit) :
    SwitchFreeOutcome S0 0 fuel st0 k
      (runSegment S0 0 fuel st0 (Atomic.fetchUpdateBody idL (fun old => some (old + 10)) >>= k)) :=
  runSegment_switchFree S0 0 (Atomic.fetchUpdateBody_switchFree idL _) k fuel st0

example (k : Bool × Nat → Prog P8.U Unit) :
    runSegment S0 0 1 st0 (Atomic.fetchUpdate idL (fun old => some (old + 10)) >>= k) =
      .atSwitch { st0 with conts := [Atomic.fetchUpdateBody idL (fun old => some (old + 10)) >>= k] } :=
  Atomic.fetchUpdate_runSegment_atSwitch S0 0 0 st0 _ k

/-- frame condition on a state with something else in it: the `77` next to the atomic is untouched -/
def P2 : Program :=
  { U := AtomicState × Nat, init := ({ value := 250, bits := 8 }, 77), bodies := fun _ => .pure () }

def st2 : ExecState P2 Unit :=
  { k := { tasks := [{ clock := Clock.ofList [3] }] }, u := ({ value := 250, bits := 8 }, 77),
    conts := [.pure ()], sch := () }

example (fuel : Nat) (k : Bool × Nat → Prog P2.U Unit) :
    ∃ st', runSegment S0 0 (fuel + 11) st2 (Atomic.fetchUpdateBody fstL (fun old => some (old + 10)) >>= k) =
        runSegment S0 0 fuel st' (k (true, 250)) ∧ st'.u.1.value = 4 ∧ st'.u.2 = 77 := by
  obtain ⟨st', e, hv, eff⟩ := Atomic.fetchAdd_runSegment S0 0 fstL_lawful (st := st2) rfl fuel 10 k
  refine ⟨st', e, hv, ?_⟩
  have := eff.frame
  rw [this]; rfl

/-- the run-loop statements: a scheduler that always picks task 0, whose program is two `fetch_add`s -/
def S1 : Scheduler Unit := { nextTask := fun s _ _ _ => (.choose (some 0), s), nextU64 := fun s => (.ok 0, s) }

def twoAdds : Prog P8.U Unit :=
  Atomic.fetchUpdate idL (fun old => some (old + 10)) >>= fun _ =>
  Atomic.fetchUpdate idL (fun old => some (old + 10)) >>= fun _ => pure ()

def st1 : ExecState P8 Unit :=
  { k := { tasks := [{ clock := Clock.ofList [3] }] }, u := { value := 250, bits := 8 },
    conts := [twoAdds], sch := () }

/-- hypotheses of `runLoop_at_switch` hold at the start of `twoAdds` … -/
example : ∃ k s ev kont, st1.k.schedule S1 st1.sch = .ok k s ev ∧ k.advance.current = .some 0 ∧
    st1.conts[0]? = some (.op .switch kont) ∧ k.tasks[0]? = some { clock := Clock.ofList [3] } :=
  ⟨_, _, _, _, rfl, rfl, rfl, rfl⟩

/-- the state after the first iteration of the loop: task 0 has passed the scheduling point of its first
`fetch_add`, nothing else has happened -/
def stA : ExecState P8 Unit :=
  { k := { tasks := [{ clock := Clock.ofList [3] }], current := .some 0, ctxSwitches := 1,
           schedRev := [.task 0] },
    u := { value := 250, bits := 8 },
    conts := [Atomic.fetchUpdateBody idL (fun old => some (old + 10)) >>= fun _ =>
      Atomic.fetchUpdate idL (fun old => some (old + 10)) >>= fun _ => pure ()],
    sch := (), log := #[.dec [0] none false (some 0)] }

example (fuel sf : Nat) : runLoop S1 (sf + 1 + 11) (fuel + 2) st1 = runLoop S1 (sf + 1 + 11) (fuel + 1) stA :=
  runLoop_at_switch S1 (sf + 1 + 10) (fuel + 1) st1 _ _ _ 0 _ rfl rfl rfl

/-- … and those of `runLoop_fetchUpdateBody` in the state reached: the first `fetch_add` is performed in one
iteration and the task is parked at the scheduling point of the second one, with value 4 -/
example (fuel sf : Nat) :
    ∃ st' st'' : ExecState P8 Unit, runLoop S1 (sf + 1 + 11) (fuel + 1) stA = runLoop S1 (sf + 1 + 11) fuel st'' ∧
      st''.u.value = 4 ∧ st'.u.value = 4 ∧
      st''.conts = st'.conts.set 0 (Atomic.fetchUpdateBody idL (fun old => some (old + 10)) >>= fun _ => pure ()) := by
  obtain ⟨st', h2, eff⟩ := runLoop_fetchUpdateBody S1 idL_lawful sf fuel stA _ _ _ 0 { clock := Clock.ofList [3] }
    (fun old => some (old + 10))
    (fun _ _ => Atomic.fetchUpdateBody idL (fun old => some (old + 10)) >>= fun _ => pure ())
    rfl rfl rfl rfl
  exact ⟨st', _, h2, eff.value, eff.value, rfl⟩

end AtomicExample

end ShuttleModel
