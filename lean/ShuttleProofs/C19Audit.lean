import ShuttleProofs.C19

open ShuttleModel.C19

#print axioms tmpsc_fifo_exactly_once
#print axioms tmpsc_capacity
#print axioms tmpsc_slot_returned_on_every_receive_fixed
#print axioms tmpsc_slot_returned_on_every_receive_partial
#print axioms tmpsc_slot_returned_on_every_receive_false
#print axioms oneshot_at_most_one
#print axioms watch_latest_and_notified
#print axioms notify_at_most_one_permit
#print axioms notify_one_wakes_at_most_one
#print axioms notify_waiters_wakes_all_current
#print axioms notify_never_lost_false
#print axioms notify_never_lost_partial
#print axioms locks_are_fair_semaphores
#print axioms tokio_locks_exclusion
#print axioms tokio_mutex_exclusion
#print axioms tokio_locks_fifo
