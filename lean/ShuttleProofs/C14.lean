import ShuttleModel.Lang
import ShuttleProofs.Lemmas.RunnerIso
import ShuttleProofs.Lemmas.Continuation
import ShuttleProofs.Lemmas.KernelExamples

/-!
# C14 — every execution of a run starts from the same initial world

Model: `execute` (`Execution::run`, Kernel.lean) builds a fresh `Kernel` and takes the shared state from
`P.init`; `runner` (`Runner::run`, Runner.lean) threads only the scheduler state from one execution to the next.
`ShuttleModel/Continuation.lean` is the life-cycle of the one thing the real `Runner::run` *does* share between
executions besides the scheduler: the `ContinuationPool`.

## What this file does NOT cover (process-global state that is outside the model)

* **The OS thread's std panic count — known defect F19.**  `std::thread::panicking()` is a per-OS-thread counter
  owned by std, not by Shuttle.  An execution that ends while a task is suspended in the *middle of unwinding*
  (a destructor reached `thread::switch()` during a panic, then another task failed the execution) never lets that
  unwinding finish: at cleanup the suspended coroutine is `force_reset`/`force_unwind`-ed and the count it raised is
  never lowered.  `std::thread::panicking()` — hence `ExecutionState::should_stop()`, hence every `Drop` impl that
  consults it — is then `true` in every later execution and every later `Runner::run` on that OS thread.
  Witness: /verif/corpus/C14/f19_panic_count_leak.vp (`f19_b` is correct alone and "deadlocks" after `f19_a`).
  In the model `Kernel.panicking` is a field of the fresh kernel (`fresh_world` below shows it is `none` at the
  start of every execution), i.e. the model describes the behaviour the property asks for, *not* the real one;
  the differential check for C14 is what exposes F19.
* **`LABELS` / `TASK_ID_TO_TAGS`** — real `thread_local!`s of the OS thread, cleared by `ExecutionState::cleanup()`;
  `cleanup()` is skipped when `Execution::run` leaves by a panic (a failing execution ends the run anyway, but a
  caller that catches the panic and starts another run on the same thread sees the old entries until that run's
  first `cleanup()`; `set_labels_for_new_task` overwrites per task id, so ids that the new execution does not
  reach keep stale labels).  Labels and tags are not modelled.
* **`CURRENT_SCHEDULE`** — re-initialised by `CurrentSchedule::init` at the start of `Execution::run`
  (modelled: `schedRev = []`, `seed`).
* **The panic hook and `SCHEDULE_PERSISTED_AT`** (F5/F6, property C12), `UNGRACEFUL_SHUTDOWN_CONFIG`
  (set per execution), tracing spans (`ResetSpanOnDrop`).
* **The real continuation pool's stacks**: `Continuation.lean` models which continuations are pooled and what
  happens to their closures; it does not model the memory of a recycled coroutine stack (a recycled stack is
  reused from its top-of-loop suspension point, nothing of the previous function's frames is live in states
  `NotReady`/`FinishedIteration`; that is corosensei's guarantee, not proved here).  Nor does it model the
  TODO at continuation.rs:240 (a recycled stack may be smaller than the `stack_size` requested).
* `runner` does not model `max_time`.
-/

namespace ShuttleProofs.C14
open ShuttleModel ShuttleProofs.Kernel ShuttleProofs.RunnerIso

variable {σ : Type}

/-! ### the initial world -/

/-- **fresh_world.**  `Execution::run` enters its loop in a state that is a function of
`(P, maxSteps, seed, s)` alone: one task — id 0, runnable, attached, no park token, no waiter, no parent, clock
`[0]` (exactly what `spawn_main_thread` builds) —, no current or next task, no pending yield request, zero context
switches, step counter origin zero, an empty recorded schedule carrying the execution's seed, nobody panicking,
the shared state `P.init`, the single continuation `P.bodies 0`, an empty event log, and the scheduler state it
was handed. -/
theorem fresh_world (P : Program) (S : Scheduler σ) (ms : MaxSteps) (seed : Nat) (s : σ) (fuel segFuel : Nat) :
    ∃ st0 : ExecState P σ,
      execute P S ms seed s fuel segFuel = runLoop S segFuel fuel st0 ∧
      st0.k.tasks = [{ state := .runnable, detached := false, tokenAvail := false, blockedInPark := false,
                       woken := false, waiter := none, clock := Clock.ofList [0], parent := none }] ∧
      (({ seed := seed, maxSteps := ms } : Kernel).spawnTask none).1 = 0 ∧
      st0.k.current = .none ∧ st0.k.next = .none ∧ st0.k.hasYielded = false ∧
      st0.k.ctxSwitches = 0 ∧ st0.k.stepsResetAt = 0 ∧
      st0.k.schedRev = [] ∧ st0.k.seed = seed ∧ st0.k.maxSteps = ms ∧
      st0.k.panicking = none ∧ st0.k.alsoPanicking = [] ∧
      st0.u = P.init ∧ st0.conts = [P.bodies 0] ∧ st0.log = #[] ∧ st0.sch = s :=
  ⟨initState P ms seed s, execute_eq P S ms seed s fuel segFuel, rfl, rfl, rfl, rfl, rfl, rfl, rfl, rfl, rfl, rfl,
    rfl, rfl, rfl, rfl, rfl, rfl⟩

example : (execute exP firstSched .none 5 () 20 20).outcome = .ok ∧
    (initState exP (σ := Unit) .none 5 ()).k.tasks.length = 1 := by decide

/-- **runner_iteration_eq_standalone.**  In `Runner::run` the `i`-th execution (0-based) is *equal* — outcome,
final kernel, final shared state, event log, final scheduler state — to a stand-alone
`Execution::run(P, scheduler, maxSteps)` started with the seed and scheduler state that `new_execution` returned
when applied to the scheduler state the runner held at that moment; and that state is the initial one (`i = 0`) or
the final scheduler state of execution `i - 1`.  An execution receives nothing else from its predecessors, whether
they passed, were abandoned by the step bound (`abandoned`) or stopped by the scheduler (`stopped`). -/
theorem runner_iteration_eq_standalone (P : Program) (F : FullScheduler σ) (ms : MaxSteps)
    (fuel segFuel iters : Nat) (s0 : σ) (es : List (Nat × Result P σ))
    (hes : es = (runner P F ms fuel segFuel iters s0 []).execs) (i : Nat) (hi : i < es.length) :
    ∃ sBefore s', F.newExec sBefore = .some es[i].1 s' ∧
      es[i].2 = execute P F.sched ms es[i].1 s' fuel segFuel ∧
      (i = 0 → sBefore = s0) ∧
      (∀ j (hj : j + 1 = i), sBefore = (es[j]'(by omega)).2.st.sch) := by
  subst hes
  exact (runner_chain F ms fuel segFuel iters s0).get i hi

/-- the same, as a chain: see `RunnerIso.Chain` -/
theorem runner_is_chain (P : Program) (F : FullScheduler σ) (ms : MaxSteps) (fuel segFuel iters : Nat) (s0 : σ) :
    Chain P F ms fuel segFuel s0 (runner P F ms fuel segFuel iters s0 []).execs :=
  runner_chain F ms fuel segFuel iters s0

/-- **Alone in a fresh run = after any history.**  What the runner does from a scheduler state `s` on does not
depend on the executions it has already performed (`acc`): the remaining executions, the final scheduler state and
a `new_execution` panic are those of a fresh `Runner::run` started with scheduler state `s`. -/
theorem runner_suffix_eq_fresh_run (P : Program) (F : FullScheduler σ) (ms : MaxSteps) (fuel segFuel iters : Nat)
    (s : σ) (acc : List (Nat × Result P σ)) :
    (runner P F ms fuel segFuel iters s acc).execs = acc.reverse ++ (runner P F ms fuel segFuel iters s []).execs ∧
    (runner P F ms fuel segFuel iters s acc).final = (runner P F ms fuel segFuel iters s []).final ∧
    (runner P F ms fuel segFuel iters s acc).newExecPanic = (runner P F ms fuel segFuel iters s []).newExecPanic :=
  let h := runner_acc (P := P) F ms fuel segFuel iters s acc
  ⟨h.1, h.2.1, h.2.2.1⟩

/-- every execution of a run starts in the fresh world of `fresh_world` -/
theorem every_execution_starts_fresh (P : Program) (F : FullScheduler σ) (ms : MaxSteps)
    (fuel segFuel iters : Nat) (s0 : σ) (e : Nat × Result P σ)
    (he : e ∈ (runner P F ms fuel segFuel iters s0 []).execs) :
    ∃ s', e.2 = runLoop F.sched segFuel fuel (initState P ms e.1 s') := by
  obtain ⟨i, hi, rfl⟩ := List.getElem_of_mem he
  obtain ⟨_, s', _, h, _, _⟩ := runner_iteration_eq_standalone P F ms fuel segFuel iters s0 _ rfl i hi
  exact ⟨s', by rw [h, execute_eq]⟩

/-- non-vacuity: three round-robin executions of `exP`; the third equals a stand-alone execution -/
example :
    let R := runner exP rrScheduler .none 20 20 5 { maxIterations := 3 } []
    R.execs.length = 3 ∧ R.count = some 3 ∧ (R.execs.map (·.2.outcome)) = [.ok, .ok, .ok] := by decide

/-! ### the continuation pool -/

open ShuttleModel.Continuation ShuttleProofs.Continuation in
/-- **pool_only_reusable.**  Over `ShuttleModel/Continuation.lean`.  Let `p` satisfy the pool invariant (every
pooled continuation is `reusable()` and holds no function — true of `ContinuationPool::new()`), and let `c` be a
well-formed continuation.  When its `PooledContinuation` is dropped:

* the invariant still holds — so the next `acquire` + `initialize` (`Task::from_closure`) cannot trip
  `initialize`'s assertions and starts from a continuation that holds no function;
* `c` goes back to the pool iff its state is `NotReady`, `FinishedIteration` or `Initialized`;
* `NotReady` / `FinishedIteration` (never given a function / finished its function): pooled as is;
* `Initialized` (function set, never started): the function is taken out of the cell and dropped — or forgotten,
  exactly when `std::thread::panicking()` and the configured behaviour is `Leak` — *before* the continuation is
  pooled in state `NotReady` with an empty cell;
* `Ready` (suspended in the middle of its function): never pooled; its stack is unwound, or leaked
  (`force_reset`) when `std::thread::panicking()`;
* `Running` (left there by a function that panicked) / `Exited`: never pooled. -/
theorem pool_only_reusable {F : Type} {p : Pool F} (hp : PoolInv p) {c : Cont F} (hc : ContWF c)
    (panicking : Bool) (beh : FunctionBehavior) :
    let r := p.dropPooled c panicking beh
    PoolInv r.pool ∧
    (∀ f, ∃ c' p', r.pool.spawn f = .ok (c', p') ∧ c'.state = .initialized ∧ c'.function = some f ∧
        c'.onStack = none ∧ PoolInv p') ∧
    (r.pooled = true ↔ c.state = .notReady ∨ c.state = .finishedIteration ∨ c.state = .initialized) ∧
    (c.state = .notReady ∨ c.state = .finishedIteration → r.pool.queue = p.queue ++ [c] ∧ r.fate = none) ∧
    (c.state = .initialized → ∃ f, c.function = some f ∧
        r.pool.queue = p.queue ++ [{ c with function := none, state := .notReady }] ∧
        r.fate = some (if panicking = true ∧ beh = .leak then .forgotten f else .droppedUnrun f)) ∧
    (c.state = .ready → r.pooled = false ∧ r.pool = p ∧ ∃ f, c.onStack = some f ∧
        r.fate = some (if panicking = true then .leaked f else .unwound f)) ∧
    (c.state = .running ∨ c.state = .exited → r.pooled = false ∧ r.pool = p ∧ r.fate = none) := by
  obtain ⟨h1, h2, h3, h4, h5, h6⟩ := dropPooled_spec hp hc panicking beh
  refine ⟨h1, fun f => ?_, h2, fun h => h3 ((reusable_iff c).2 h), h4, h5, h6⟩
  obtain ⟨c', p', e, _, hs, hf, ho, hp'⟩ := spawn_spec h1 f
  exact ⟨c', p', e, hs, hf, ho, hp'⟩

open ShuttleModel.Continuation ShuttleProofs.Continuation in
/-- the life-cycle is inhabited: a continuation is created, given closure `1`, yields once, and is dropped
suspended — not pooled, unwound; a second one finishes closure `2` and is pooled; a third is dropped
`Initialized` while panicking with `Leak` — closure `3` is forgotten, the continuation is pooled empty -/
example :
    let p0 : Pool Nat := Pool.new
    (∃ c1 p1, p0.spawn 1 = .ok (c1, p1) ∧
      ∃ c1', c1.resume .yielded = .ok false c1' none ∧ c1'.state = .ready ∧
        (p1.dropPooled c1' false .drop).pooled = false ∧ (p1.dropPooled c1' false .drop).fate = some (.unwound 1)) ∧
    (∃ c2 p2, p0.spawn 2 = .ok (c2, p2) ∧
      ∃ c2', c2.resume .finished = .ok true c2' (some (.completed 2)) ∧
        (p2.dropPooled c2' false .drop).pooled = true ∧ (p2.dropPooled c2' false .drop).pool.queue = [c2']) ∧
    (∃ c3 p3, p0.spawn 3 = .ok (c3, p3) ∧
      (p3.dropPooled c3 true .leak).fate = some (.forgotten 3) ∧
      (p3.dropPooled c3 true .leak).pool.queue = [{ state := .notReady, function := none, onStack := none }]) :=
  ⟨⟨_, _, rfl, _, rfl, rfl, rfl, rfl⟩, ⟨_, _, rfl, _, rfl, rfl, rfl⟩, ⟨_, _, rfl, rfl, rfl⟩⟩

/-! ### `Once`, `lazy_static`, thread-locals, scopes: per-execution state lives in `P.init` -/

/-- **once_and_lazy_per_execution.**  For a harness program `ir`, the shared state every execution starts from
(`fresh_world`: `st0.u = P.init`) is `ir.initHeap`, in which every object is built from its declaration alone
(`mkObj`): a `once` object is in its initial state — no storage slot (`mutex = none`), not `Complete`, cell `0` —,
a `lazy` / `wlazy` object has an uninitialised cell and no value slot, every task's thread-local storage map is
empty (no slot, empty destruction order), and there is no open `thread::scope`.  Together with
`every_execution_starts_fresh`, a `Once` that ran, a lazy static that was forced or a thread-local that was
initialised in one execution is uninitialised again in the next, and is initialised on first use. -/
theorem once_and_lazy_per_execution (ir : IR) :
    ir.program.init = ir.initHeap ∧
    ir.initHeap.objs = ir.objs.map mkObj ∧
    (∀ d : ObjDecl, d.kind = "once" →
      mkObj d = .once { mutex := none, complete := none } 0) ∧
    (∀ d : ObjDecl, d.kind = "lazy" ∨ d.kind = "wlazy" →
      mkObj d = .lazy { cell := { mutex := none, complete := none }, initialized := false }) ∧
    (∀ l ∈ ir.initHeap.locals, l.tlsSlots = [] ∧ l.tlsOrder = [] ∧ l.scopes = [] ∧ l.guards = []) ∧
    ir.initHeap.scopes = [] ∧
    (∀ (S : Scheduler σ) (ms : MaxSteps) (seed : Nat) (s : σ) (fuel segFuel : Nat),
      ∃ st0 : ExecState ir.program σ, execute ir.program S ms seed s fuel segFuel = runLoop S segFuel fuel st0 ∧
        st0.u = ir.initHeap) := by
  refine ⟨rfl, rfl, ?_, ?_, ?_, rfl, fun S ms seed s fuel segFuel => ⟨initState ir.program ms seed s, rfl, rfl⟩⟩
  · intro d h; simp [mkObj, h]
  · intro d h; rcases h with h | h <;> simp [mkObj, h]
  · intro l hl
    simp only [IR.initHeap, List.mem_cons, List.mem_replicate] at hl
    rcases hl with rfl | ⟨_, rfl⟩ <;> exact ⟨rfl, rfl, rfl, rfl⟩

example : ∃ ir : IR, (∃ d ∈ ir.objs, d.kind = "once") ∧ (∃ d ∈ ir.objs, d.kind = "lazy") ∧ ir.initHeap.locals.length = 2 :=
  ⟨{ objs := [{ name := "o", kind := "once", args := [] }, { name := "z", kind := "lazy", args := [] }],
     tasks := [{}, {}] }, ⟨_, List.mem_cons_self, rfl⟩, ⟨_, List.mem_cons_of_mem _ List.mem_cons_self, rfl⟩, rfl⟩

end ShuttleProofs.C14
