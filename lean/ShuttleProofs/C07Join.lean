import ShuttleProofs.C07
/-
  C07 — `thread::JoinHandle::join`, the wait loop (F29 repaired in /repo c6d7a0a):
    `loop { if !target.set_waiter(me) { break }; me.block(false); thread::switch(); }`
  modelled by `ShuttleModel.joinWait` (Lang.lean).  `join_returns_only_when_finished` (C07.lean) had to say
  "what is not claimed: that no other code issues `unblock(j)` while `j` waits in `join`".  For the loop that
  caveat is gone for the join wrapper itself: the wrapper's only way to its continuation is a `set_waiter`
  request that was answered `false`, and the kernel gives that answer only for a `Finished` target.
-/
namespace ShuttleProofs.C07
open ShuttleModel ShuttleProofs.Kernel ShuttleProofs.Thread

/-! ### The shape of the loop -/

/-- Programs whose **only** way to return is the `false` edge of a `set_waiter(tid)` request.
There is deliberately no constructor for a bare `.pure ()`: `pure ()` is reachable only as `kont false` of a
`.op (.setWaiter tid) kont` node.  The other two requests are the ones the loop issues between two looks at the
target (`K.block false = .op (.block false) .pure`, `K.switch = .op .switch .pure`); whatever they answer, the
rest of the program is again of this shape. -/
inductive ExitsViaNotBlocking (tid : Nat) : Prog Heap Unit → Prop where
  | panic (msg : String) : ExitsViaNotBlocking tid (.panic msg)
  | setWaiter (kont : Bool → Prog Heap Unit) :
      kont false = .pure () → ExitsViaNotBlocking tid (kont true) →
      ExitsViaNotBlocking tid (.op (.setWaiter tid) kont)
  | block (kont : Unit → Prog Heap Unit) :
      (∀ a, ExitsViaNotBlocking tid (kont a)) → ExitsViaNotBlocking tid (.op (.block false) kont)
  | switch (kont : Unit → Prog Heap Unit) :
      (∀ a, ExitsViaNotBlocking tid (kont a)) → ExitsViaNotBlocking tid (.op .switch kont)

/-- the predicate really excludes a program that just returns -/
theorem not_exitsViaNotBlocking_pure (tid : Nat) : ¬ ExitsViaNotBlocking tid (.pure ()) := by
  intro h
  cases h

/-- one round of the loop, in explicit form -/
theorem joinWait_succ (tid fuel : Nat) :
    joinWait tid (fuel + 1) =
      .op (.setWaiter tid) (fun shouldBlock =>
        if shouldBlock then .op (.block false) (fun _ => .op .switch (fun _ => joinWait tid fuel))
        else .pure ()) := by
  rw [joinWait]
  first
    | done
    | rfl
    | (show Prog.op _ _ = Prog.op _ _; congr 1; funext b; cases b <;> rfl)

/-- one round of the loop followed by `kont`, in explicit form -/
theorem joinWait_succ_bind {α : Type} (tid fuel : Nat) (kont : Unit → Prog Heap α) :
    Prog.bind (joinWait tid (fuel + 1)) kont =
      .op (.setWaiter tid) (fun shouldBlock =>
        if shouldBlock then
          .op (.block false) (fun _ => .op .switch (fun _ => Prog.bind (joinWait tid fuel) kont))
        else kont ()) := by
  rw [joinWait_succ]
  show Prog.op _ _ = Prog.op _ _
  congr 1
  funext b
  cases b <;> rfl

theorem joinWait_zero_bind {α : Type} (tid : Nat) (kont : Unit → Prog Heap α) :
    Prog.bind (joinWait tid 0) kont = .panic "model: join loop fuel exhausted" := rfl

/-- **joinWait_exits_only_via_finished_answer.**  For every target `tid` and every loop bound `fuel`, the wait
loop of `join` is a program that can return *only* through a `set_waiter(tid)` request answered `false`
("do not block"): every path from the root of `joinWait tid fuel` to a `pure ()` leaf ends with the `false` edge
of a `.op (.setWaiter tid) _` node.  Being resumed after `block(false); switch()` — by the target's exit, by a
semaphore grant, by a scope exit, by anything — leads to the next `set_waiter`, not to the continuation.
(The `fuel = 0` leaf is the model's `panic "model: join loop fuel exhausted"`, which does not return either.) -/
theorem joinWait_exits_only_via_finished_answer (tid fuel : Nat) :
    ExitsViaNotBlocking tid (joinWait tid fuel) := by
  induction fuel with
  | zero => exact .panic _
  | succ n ih =>
    rw [joinWait_succ]
    exact .setWaiter _ rfl (.block _ (fun _ => .switch _ (fun _ => ih)))

/-! ### What the kernel answers -/

/-- writing back the entry that is already there changes nothing -/
theorem setTask_self {k : Kernel} {t : Nat} {tk : Task} (h : k.tasks[t]? = some tk) : k.setTask t tk = k := by
  obtain ⟨hlt, rfl⟩ := List.getElem?_eq_some_iff.1 h
  simp [Kernel.setTask]

variable {Pg : Program} {σ : Type}

/-- **The `set_waiter` request in `runSegment`.**  Exactly one of three things happens when task `me` issues
`set_waiter(tid)`:
* the answer is `false` — then the target exists and **is `Finished` in the current state**, and that state is
  not changed at all;
* the answer is `true` — then the target is not `Finished`; it records `me` as its waiter;
* the request panics (unknown id, or the target already has another waiter). -/
theorem runSegment_setWaiter (S : Scheduler σ) (me f : Nat) (st : ExecState Pg σ) (tid : Nat)
    (kont : Bool → Prog Pg.U Unit) :
    (∃ tk, st.k.tasks[tid]? = some tk ∧ tk.finished = true ∧
      runSegment S me (f + 1) st (.op (.setWaiter tid) kont) = runSegment S me f st (kont false)) ∨
    (∃ tk, st.k.tasks[tid]? = some tk ∧ tk.finished = false ∧
      runSegment S me (f + 1) st (.op (.setWaiter tid) kont) =
        runSegment S me f { st with k := st.k.setTask tid { tk with waiter := some me } } (kont true)) ∨
    (∃ msg, runSegment S me (f + 1) st (.op (.setWaiter tid) kont) = .panicked msg st) := by
  cases hg : st.k.tasks[tid]? with
  | none =>
    refine .inr (.inr ⟨"called `Option::unwrap()` on a `None` value (set_waiter)", ?_⟩)
    rw [runSegment]
    simp only [Kernel.getTask?, hg]
  | some tk =>
    cases hw : tk.setWaiter me with
    | error e =>
      refine .inr (.inr ⟨e, ?_⟩)
      rw [runSegment]
      simp only [Kernel.getTask?, hg, hw]
    | ok r =>
      obtain ⟨b, tk'⟩ := r
      have ha := (join_returns_only_when_finished (P := Pg) (σ := σ)).1 tk tk' me b hw
      cases b with
      | false =>
        obtain ⟨hfin, rfl⟩ := ha.1 rfl
        refine .inl ⟨tk', rfl, hfin, ?_⟩
        rw [runSegment]
        simp only [Kernel.getTask?, hg, hw]
        rw [setTask_self hg]
      | true =>
        obtain ⟨hfin, _, _⟩ := ha.2 rfl
        refine .inr (.inl ⟨tk, rfl, hfin, ?_⟩)
        have : tk' = { tk with waiter := some me } := by
          unfold Task.setWaiter at hw
          split at hw
          · cases hw
          · split at hw
            · cases hw
            · cases hw; rfl
        subst this
        rw [runSegment]
        simp only [Kernel.getTask?, hg, hw]

/-- **join_returns_only_when_finished_loop.**  Every path of `joinWait` to its continuation passes through a
`set_waiter` that saw the target `Finished`; stray `unblock`s of the joiner (semaphore grants, scope exits) only
send it round the loop.  Precisely:
(1) syntactically, `joinWait tid fuel` returns only through the `false` edge of a `set_waiter(tid)` request, for
    every `tid` and `fuel` (`joinWait_exits_only_via_finished_answer`), and a program of that shape is never a
    bare `pure ()`;
(2) `Task::set_waiter` answers `false` only for a `Finished` target, which it leaves untouched (part (a) of
    `join_returns_only_when_finished`), so that in every kernel state `k` in which the target entry
    `k.tasks[tid]` gives that answer the target is `Finished` and the state after the request is `k` itself;
(3) `runSegment` hands `false` to the continuation of a `set_waiter(tid)` request only in a state whose task
    `tid` is `Finished`, and goes on in that very state (`runSegment_setWaiter`).
For the statement about a whole segment of the loop followed by an arbitrary continuation see
`joinWait_segment` below.  Not proved here: a statement over `runLoop` quantifying over *all* later segments at
once; it follows by applying `joinWait_segment` at each segment in which the joiner is resumed, since the
continuation the segment stores for the joiner is again `joinWait tid n >>= kont`. -/
theorem join_returns_only_when_finished_loop :
    (∀ tid fuel : Nat, ExitsViaNotBlocking tid (joinWait tid fuel)) ∧
    (∀ tid : Nat, ¬ ExitsViaNotBlocking tid (.pure ())) ∧
    (∀ (k : Kernel) (tid me : Nat) (tk tk' : Task), k.tasks[tid]? = some tk →
      tk.setWaiter me = .ok (false, tk') → tk.finished = true ∧ tk' = tk ∧ k.setTask tid tk' = k) ∧
    (∀ (S : Scheduler σ) (me f : Nat) (st : ExecState Pg σ) (tid : Nat) (kont : Bool → Prog Pg.U Unit),
      (∃ tk, st.k.tasks[tid]? = some tk ∧ tk.finished = true ∧
        runSegment S me (f + 1) st (.op (.setWaiter tid) kont) = runSegment S me f st (kont false)) ∨
      (∃ tk, st.k.tasks[tid]? = some tk ∧ tk.finished = false ∧
        runSegment S me (f + 1) st (.op (.setWaiter tid) kont) =
          runSegment S me f { st with k := st.k.setTask tid { tk with waiter := some me } } (kont true)) ∨
      (∃ msg, runSegment S me (f + 1) st (.op (.setWaiter tid) kont) = .panicked msg st)) := by
  refine ⟨joinWait_exits_only_via_finished_answer, not_exitsViaNotBlocking_pure, ?_, runSegment_setWaiter⟩
  intro k tid me tk tk' hg hw
  obtain ⟨hfin, rfl⟩ := ((join_returns_only_when_finished (P := Pg) (σ := σ)).1 tk tk' me false hw).1 rfl
  exact ⟨hfin, rfl, setTask_self hg⟩

/-! ### One segment of the loop -/

/-- what the joiner's stored continuation is when a segment runs out of fuel right after `set_waiter` -/
def joinBlocking {α : Type} (tid n : Nat) (kont : Unit → Prog Heap α) : Prog Heap α :=
  .op (.block false) (fun _ => .op .switch (fun _ => Prog.bind (joinWait tid n) kont))

/-- … and right after `block(false)` -/
def joinParked {α : Type} (tid n : Nat) (kont : Unit → Prog Heap α) : Prog Heap α :=
  .op .switch (fun _ => Prog.bind (joinWait tid n) kont)

/-- **joinWait_segment.**  A segment of task `me` that starts at the head of the wait loop, followed by an
arbitrary continuation `kont` (in `execOp "join"`: read the target's clock, `update_clock`, log `ok`), does
exactly one of the following, for every scheduler, state, target, loop bound and segment fuel:
* (A) **it reaches `kont ()`** — then the target is `Finished` in the state in which `kont ()` starts, which is
  the state the segment started in (nothing was written);
* (B) it panics (unknown target, a second waiter, `block` on a finished current task);
* (C) the target is not `Finished`, it recorded `me` as waiter, `me` is blocked by `block(false)`, and the segment
  ends at `thread::switch()` with the joiner's continuation being **the head of the loop again**
  (`joinWait tid n >>= kont`) — so whoever unblocks `me` later, the next thing `me` does is look at the target
  again;
* (D) the segment's fuel (0 or 1 requests left after `set_waiter`) runs out inside the round, the target not
  being `Finished`; the stored continuation is the rest of the round, not `kont ()`.
Only (A) runs any part of `kont`.  With `n = 0` the loop is the model's fuel panic and `kont` is not reached
(`joinWait_zero_bind`). -/
theorem joinWait_segment {i : Heap} {b u : Nat → ShuttleModel.P Unit} (S : Scheduler σ) (me f : Nat)
    (st : ExecState (HeapProgram i b u) σ) (tid n : Nat) (kont : Unit → ShuttleModel.P Unit) :
    (∃ tk, st.k.tasks[tid]? = some tk ∧ tk.finished = true ∧
      runSegment S me (f + 1) st (Prog.bind (joinWait tid (n + 1)) kont) = runSegment S me f st (kont ())) ∨
    (∃ msg st', runSegment S me (f + 1) st (Prog.bind (joinWait tid (n + 1)) kont) = .panicked msg st') ∨
    (∃ tk k', st.k.tasks[tid]? = some tk ∧ tk.finished = false ∧ 2 ≤ f ∧
      (st.k.setTask tid { tk with waiter := some me }).modTask me (·.block false) = .ok k' ∧
      runSegment S me (f + 1) st (Prog.bind (joinWait tid (n + 1)) kont) =
        .atSwitch { st with k := k', conts := st.conts.set me (Prog.bind (joinWait tid n) kont) }) ∨
    (∃ tk st' p, st.k.tasks[tid]? = some tk ∧ tk.finished = false ∧ f ≤ 1 ∧
      runSegment S me (f + 1) st (Prog.bind (joinWait tid (n + 1)) kont) = .outOfFuel st' ∧
      st'.conts = st.conts.set me p ∧ (p = joinBlocking tid n kont ∨ p = joinParked tid n kont)) := by
  rw [joinWait_succ_bind]
  rcases runSegment_setWaiter S me f st tid _ with ⟨tk, hg, hfin, he⟩ | ⟨tk, hg, hfin, he⟩ | ⟨msg, he⟩
  · exact .inl ⟨tk, hg, hfin, he⟩
  · rw [he]
    simp only [if_true]
    match f with
    | 0 =>
      refine .inr (.inr (.inr ⟨tk,
        { st with k := st.k.setTask tid { tk with waiter := some me },
                  conts := st.conts.set me (joinBlocking tid n kont) },
        joinBlocking tid n kont, hg, hfin, Nat.le_succ 0, ?_, rfl, .inl rfl⟩))
      rw [runSegment]
      rfl
    | 1 =>
      rw [runSegment]
      dsimp only
      cases hm : (st.k.setTask tid { tk with waiter := some me }).modTask me (fun x => x.block false) with
      | error e => exact .inr (.inl ⟨_, _, rfl⟩)
      | ok k' =>
        refine .inr (.inr (.inr ⟨tk,
          { st with k := k', conts := st.conts.set me (joinParked tid n kont) },
          joinParked tid n kont, hg, hfin, Nat.le_refl 1, ?_, rfl, .inr rfl⟩))
        dsimp only
        rw [runSegment]
        rfl
    | f + 2 =>
      rw [runSegment]
      dsimp only
      cases hm : (st.k.setTask tid { tk with waiter := some me }).modTask me (fun x => x.block false) with
      | error e => exact .inr (.inl ⟨_, _, rfl⟩)
      | ok k' =>
        refine .inr (.inr (.inl ⟨tk, k', hg, hfin, Nat.le_add_left 2 f, hm, ?_⟩))
        dsimp only
        rw [runSegment]
  · exact .inr (.inl ⟨msg, st, he⟩)

/-! ### Non-vacuity -/

/-- the loop is not the trivial program, its first request is `set_waiter(1)`, whose `false` edge returns and whose
`true` edge blocks -/
example : joinWait 1 2 ≠ .pure () ∧
    ∃ kont, joinWait 1 2 = .op (.setWaiter 1) kont ∧ kont false = .pure () ∧
      kont true = .op (.block false) (fun _ => .op .switch (fun _ => joinWait 1 1)) :=
  ⟨(by rw [joinWait_succ]; intro h; cases h), _, joinWait_succ 1 1, rfl, rfl⟩

/-- case (A) of `joinWait_segment` happens: target 1 is `Finished`, the joiner (task 0) goes straight on -/
example : ∃ tk : Task, ([{}, { state := .finished }] : List Task)[1]? = some tk ∧ tk.finished = true ∧
    tk.setWaiter 0 = .ok (false, tk) := ⟨_, rfl, rfl, rfl⟩

/-- case (C) happens: target 1 is runnable, `set_waiter` answers `true` and records the joiner -/
example : ∃ tk : Task, ([{}, {}] : List Task)[1]? = some tk ∧ tk.finished = false ∧
    tk.setWaiter 0 = .ok (true, { tk with waiter := some 0 }) := ⟨_, rfl, rfl, rfl⟩

end ShuttleProofs.C07
