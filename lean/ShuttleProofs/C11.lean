import ShuttleProofs.Lemmas.PctExamples

/-!
# C11 — the PCT scheduler: priority invariant, highest-priority-runs, change points, step estimate, iteration count

Model: `ShuttleModel.Pct` (`ShuttleModel/Sched/Pct.lean`, line-by-line transcription of `shuttle-schedulers/src/pct.rs`,
validated against the real `PctScheduler` on 151 919 recorded `next_task` calls).

Spec-level definitions (in `ShuttleProofs/Lemmas/Pct*.lean`):
* `keys m`, `vals m` — the keys / values of the association list that models the `HashMap<TaskId, usize>`;
  `KeysOk m := keys m = List.range m.length`.
* `MInv m np` — keys are exactly `0..len-1`, values pairwise distinct, all values `< np`; `Inv s := MInv s.priorities s.nextPriority`.
* `prio s k := mapGet s.priorities k` — `self.priorities.get(&k)`.
* `Demote s runnable y := runnable.length > 1 ∧ (s.steps ∈ s.changePoints ∨ y = true)` — the guard of pct.rs:141-142.
* `NewTaskInserts m np m' np'` — `(m', np')` is reachable from `(m, np)` by a sequence of the two elementary updates of the
  new-task loop pct.rs:118-132 (`fresh`: the new task `len` gets `np`; `swap t old`: a known task `t ≥ 1` with priority `old` gets
  `np` and the new task `len` gets `old`; `np` is incremented each time).
* `rank` — Rust's order on `Option<&usize>` (`None < Some(_)`).
* `stepOk`, `execOk`, `ex0`, `exFirst`, `exSecond`, `exSecond1`, `exSecond2` — concrete states (computed by the model from
  `new_from_seed(42, 3, 10)`) for the non-vacuity examples.
-/

namespace ShuttleProofs.Pct
open ShuttleModel ShuttleModel.Pct

/-! ## `pct_inv` -/

/-- The invariant documented at pct.rs:25 (plus "every value is `< next_priority`") holds initially and is preserved by
    every scheduler entry point.  No hypothesis on the RNG: `Rng.shuffle` is PROVED to return a permutation
    (`shuffle_perm`, for every generator state). `nextTask … = .ok` already implies `runnable ≠ []`. -/
theorem pct_inv :
    (∀ seed maxDepth maxIterations, Inv (PctState.newFromSeed seed maxDepth maxIterations)) ∧
    (∀ s seed s', Inv s → newExecution s = .some seed s' → Inv s') ∧
    (∀ s runnable current isYielding c s', Inv s → nextTask s runnable current isYielding = .ok c s' → Inv s') ∧
    (∀ s, Inv s → Inv (nextU64 s).2) :=
  ⟨inv_newFromSeed, fun _ _ _ hI h => inv_newExecution hI h, fun _ _ _ _ _ _ hI h => inv_nextTask hI h,
   fun _ hI => inv_nextU64 hI⟩

/-- Non-vacuity: the hypotheses are satisfied by a state in the middle of the second execution (shuffled priorities, two
    tasks inserted by the new-task loop, one change-point demotion), and the invariant is then a non-trivial fact. -/
example : exSecond1 = some exSecond1S ∧ Inv exSecond1S ∧
    nextTask exSecond1S [0, 1, 17] (some 0) false = .ok 1 exSecond2S ∧ Inv exSecond2S ∧
    exSecond2S.priorities ≠ exSecond1S.priorities := by decide +kernel
example : exFirst = some exFirstS ∧ Inv exFirstS ∧ newExecution exFirstS = .some 10580897095847554459 exSecondS ∧
    Inv exSecondS ∧ exSecondS.priorities ≠ exFirstS.priorities := by decide +kernel

/-! ## `pct_runs_min_priority` -/

/-- `next_task` returns an offered task, and that task has the strictly smallest priority value (= highest priority)
    among all offered tasks, in the state the call leaves behind. -/
theorem pct_runs_min_priority {s s' : PctState} {runnable : List Nat} {current : Option Nat} {isYielding : Bool}
    {c : Nat} (hI : Inv s) (h : nextTask s runnable current isYielding = .ok c s') :
    c ∈ runnable ∧ ∃ vc, prio s' c = some vc ∧ ∀ t ∈ runnable, t ≠ c → ∃ vt, prio s' t = some vt ∧ vc < vt := by
  have hI' : Inv s' := inv_nextTask hI h
  obtain ⟨mx, mid, npMid, hmx, _, _, hlen, _, _, _, hlen', _, _, _, _, _, _, _, hk⟩ := nextTask_spec hI h
  obtain ⟨hmem, hmin⟩ := minByKey_spec hk
  obtain ⟨_, hle⟩ := listMax_spec hmx
  have known : ∀ t ∈ runnable, ∃ v, prio s' t = some v := fun t ht =>
    hI'.get_of_lt (by have := hle t ht; omega)
  obtain ⟨vc, hvc⟩ := known c hmem
  refine ⟨hmem, vc, hvc, ?_⟩
  intro t ht htc
  obtain ⟨vt, hvt⟩ := known t ht
  refine ⟨vt, hvt, ?_⟩
  have := hmin t ht
  unfold prio at hvc hvt
  rw [hvc, hvt] at this
  simp only [rank] at this
  have hne : vc ≠ vt := fun e => htc (hI'.get_inj hvt (e ▸ hvc))
  omega

example : exSecond1 = some exSecond1S ∧ Inv exSecond1S ∧
    nextTask exSecond1S [0, 1, 17] (some 0) false = .ok 1 exSecond2S ∧
    prio exSecond2S 1 = some 5 ∧ prio exSecond2S 0 = some 18 ∧ prio exSecond2S 17 = some 13 := by decide +kernel

/-! ## `pct_priority_changes_only` -/

/-- A `next_task` call changes `priorities` / `next_priority` only by
    (a) the new-task loop: a sequence `NewTaskInserts` of `fresh` / `swap` insertions of the previously unknown ids
        `len, len+1, …, max runnable`, leading to an intermediate map `mid` of length `max len (max runnable + 1)`, each
        insertion consuming one fresh priority; followed by
    (b) exactly when `Demote` holds (`runnable.len() > 1 && (change_points.contains(&steps) || is_yielding)`):
        `current`'s priority is set to the next fresh priority `npMid` (larger than every value in use).
    Consequences: every previously known task either keeps its priority value or moves to a fresh one
    (`≥ s.nextPriority`, i.e. lower priority than everything before the call) — priorities are never raised;
    if no new task is offered, every task other than a demoted `current` keeps its value;
    the relative order among tasks that were not moved to a fresh slot is unchanged. -/
theorem pct_priority_changes_only {s s' : PctState} {runnable : List Nat} {current : Option Nat} {isYielding : Bool}
    {c : Nat} (hI : Inv s) (h : nextTask s runnable current isYielding = .ok c s') :
    ∃ mx mid npMid,
      listMax runnable = some mx ∧
      NewTaskInserts s.priorities s.nextPriority mid npMid ∧
      mid.length = max s.priorities.length (mx + 1) ∧
      npMid = s.nextPriority + (mid.length - s.priorities.length) ∧
      (Demote s runnable isYielding → ∃ cur, current = some cur ∧ cur < mid.length ∧
        s'.priorities = mapInsert mid cur npMid ∧ s'.nextPriority = npMid + 1) ∧
      (¬ Demote s runnable isYielding → s'.priorities = mid ∧ s'.nextPriority = npMid) ∧
      (∀ k v, prio s k = some v → prio s' k = some v ∨ ∃ v', prio s' k = some v' ∧ s.nextPriority ≤ v') ∧
      (mx < s.priorities.length → ∀ k, (Demote s runnable isYielding → current ≠ some k) → prio s' k = prio s k) ∧
      (∀ j k vj vk vj' vk', prio s j = some vj → prio s k = some vk → prio s' j = some vj' → prio s' k = some vk' →
        vj' < s.nextPriority → vk' < s.nextPriority → (vj < vk ↔ vj' < vk')) := by
  obtain ⟨mx, mid, npMid, hmx, hins, hmid, hlen, hnp, hd, hnd, _⟩ := nextTask_spec hI h
  obtain ⟨hnple, _, _, hmono⟩ := hins.mono hI
  have P1 : ∀ k v, prio s k = some v → prio s' k = some v ∨ ∃ v', prio s' k = some v' ∧ s.nextPriority ≤ v' := by
    intro k v hk
    by_cases hdc : Demote s runnable isYielding
    · obtain ⟨cur, _, _, hp, _⟩ := hd hdc
      unfold prio; rw [hp, mapGet_mapInsert]
      by_cases hkc : k = cur
      · rw [if_pos hkc]; exact Or.inr ⟨npMid, rfl, hnple⟩
      · rw [if_neg hkc]; exact hmono k v hk
    · unfold prio; rw [(hnd hdc).1]; exact hmono k v hk
  refine ⟨mx, mid, npMid, hmx, hins, hlen, hnp, hd, hnd, P1, ?_, ?_⟩
  · intro hno k hk
    have hl : mid.length = s.priorities.length := by omega
    obtain ⟨e1, e2⟩ := hins.eq_of_length hI hl
    by_cases hdc : Demote s runnable isYielding
    · obtain ⟨cur, hcur, _, hp, _⟩ := hd hdc
      unfold prio; rw [hp, mapGet_mapInsert, e1]
      have : k ≠ cur := fun e => hk hdc (e ▸ hcur)
      rw [if_neg this]
    · unfold prio; rw [(hnd hdc).1, e1]
  · intro j k vj vk vj' vk' hj hk hj' hk' hlj hlk
    have ej : vj' = vj := by
      rcases P1 j vj hj with h1 | ⟨v', h1, h2⟩
      · rw [hj'] at h1; exact Option.some.inj h1
      · rw [hj'] at h1; cases h1; omega
    have ek : vk' = vk := by
      rcases P1 k vk hk with h1 | ⟨v', h1, h2⟩
      · rw [hk'] at h1; exact Option.some.inj h1
      · rw [hk'] at h1; cases h1; omega
    rw [ej, ek]

/-- Non-vacuity: a call that inserts two new tasks (16 by swapping with task 9, 17 by swapping with task 6), without
    demotion; and the next call, which demotes `current = 0` at the change point `steps = 1`. -/
example : exSecond = some exSecondS ∧ Inv exSecondS ∧
    nextTask exSecondS [0, 1, 17] (some 0) false = .ok 1 exSecond1S ∧
    ¬ Demote exSecondS [0, 1, 17] false ∧ exSecondS.priorities.length = 16 ∧ exSecond1S.priorities.length = 18 ∧
    prio exSecondS 9 = some 6 ∧ prio exSecond1S 9 = some 16 ∧ prio exSecond1S 16 = some 6 ∧
    prio exSecondS 6 = some 13 ∧ prio exSecond1S 6 = some 17 ∧ prio exSecond1S 17 = some 13 ∧
    prio exSecond1S 0 = prio exSecondS 0 := by decide +kernel
example : exSecond1 = some exSecond1S ∧ Inv exSecond1S ∧
    nextTask exSecond1S [0, 1, 17] (some 0) false = .ok 1 exSecond2S ∧
    Demote exSecond1S [0, 1, 17] false ∧ prio exSecond1S 0 = some 9 ∧ prio exSecond2S 0 = some 18 ∧
    prio exSecond2S 1 = prio exSecond1S 1 := by decide +kernel

/-! ## `pct_demotes_only_current` -/

/-- When the demotion guard holds, the demoted task is `current`, and after the call it is the lowest-priority task:
    its value `next_priority - 1` is strictly larger than the value of every other task, and than every value that was in
    use before the call. -/
theorem pct_demotes_only_current {s s' : PctState} {runnable : List Nat} {current : Option Nat} {isYielding : Bool}
    {c : Nat} (hI : Inv s) (h : nextTask s runnable current isYielding = .ok c s')
    (hd : Demote s runnable isYielding) :
    ∃ cur, current = some cur ∧ prio s' cur = some (s'.nextPriority - 1) ∧
      (∀ k v, k ≠ cur → prio s' k = some v → v < s'.nextPriority - 1) ∧
      (∀ k v, prio s k = some v → v < s'.nextPriority - 1) := by
  have hI' : Inv s' := inv_nextTask hI h
  obtain ⟨mx, mid, npMid, _, hins, _, _, _, hdem, _, _⟩ := nextTask_spec hI h
  obtain ⟨hnple, _, _, _⟩ := hins.mono hI
  obtain ⟨cur, hcur, _, hp, hnp⟩ := hdem hd
  have hc : prio s' cur = some (s'.nextPriority - 1) := by
    unfold prio; rw [hp, mapGet_mapInsert, if_pos rfl, hnp]; simp
  refine ⟨cur, hcur, hc, ?_, ?_⟩
  · intro k v hk hv
    have h1 := hI'.get_lt hv
    have : v ≠ s'.nextPriority - 1 := fun e => hk (hI'.get_inj hv (e ▸ hc))
    omega
  · intro k v hv
    have := hI.get_lt hv
    omega

example : exSecond1 = some exSecond1S ∧ Inv exSecond1S ∧
    nextTask exSecond1S [0, 1, 17] (some 0) false = .ok 1 exSecond2S ∧
    Demote exSecond1S [0, 1, 17] false ∧ prio exSecond2S 0 = some 18 ∧ exSecond2S.nextPriority = 19 := by
  decide +kernel

end ShuttleProofs.Pct
