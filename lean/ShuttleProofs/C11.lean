import ShuttleProofs.Lemmas.PctExamples
import ShuttleProofs.Lemmas.PctSample
import ShuttleProofs.Lemmas.PctPanic

/-!
# C11 — the PCT scheduler: priority invariant, highest-priority-runs, change points, step estimate, iteration count

Model: `ShuttleModel.Pct` (`ShuttleModel/Sched/Pct.lean`, line-by-line transcription of `shuttle-schedulers/src/pct.rs`,
validated against the real `PctScheduler` on 151 919 recorded `next_task` calls).

Spec-level definitions (in `ShuttleProofs/Lemmas/Pct*.lean`):
* `keys m`, `vals m` — the keys / values of the association list that models the `HashMap<TaskId, usize>`;
  `KeysOk m := keys m = List.range m.length`.
* `MInv m np` — keys are exactly `0..len-1`, values pairwise distinct, all values `< np`; `Inv s := MInv s.priorities s.nextPriority`.
* `prio s k := mapGet s.priorities k` — `self.priorities.get(&k)`.
* `Demote s runnable y := runnable.length > 1 ∧ (s.steps ∈ s.changePoints ∨ y = true)` — the guard of pct.rs:141-142.
* `NewTaskInserts m np m' np'` — `(m', np')` is reachable from `(m, np)` by a sequence of the two elementary updates of the
  new-task loop pct.rs:118-132 (`fresh`: the new task `len` gets `np`; `swap t old`: a known task `t ≥ 1` with priority `old` gets
  `np` and the new task `len` gets `old`; `np` is incremented each time).
* `rank` — Rust's order on `Option<&usize>` (`None < Some(_)`).
* `stepOk`, `execOk`, `ex0`, `exFirst`, `exSecond`, `exSecond1`, `exSecond2` — concrete states (computed by the model from
  `new_from_seed(42, 3, 10)`) for the non-vacuity examples.
-/

namespace ShuttleProofs.Pct
open ShuttleModel ShuttleModel.Pct

/-! ## `pct_inv` -/

/-- The invariant documented at pct.rs:25 (plus "every value is `< next_priority`") holds initially and is preserved by
    every scheduler entry point.  No hypothesis on the RNG: `Rng.shuffle` is PROVED to return a permutation
    (`shuffle_perm`, for every generator state). `nextTask … = .ok` already implies `runnable ≠ []`. -/
theorem pct_inv :
    (∀ seed maxDepth maxIterations, Inv (PctState.newFromSeed seed maxDepth maxIterations)) ∧
    (∀ s seed s', Inv s → newExecution s = .some seed s' → Inv s') ∧
    (∀ s runnable current isYielding c s', Inv s → nextTask s runnable current isYielding = .ok c s' → Inv s') ∧
    (∀ s, Inv s → Inv (nextU64 s).2) :=
  ⟨inv_newFromSeed, fun _ _ _ hI h => inv_newExecution hI h, fun _ _ _ _ _ _ hI h => inv_nextTask hI h,
   fun _ hI => inv_nextU64 hI⟩

/-- Non-vacuity: the hypotheses are satisfied by a state in the middle of the second execution (shuffled priorities, two
    tasks inserted by the new-task loop, one change-point demotion), and the invariant is then a non-trivial fact. -/
example : exSecond1 = some exSecond1S ∧ Inv exSecond1S ∧
    nextTask exSecond1S [0, 1, 17] (some 0) false = .ok 1 exSecond2S ∧ Inv exSecond2S ∧
    exSecond2S.priorities ≠ exSecond1S.priorities := by decide +kernel
example : exFirst = some exFirstS ∧ Inv exFirstS ∧ newExecution exFirstS = .some 10580897095847554459 exSecondS ∧
    Inv exSecondS ∧ exSecondS.priorities ≠ exFirstS.priorities := by decide +kernel

/-! ## `pct_runs_min_priority` -/

/-- `next_task` returns an offered task, and that task has the strictly smallest priority value (= highest priority)
    among all offered tasks, in the state the call leaves behind. -/
theorem pct_runs_min_priority {s s' : PctState} {runnable : List Nat} {current : Option Nat} {isYielding : Bool}
    {c : Nat} (hI : Inv s) (h : nextTask s runnable current isYielding = .ok c s') :
    c ∈ runnable ∧ ∃ vc, prio s' c = some vc ∧ ∀ t ∈ runnable, t ≠ c → ∃ vt, prio s' t = some vt ∧ vc < vt := by
  have hI' : Inv s' := inv_nextTask hI h
  obtain ⟨mx, mid, npMid, hmx, _, _, hlen, _, _, _, hlen', _, _, _, _, _, _, _, hk⟩ := nextTask_spec hI h
  obtain ⟨hmem, hmin⟩ := minByKey_spec hk
  obtain ⟨_, hle⟩ := listMax_spec hmx
  have known : ∀ t ∈ runnable, ∃ v, prio s' t = some v := fun t ht =>
    hI'.get_of_lt (by have := hle t ht; omega)
  obtain ⟨vc, hvc⟩ := known c hmem
  refine ⟨hmem, vc, hvc, ?_⟩
  intro t ht htc
  obtain ⟨vt, hvt⟩ := known t ht
  refine ⟨vt, hvt, ?_⟩
  have := hmin t ht
  unfold prio at hvc hvt
  rw [hvc, hvt] at this
  simp only [rank] at this
  have hne : vc ≠ vt := fun e => htc (hI'.get_inj hvt (e ▸ hvc))
  omega

example : exSecond1 = some exSecond1S ∧ Inv exSecond1S ∧
    nextTask exSecond1S [0, 1, 17] (some 0) false = .ok 1 exSecond2S ∧
    prio exSecond2S 1 = some 5 ∧ prio exSecond2S 0 = some 18 ∧ prio exSecond2S 17 = some 13 := by decide +kernel

/-! ## `pct_priority_changes_only` -/

/-- A `next_task` call changes `priorities` / `next_priority` only by
    (a) the new-task loop: a sequence `NewTaskInserts` of `fresh` / `swap` insertions of the previously unknown ids
        `len, len+1, …, max runnable`, leading to an intermediate map `mid` of length `max len (max runnable + 1)`, each
        insertion consuming one fresh priority; followed by
    (b) exactly when `Demote` holds (`runnable.len() > 1 && (change_points.contains(&steps) || is_yielding)`):
        `current`'s priority is set to the next fresh priority `npMid` (larger than every value in use).
    Consequences: every previously known task either keeps its priority value or moves to a fresh one
    (`≥ s.nextPriority`, i.e. lower priority than everything before the call) — priorities are never raised;
    if no new task is offered, every task other than a demoted `current` keeps its value;
    the relative order among tasks that were not moved to a fresh slot is unchanged. -/
theorem pct_priority_changes_only {s s' : PctState} {runnable : List Nat} {current : Option Nat} {isYielding : Bool}
    {c : Nat} (hI : Inv s) (h : nextTask s runnable current isYielding = .ok c s') :
    ∃ mx mid npMid,
      listMax runnable = some mx ∧
      NewTaskInserts s.priorities s.nextPriority mid npMid ∧
      mid.length = max s.priorities.length (mx + 1) ∧
      npMid = s.nextPriority + (mid.length - s.priorities.length) ∧
      (Demote s runnable isYielding → ∃ cur, current = some cur ∧ cur < mid.length ∧
        s'.priorities = mapInsert mid cur npMid ∧ s'.nextPriority = npMid + 1) ∧
      (¬ Demote s runnable isYielding → s'.priorities = mid ∧ s'.nextPriority = npMid) ∧
      (∀ k v, prio s k = some v → prio s' k = some v ∨ ∃ v', prio s' k = some v' ∧ s.nextPriority ≤ v') ∧
      (mx < s.priorities.length → ∀ k, (Demote s runnable isYielding → current ≠ some k) → prio s' k = prio s k) ∧
      (∀ j k vj vk vj' vk', prio s j = some vj → prio s k = some vk → prio s' j = some vj' → prio s' k = some vk' →
        vj' < s.nextPriority → vk' < s.nextPriority → (vj < vk ↔ vj' < vk')) := by
  obtain ⟨mx, mid, npMid, hmx, hins, hmid, hlen, hnp, hd, hnd, _⟩ := nextTask_spec hI h
  obtain ⟨hnple, _, _, hmono⟩ := hins.mono hI
  have P1 : ∀ k v, prio s k = some v → prio s' k = some v ∨ ∃ v', prio s' k = some v' ∧ s.nextPriority ≤ v' := by
    intro k v hk
    by_cases hdc : Demote s runnable isYielding
    · obtain ⟨cur, _, _, hp, _⟩ := hd hdc
      unfold prio; rw [hp, mapGet_mapInsert]
      by_cases hkc : k = cur
      · rw [if_pos hkc]; exact Or.inr ⟨npMid, rfl, hnple⟩
      · rw [if_neg hkc]; exact hmono k v hk
    · unfold prio; rw [(hnd hdc).1]; exact hmono k v hk
  refine ⟨mx, mid, npMid, hmx, hins, hlen, hnp, hd, hnd, P1, ?_, ?_⟩
  · intro hno k hk
    have hl : mid.length = s.priorities.length := by omega
    obtain ⟨e1, e2⟩ := hins.eq_of_length hI hl
    by_cases hdc : Demote s runnable isYielding
    · obtain ⟨cur, hcur, _, hp, _⟩ := hd hdc
      unfold prio; rw [hp, mapGet_mapInsert, e1]
      have : k ≠ cur := fun e => hk hdc (e ▸ hcur)
      rw [if_neg this]
    · unfold prio; rw [(hnd hdc).1, e1]
  · intro j k vj vk vj' vk' hj hk hj' hk' hlj hlk
    have ej : vj' = vj := by
      rcases P1 j vj hj with h1 | ⟨v', h1, h2⟩
      · rw [hj'] at h1; exact Option.some.inj h1
      · rw [hj'] at h1; cases h1; omega
    have ek : vk' = vk := by
      rcases P1 k vk hk with h1 | ⟨v', h1, h2⟩
      · rw [hk'] at h1; exact Option.some.inj h1
      · rw [hk'] at h1; cases h1; omega
    rw [ej, ek]

/-- Non-vacuity: a call that inserts two new tasks (16 by swapping with task 9, 17 by swapping with task 6), without
    demotion; and the next call, which demotes `current = 0` at the change point `steps = 1`. -/
example : exSecond = some exSecondS ∧ Inv exSecondS ∧
    nextTask exSecondS [0, 1, 17] (some 0) false = .ok 1 exSecond1S ∧
    ¬ Demote exSecondS [0, 1, 17] false ∧ exSecondS.priorities.length = 16 ∧ exSecond1S.priorities.length = 18 ∧
    prio exSecondS 9 = some 6 ∧ prio exSecond1S 9 = some 16 ∧ prio exSecond1S 16 = some 6 ∧
    prio exSecondS 6 = some 13 ∧ prio exSecond1S 6 = some 17 ∧ prio exSecond1S 17 = some 13 ∧
    prio exSecond1S 0 = prio exSecondS 0 := by decide +kernel
example : exSecond1 = some exSecond1S ∧ Inv exSecond1S ∧
    nextTask exSecond1S [0, 1, 17] (some 0) false = .ok 1 exSecond2S ∧
    Demote exSecond1S [0, 1, 17] false ∧ prio exSecond1S 0 = some 9 ∧ prio exSecond2S 0 = some 18 ∧
    prio exSecond2S 1 = prio exSecond1S 1 := by decide +kernel

/-! ## `pct_demotes_only_current` -/

/-- When the demotion guard holds, the demoted task is `current`, and after the call it is the lowest-priority task:
    its value `next_priority - 1` is strictly larger than the value of every other task, and than every value that was in
    use before the call. -/
theorem pct_demotes_only_current {s s' : PctState} {runnable : List Nat} {current : Option Nat} {isYielding : Bool}
    {c : Nat} (hI : Inv s) (h : nextTask s runnable current isYielding = .ok c s')
    (hd : Demote s runnable isYielding) :
    ∃ cur, current = some cur ∧ prio s' cur = some (s'.nextPriority - 1) ∧
      (∀ k v, k ≠ cur → prio s' k = some v → v < s'.nextPriority - 1) ∧
      (∀ k v, prio s k = some v → v < s'.nextPriority - 1) := by
  have hI' : Inv s' := inv_nextTask hI h
  obtain ⟨mx, mid, npMid, _, hins, _, _, _, hdem, _, _⟩ := nextTask_spec hI h
  obtain ⟨hnple, _, _, _⟩ := hins.mono hI
  obtain ⟨cur, hcur, _, hp, hnp⟩ := hdem hd
  have hc : prio s' cur = some (s'.nextPriority - 1) := by
    unfold prio; rw [hp, mapGet_mapInsert, if_pos rfl, hnp]; simp
  refine ⟨cur, hcur, hc, ?_, ?_⟩
  · intro k v hk hv
    have h1 := hI'.get_lt hv
    have : v ≠ s'.nextPriority - 1 := fun e => hk (hI'.get_inj hv (e ▸ hc))
    omega
  · intro k v hv
    have := hI.get_lt hv
    omega

example : exSecond1 = some exSecond1S ∧ Inv exSecond1S ∧
    nextTask exSecond1S [0, 1, 17] (some 0) false = .ok 1 exSecond2S ∧
    Demote exSecond1S [0, 1, 17] false ∧ prio exSecond2S 0 = some 18 ∧ exSecond2S.nextPriority = 19 := by
  decide +kernel

/-! ## `pct_change_points` -/

/-- After `new_execution` on iteration ≥ 2: exactly `min (max_depth - 1) (max_steps - 1)` change points, pairwise distinct,
    all in `[1, max_steps)` (pct.rs:100-101 says `[1, max_steps]`; the sampled range is `[0, max_steps - 1)` shifted by one, and
    `steps` indeed only takes the values `0 … max_steps - 1` when the guard is evaluated).
    EXPLICIT HYPOTHESIS `hloops : SampleLoopsInRange` (the integer rejection loops return `low + hi` with `hi < range`;
    see `ShuttleProofs/Lemmas/PctSample.lean` for why it is not proved). Given it, all four `index::sample` algorithms
    (Floyd, in-place, rejection u32/usize) are proved to return `amount` distinct indices below `length`. -/
theorem pct_change_points (hloops : SampleLoopsInRange) {s s' : PctState} {seed : Nat} (hI : Inv s)
    (hit : s.iterations > 0) (h : newExecution s = .some seed s') :
    0 < s.maxSteps ∧
    s'.changePoints.length = min (s.maxDepth - 1) (s.maxSteps - 1) ∧ s'.changePoints.Nodup ∧
    ∀ c ∈ s'.changePoints, 1 ≤ c ∧ c < s.maxSteps := by
  obtain ⟨_, _, _, _, _, _, _, _, hp⟩ := newExecution_some hI h
  obtain ⟨hms, prios, g, cps, _, _, _, _, _, hix, hcp⟩ := hp hit
  obtain ⟨hl, hn, hb⟩ := indexSample_spec hloops hix
  refine ⟨hms, by rw [hcp]; simpa using hl, ?_, ?_⟩
  · rw [hcp]; unfold List.Nodup; rw [List.pairwise_map]
    exact List.Pairwise.imp (fun hab => by omega) hn
  · intro c hc
    rw [hcp] at hc
    obtain ⟨c', hc', rfl⟩ := List.mem_map.1 hc
    have := hb c' hc'; omega

example : exFirst = some exFirstS ∧ Inv exFirstS ∧ exFirstS.iterations > 0 ∧
    newExecution exFirstS = .some 10580897095847554459 exSecondS ∧ exSecondS.changePoints = [2, 1] ∧
    exFirstS.maxDepth = 3 ∧ exFirstS.maxSteps = 3 := by decide +kernel

/-! ## `pct_at_most_d_minus_1_change_preemptions` -/

/-- Within one execution (`new_execution`, then any sequence `cs` of `next_task` / `next_u64` calls that does not panic)
    the multi-choice decisions see `steps = 0, 1, 2, …` (`multiSteps`, each value exactly once), so every change point is
    matched by at most one decision, and the number of decisions at which the change-point guard `steps ∈ change_points`
    fires is at most `change_points.len()`, hence at most `max_depth - 1`.  (Demotions caused by `is_yielding` are not
    bounded.)  The bound `change_points.len() ≤ max_depth - 1` is re-established for the next execution.
    The hypothesis `hcp` holds initially (`change_points = []`) and is an output of this theorem. -/
theorem pct_at_most_d_minus_1_change_preemptions (hloops : SampleLoopsInRange) {s0 s1 s2 : PctState} {seed : Nat}
    {cs : List Call} (hI : Inv s0) (hcp : s0.changePoints.length ≤ s0.maxDepth - 1)
    (hex : newExecution s0 = .some seed s1) (hne : NoExec cs) (hrun : runCalls s1 cs = some s2) :
    multiSteps s1 cs = List.range' 0 (multiCount cs) ∧
    ((multiSteps s1 cs).filter (· ∈ s1.changePoints)).length ≤ s1.changePoints.length ∧
    s1.changePoints.length ≤ s1.maxDepth - 1 ∧
    s2.changePoints = s1.changePoints ∧ s2.maxDepth = s1.maxDepth := by
  obtain ⟨_, _, a2, _, a4, _, _, hz, hp⟩ := newExecution_some hI hex
  have hI1 := inv_newExecution hI hex
  obtain ⟨_, _, b2, _, b4, _, _, b7⟩ := runCalls_noExec cs s1 s2 hI1 (by omega) hne hrun
  rw [a4] at b7
  have hlen : s1.changePoints.length ≤ s1.maxDepth - 1 := by
    by_cases hit : s0.iterations > 0
    · have := (pct_change_points hloops hI hit hex).2.1
      rw [this, a2]; omega
    · obtain ⟨_, _, e3, _⟩ := hz (by omega)
      rw [e3, a2]; exact hcp
  refine ⟨b7, ?_, hlen, b4, b2⟩
  apply List.Nodup.length_le_of_subset
  · rw [b7]; exact List.Nodup.sublist List.filter_sublist (List.nodup_range' (step := 1))
  · intro x hx
    simpa using (List.mem_filter.1 hx).2

example : exFirst = some exFirstS ∧ Inv exFirstS ∧ exFirstS.changePoints.length ≤ exFirstS.maxDepth - 1 ∧
    newExecution exFirstS = .some 10580897095847554459 exSecondS ∧ NoExec exBody2 ∧
    runCalls exSecondS exBody2 = some exSecond2S ∧ multiSteps exSecondS exBody2 = [0, 1] ∧
    (multiSteps exSecondS exBody2).filter (· ∈ exSecondS.changePoints) = [1] := by decide +kernel

/-! ## `pct_k_estimate` -/

/-- `max_steps` never decreases, and after any number of whole executions (from a fresh scheduler) it equals the maximum,
    over the executions so far, of the number of multi-choice decisions (`multiCount`) of the execution. -/
theorem pct_k_estimate :
    (∀ s s' c, Inv s → s.steps ≤ s.maxSteps → applyCall s c = some s' →
      s.maxSteps ≤ s'.maxSteps ∧ s'.steps ≤ s'.maxSteps) ∧
    (∀ seed maxDepth maxIterations es s', (∀ e ∈ es, NoExec e) →
      runExecs (PctState.newFromSeed seed maxDepth maxIterations) es = some s' →
      s'.maxSteps = (es.map multiCount).foldl max 0) := by
  refine ⟨?_, ?_⟩
  · intro s s' c hI hsm h
    by_cases hc : c.isExec = true
    · cases c with
      | exec =>
        obtain ⟨seed, hex⟩ := applyCall_exec h
        obtain ⟨_, _, _, _, a4, a5, _⟩ := newExecution_some hI hex
        omega
      | task r cur y => simp [Call.isExec] at hc
      | u64 => simp [Call.isExec] at hc
    · obtain ⟨_, _, _, _, _, a5, a6⟩ := applyCall_noExec hI (by simpa using hc) h
      rw [a5, a6]; split <;> omega
  · intro seed d N es s' hne h
    exact (runExecs_spec es _ s' (inv_newFromSeed seed d N) (Nat.zero_le _) hne h).2.2.2.2.2

example : (∀ e ∈ [exBody1, exBody2], NoExec e) ∧
    (runExecs (PctState.newFromSeed 42 3 10) [exBody1, exBody2]).map (fun s => (s.maxSteps, s.iterations)) = some (3, 2) ∧
    [exBody1, exBody2].map multiCount = [3, 2] := by decide +kernel

/-! ## `pct_iterations_exact` -/

/-- `new_execution` returns `None` exactly when `iterations ≥ max_iterations`; after `k` whole executions from a fresh
    scheduler `iterations = k ≤ max_iterations`; so (absent panics) `new_execution` returns `Some` exactly
    `max_iterations` times and then `None`. -/
theorem pct_iterations_exact :
    (∀ s, newExecution s = .none ↔ s.iterations ≥ s.maxIterations) ∧
    (∀ seed maxDepth maxIterations es s', (∀ e ∈ es, NoExec e) →
      runExecs (PctState.newFromSeed seed maxDepth maxIterations) es = some s' →
      s'.iterations = es.length ∧ s'.maxIterations = maxIterations ∧ es.length ≤ maxIterations ∧
      (newExecution s' = .none ↔ es.length = maxIterations)) := by
  have key : ∀ s, newExecution s = .none ↔ s.iterations ≥ s.maxIterations := by
    intro s
    constructor
    · intro h
      by_cases hit : s.iterations ≥ s.maxIterations
      · exact hit
      · exfalso
        unfold newExecution at h
        simp only [hit, if_false] at h
        split at h
        · split at h
          · cases h
          · split at h
            · cases h
            · split at h
              · cases h
              · split at h <;> cases h
        · cases h
    · intro h; unfold newExecution; simp [h]
  refine ⟨key, ?_⟩
  intro seed d N es s' hne h
  obtain ⟨_, a1, _, a3, a4, _⟩ := runExecs_spec es _ s' (inv_newFromSeed seed d N) (Nat.zero_le _) hne h
  have e1 : s'.iterations = es.length := by rw [a3]; simp [PctState.newFromSeed]
  have e2 : s'.maxIterations = N := by rw [a1]; rfl
  refine ⟨e1, e2, by omega, ?_⟩
  rw [key]; omega

example : runExecs (PctState.newFromSeed 42 3 2) [exBody1, exBody2] ≠ none ∧
    (∀ s', runExecs (PctState.newFromSeed 42 3 2) [exBody1, exBody2] = some s' → newExecution s' = .none) ∧
    runExecs (PctState.newFromSeed 42 3 2) [exBody1, exBody2, []] = none := by
  refine ⟨by decide +kernel, ?_, by decide +kernel⟩
  intro s' h
  exact ((pct_iterations_exact.2 42 3 2 _ s' (by decide) h).2.2.2).2 rfl

/-! ## `pct_no_concurrency_panics` -/

/-- The deliberate diagnostic of pct.rs:79: starting the second (or a later) execution when no execution so far contained a
    multi-choice decision panics with "test closure did not exercise any concurrency". -/
theorem pct_no_concurrency_panics {s : PctState} (hlt : s.iterations < s.maxIterations) (hit : s.iterations > 0)
    (hms : s.maxSteps = 0) :
    newExecution s = .panic "test closure did not exercise any concurrency" := by
  unfold newExecution
  have h1 : ¬ s.iterations ≥ s.maxIterations := by omega
  simp [h1, hit, hms]

example : exNoConc.iterations < exNoConc.maxIterations ∧ exNoConc.iterations > 0 ∧ exNoConc.maxSteps = 0 ∧
    Inv exNoConc ∧ newExecution exNoConc = .panic "test closure did not exercise any concurrency" := by
  decide +kernel

/-! ## `pct_next_task_no_invariant_panic` (extra) -/

/-- Under the invariant — with at least one known task (there are always `DEFAULT_INLINE_TASKS = 16`), a non-empty offer
    and, when the demotion guard holds, a `current` that is known or not larger than some offered id — none of the
    `unwrap()` / `expect("priority queue invariant")` / `expect("self.steps > 0 …")` / `debug_assert!` sites of
    `next_task` is reachable: the model returns `.ok`, or reports that the RNG model ran out of rejection-loop fuel.
    So on these inputs debug and release builds agree.  Uses the explicit hypothesis `SampleLoopsInRange`
    (for `gen_range(0..len) < len`). -/
theorem pct_next_task_no_invariant_panic (hloops : SampleLoopsInRange) {s : PctState} {runnable : List Nat}
    {current : Option Nat} {isYielding : Bool} (hI : Inv s) (hlen : 0 < s.priorities.length) (hr : runnable ≠ [])
    (hcur : Demote s runnable isYielding → ∃ cur, current = some cur ∧
      (cur < s.priorities.length ∨ ∃ t ∈ runnable, cur ≤ t)) :
    (∃ c s', nextTask s runnable current isYielding = .ok c s') ∨
    nextTask s runnable current isYielding = .panic "model: rng (gen_range)" :=
  nextTask_total hloops hI hlen hr hcur

example : Inv exSecond1S ∧ 0 < exSecond1S.priorities.length ∧ [0, 1, 17] ≠ [] ∧ Demote exSecond1S [0, 1, 17] false ∧
    (∃ cur, some 0 = some cur ∧ (cur < exSecond1S.priorities.length ∨ ∃ t ∈ [0, 1, 17], cur ≤ t)) :=
  ⟨by decide +kernel, by decide +kernel, by decide, by decide +kernel, 0, rfl, Or.inr ⟨0, by decide, Nat.le_refl _⟩⟩

/-! ## Probability

NOT formalised: the PCT guarantee (a bug of depth `d` is found with probability at least `1/(n·k^(d-1))`) would need a
probability space over the generator outputs and the paper's reduction argument.  What the theorems above provide are
its deterministic ingredients: the initial priorities are a permutation of `0..n-1` produced by `SliceRandom::shuffle`
(`pct_inv` / `shuffle_perm`), the `d-1` change points are distinct values in `[1, k)` (`pct_change_points`), each of them
is hit by at most one scheduling decision (`pct_at_most_d_minus_1_change_preemptions`), the task run is always the
highest-priority offered one (`pct_runs_min_priority`) and a change point moves `current` below every other task
(`pct_demotes_only_current`). -/

end ShuttleProofs.Pct
