import ShuttleProofs.Lemmas.KernelExamples

/-!
# C13 — step bounds (`MaxSteps::FailAfter(n)` / `MaxSteps::ContinueAfter(n)`)

Model: `ShuttleModel/Kernel.lean`; vocabulary as in `ShuttleProofs/C08.lean`.  `boundOf ms = some n` means
`ms = .failAfter n ∨ ms = .continueAfter n`.  The bound compares `CurrentSchedule::len() - steps_reset_at`
(`k.schedLen - k.stepsResetAt`) with `n` **only inside `schedule()`**.

The informal property "an execution never performs more than `n` steps, random draws included" is **false** in
the code (and in the model): `ExecutionState::next_u64` pushes a `.random` step without looking at the bound.
`steps_overshoot_witness` exhibits it; `steps_total_bound_partial` is the exact true statement.
-/

namespace ShuttleProofs.C13
open ShuttleModel ShuttleProofs.Kernel

variable {P : Program} {σ : Type}

/-- **no_decision_beyond_bound**: whenever the scheduler is consulted, fewer than `n` steps have been recorded
since the last `reset_step_count`. -/
theorem no_decision_beyond_bound {S : Scheduler σ} {segFuel : Nat} {ms : MaxSteps} {n : Nat}
    {st0 st : ExecState P σ} {ev : Ev} (h0 : LoopInv ms st0) (hb : boundOf ms = some n)
    (h : Decision S segFuel st0 st ev) : st.k.schedLen - st.k.stepsResetAt < n :=
  h.consults.bound.lt (by rw [(h.inv h0).maxSteps]; exact hb)

/-- the same for the executions of `execute` -/
theorem no_decision_beyond_bound_exec (P : Program) (S : Scheduler σ) (ms : MaxSteps) (n : Nat)
    (hb : boundOf ms = some n) (seed : Nat) (s : σ) (fuel segFuel : Nat)
    (off : List Nat) (cur : Option Nat) (y : Bool) (ch : Option Nat)
    (h : .dec off cur y ch ∈ (execute P S ms seed s fuel segFuel).st.log.toList) :
    ∃ st, Decision S segFuel (initState P ms seed s) st (.dec off cur y ch) ∧
      st.k.schedLen - st.k.stepsResetAt < n := by
  rw [execute_eq] at h
  rcases runLoop_dec_origin S segFuel fuel ms _ (LoopInv.init P ms seed s) _ h rfl with h | ⟨st, h⟩
  · simp [initState] at h
  · exact ⟨st, h, no_decision_beyond_bound (LoopInv.init P ms seed s) hb h⟩

/-- **fail_after_outcome** (iteration form, `FailAfter`): if `schedule()` is entered with the bound reached,
the loop ends at once with `stepBoundFail n`: no consultation, no further segment, log and schedule unchanged. -/
theorem fail_after_iter {ms : MaxSteps} (S : Scheduler σ) (segFuel : Nat) {st : ExecState P σ} {n : Nat}
    (hi : LoopInv ms st) (hm : ms = .failAfter n) (he : n ≤ st.k.schedLen - st.k.stepsResetAt) :
    ∃ st', loopStep S segFuel st = .inl ⟨.stepBoundFail n, st'⟩ ∧ st'.log = st.log ∧
      st'.k.schedRev = st.k.schedRev ∧ st'.k.tasks = st.k.tasks :=
  ⟨_, loopStep_boundFail S segFuel hi.next hi.conts (by rw [hi.maxSteps, hm])
    (by simpa [Kernel.stepBoundExceeded] using he), rfl, rfl, rfl⟩

/-- **fail_after_outcome** (iteration form, `ContinueAfter`): same, with the silent outcome `abandoned`. -/
theorem continue_after_iter {ms : MaxSteps} (S : Scheduler σ) (segFuel : Nat) {st : ExecState P σ} {n : Nat}
    (hi : LoopInv ms st) (hm : ms = .continueAfter n) (he : n ≤ st.k.schedLen - st.k.stepsResetAt) :
    ∃ st', loopStep S segFuel st = .inl ⟨.abandoned, st'⟩ ∧ st'.log = st.log ∧
      st'.k.schedRev = st.k.schedRev ∧ st'.k.tasks = st.k.tasks ∧ st'.k.current = .stopped :=
  ⟨_, loopStep_boundStop S segFuel hi.next hi.conts (by rw [hi.maxSteps, hm])
    (by simpa [Kernel.stepBoundExceeded] using he), rfl, rfl, rfl, rfl⟩

/-- **fail_after_outcome** (execution form): the outcome `stepBoundFail m` arises only under `FailAfter m`,
only with the bound reached in the final state; `abandoned` only under `ContinueAfter m`, likewise.  (The final
state's schedule and `steps_reset_at` are those `schedule()` saw.) -/
theorem bound_outcomes (P : Program) (S : Scheduler σ) (ms : MaxSteps) (seed : Nat) (s : σ)
    (fuel segFuel : Nat) :
    let r := execute P S ms seed s fuel segFuel
    (∀ m, r.outcome = .stepBoundFail m → ms = .failAfter m ∧ m ≤ r.st.k.schedLen - r.st.k.stepsResetAt) ∧
    (r.outcome = .abandoned → ∃ m, ms = .continueAfter m ∧ m ≤ r.st.k.schedLen - r.st.k.stepsResetAt) := by
  obtain ⟨stf, _, hi, hf⟩ := execute_final P S ms seed s fuel segFuel
  generalize execute P S ms seed s fuel segFuel = r at hf
  cases hf with
  | boundFail n h1 h2 =>
    refine ⟨?_, fun h => (by cases h)⟩
    intro m hm
    cases hm
    have h3 : n ≤ stf.k.schedLen - stf.k.stepsResetAt := by simpa [Kernel.stepBoundExceeded] using h2
    exact ⟨hi.maxSteps.symm.trans h1, h3⟩
  | boundStop n h1 h2 =>
    have h3 : n ≤ stf.k.schedLen - stf.k.stepsResetAt := by simpa [Kernel.stepBoundExceeded] using h2
    exact ⟨fun m h => (by cases h), fun _ => ⟨n, hi.maxSteps.symm.trans h1, h3⟩⟩
  | seg t s' p r h1 h2 h3 h4 h5 =>
    obtain ⟨_, ho, _⟩ := finishSeg_inl h5
    refine ⟨?_, ?_⟩
    · intro m hm
      rw [hm] at ho
      rcases ho with ho | ⟨_, ho⟩ | ⟨_, ho, _⟩ | ⟨_, ho⟩ <;> cases ho
    · intro hm
      rw [hm] at ho
      rcases ho with ho | ⟨_, ho⟩ | ⟨_, ho, _⟩ | ⟨_, ho⟩ <;> cases ho
  | _ => exact ⟨fun m h => (by cases h), fun h => (by cases h)⟩

/-- **fail_after_outcome**, converse: if a loop head with the bound reached is reached after `m` iterations,
every run with more than `m` units of loop fuel ends there with `stepBoundFail n` (resp. `abandoned`). -/
theorem bound_hit_ends (P : Program) (S : Scheduler σ) (ms : MaxSteps) (n : Nat) (hb : boundOf ms = some n)
    (seed : Nat) (s : σ) (segFuel m : Nat) (st : ExecState P σ)
    (hr : ReachN S segFuel m (initState P ms seed s) st) (he : n ≤ st.k.schedLen - st.k.stepsResetAt)
    (fuel : Nat) (hfuel : m < fuel) :
    (execute P S ms seed s fuel segFuel).outcome = (match ms with | .failAfter _ => .stepBoundFail n | _ => .abandoned) ∧
      (execute P S ms seed s fuel segFuel).st.log = st.log := by
  have hi : LoopInv ms st := (LoopInv.init P ms seed s).reach ⟨m, hr⟩
  rw [execute_eq]
  cases ms with
  | none => cases hb
  | failAfter n' =>
    simp only [boundOf, Option.some.injEq] at hb; subst hb
    obtain ⟨st', h1, h2, _⟩ := fail_after_iter S segFuel hi rfl he
    rw [runLoop_of_reach hr h1 fuel hfuel]
    exact ⟨rfl, h2⟩
  | continueAfter n' =>
    simp only [boundOf, Option.some.injEq] at hb; subst hb
    obtain ⟨st', h1, h2, _⟩ := continue_after_iter S segFuel hi rfl he
    rw [runLoop_of_reach hr h1 fuel hfuel]
    exact ⟨rfl, h2⟩

/-- **below_bound_unaffected**, kernel form: when the bound is not reached, `schedule()` under
`FailAfter n`/`ContinueAfter n` answers exactly as it does with `MaxSteps::None` (same scheduler call, same
answer, same kernel up to the configuration field). -/
theorem schedule_below_bound (S : Scheduler σ) (ms : MaxSteps) (n : Nat) (hb : boundOf ms = some n)
    (k : Kernel) (s : σ) (hk : k.maxSteps = .none) (hlt : k.schedLen - k.stepsResetAt < n) :
    (withMS ms k).schedule S s = stepMS ms (k.schedule S s) := by
  apply schedule_withMS S ms k s hk
  intro n' hn'
  rw [hb] at hn'
  cases hn'
  simp only [Kernel.stepBoundExceeded, decide_eq_false_iff_not, Nat.not_le]
  exact hlt

/-- **below_bound_unaffected**: if every loop head of the execution *without* a bound stays below `n` recorded
steps (since the last reset), then the execution under `FailAfter n` / `ContinueAfter n` — same program,
scheduler, seed, fuel — is the same execution: same outcome, same log, same final state up to the `maxSteps`
configuration field (in particular the same recorded schedule). -/
theorem below_bound_unaffected (P : Program) (S : Scheduler σ) (ms : MaxSteps) (n : Nat)
    (hb : boundOf ms = some n) (seed : Nat) (s : σ) (fuel segFuel : Nat)
    (hbelow : ∀ st, Reach S segFuel (initState P .none seed s) st → st.k.schedLen - st.k.stepsResetAt < n) :
    (execute P S ms seed s fuel segFuel).outcome = (execute P S .none seed s fuel segFuel).outcome ∧
    (execute P S ms seed s fuel segFuel).st.log = (execute P S .none seed s fuel segFuel).st.log ∧
    (execute P S ms seed s fuel segFuel).st.k.schedule_ = (execute P S .none seed s fuel segFuel).st.k.schedule_ ∧
    (execute P S ms seed s fuel segFuel).st = stMS ms (execute P S .none seed s fuel segFuel).st := by
  have h0 : initState P ms seed s = stMS ms (initState P .none seed s) := rfl
  have key : execute P S ms seed s fuel segFuel = resMS ms (execute P S .none seed s fuel segFuel) := by
    rw [execute_eq, execute_eq, h0]
    apply runLoop_stMS S segFuel ms fuel _ (LoopInv.init P .none seed s)
    intro st' hr n' hn'
    rw [hb] at hn'
    cases hn'
    simp only [Kernel.stepBoundExceeded, decide_eq_false_iff_not, Nat.not_le]
    exact hbelow st' hr
  rw [key]
  exact ⟨rfl, rfl, rfl, rfl⟩

/-- **steps_total_bound_partial** — the exact statement that is true.  For every iteration that continues
(`a` → `b`): the consultation in `a` happened strictly below the bound, and the recorded schedule of `b` is
that of `a` plus the chosen `.task t` plus **only `.random` steps** (those pushed by `next_u64` inside the
segment, which never checks the bound).  So the recorded length minus `steps_reset_at` can exceed `n` only by
`.random` steps of one segment.  (FALSE as literally stated: "never more than `n` steps, draws included" —
see `steps_overshoot_witness`.) -/
theorem steps_total_bound_partial {S : Scheduler σ} {segFuel : Nat} {ms : MaxSteps} {n : Nat}
    {a b : ExecState P σ} (hi : LoopInv ms a) (hb : boundOf ms = some n) (h : loopStep S segFuel a = .inr b) :
    a.k.schedLen - a.k.stepsResetAt < n ∧
      ∃ t rs, b.k.schedule_ = a.k.schedule_ ++ .task t :: rs ∧ ∀ x ∈ rs, x = .random := by
  obtain ⟨hbd, t, rs, hs, hr, _⟩ := iter_schedule_growth hi h
  refine ⟨hbd.lt (by rw [hi.maxSteps]; exact hb), t, rs.reverse, ?_, ?_⟩
  · simp [Kernel.schedule_, hs]
  · intro x hx; exact hr x (List.mem_reverse.mp hx)

/-- **steps_overshoot_witness**: ten `next_u64` in a row under `FailAfter 5`: the run fails with
`stepBoundFail 5` only at the *next* `schedule()`, with 11 recorded steps. -/
theorem steps_overshoot_witness :
    (execute exRand10 firstSched (.failAfter 5) 0 () 20 20).outcome = .stepBoundFail 5 ∧
    (execute exRand10 firstSched (.failAfter 5) 0 () 20 20).st.k.schedule_.length = 11 ∧
    (execute exRand10 firstSched (.failAfter 5) 0 () 20 20).st.k.stepsResetAt = 0 := by decide

/-- **terminates_under_bound**: under a bound `n`, a program that never calls `reset_step_count` (neither in
its task bodies nor while unwinding) consults the scheduler at most `n` times in any execution … -/
theorem terminates_under_bound (P : Program) (hP : NoReset P) (S : Scheduler σ) (ms : MaxSteps) (n : Nat)
    (hb : boundOf ms = some n) (seed : Nat) (s : σ) (fuel segFuel : Nat) :
    decCount (execute P S ms seed s fuel segFuel).st.log.toList ≤ n := by
  obtain ⟨stf, hr, hi, hf⟩ := execute_final P S ms seed s fuel segFuel
  have : LoopInv ms stf ∧ BoundInv n stf :=
    hr.invariant (fun st => LoopInv ms st ∧ BoundInv n st)
      (fun a b ⟨h1, h2⟩ hs => ⟨h1.step hs, h2.step hP hb h1 hs⟩)
      ⟨LoopInv.init P ms seed s, BoundInv.init hP ms seed s n⟩
  exact this.2.final hb hi hf

/-- … so the recorded schedule contains at most `n` `.task` steps (its `.random` steps are not bounded, see
`steps_overshoot_witness`) … -/
theorem task_steps_le_bound (P : Program) (hP : NoReset P) (S : Scheduler σ) (ms : MaxSteps) (n : Nat)
    (hb : boundOf ms = some n) (seed : Nat) (s : σ) (fuel segFuel : Nat) :
    taskCount (execute P S ms seed s fuel segFuel).st.k.schedule_ ≤ n := by
  have h1 := terminates_under_bound P hP S ms n hb seed s fuel segFuel
  have h2 := taskCount_logSteps_le (execute P S ms seed s fuel segFuel).st.log.toList
  obtain ⟨stf, _, hi, hf⟩ := execute_final P S ms seed s fuel segFuel
  rcases hf.record hi with h | ⟨_, _, h⟩
  · rw [h]; omega
  · rw [h, taskCount_append]
    have : taskCount [SStep.random] = 0 := rfl
    omega

/-- … hence the loop performs at most `n` continuing iterations, and `n + 1` units of loop fuel always suffice:
the result is produced by a terminal iteration (`outOfFuel` can then only come from the segment fuel). -/
theorem terminates_under_bound_iterations (P : Program) (hP : NoReset P) (S : Scheduler σ) (ms : MaxSteps)
    (n : Nat) (hb : boundOf ms = some n) (seed : Nat) (s : σ) (segFuel : Nat) :
    (∀ m st, ReachN S segFuel m (initState P ms seed s) st → m ≤ n) ∧
    ∀ fuel, n < fuel → ∃ stf, Reach S segFuel (initState P ms seed s) stf ∧
      loopStep S segFuel stf = .inl (execute P S ms seed s fuel segFuel) := by
  have hcount : ∀ m st, ReachN S segFuel m (initState P ms seed s) st → m ≤ n := by
    intro m st hr
    have h1 := hr.decCount (LoopInv.init P ms seed s)
    have : LoopInv ms st ∧ BoundInv n st :=
      hr.invariant (fun st => LoopInv ms st ∧ BoundInv n st)
        (fun a b ⟨h1, h2⟩ hs => ⟨h1.step hs, h2.step hP hb h1 hs⟩)
        ⟨LoopInv.init P ms seed s, BoundInv.init hP ms seed s n⟩
    have h2 := this.2.decs
    rw [h1] at h2
    omega
  refine ⟨hcount, ?_⟩
  intro fuel hfuel
  rw [execute_eq]
  obtain ⟨m, stf, hr, hc⟩ := runLoop_reach S segFuel fuel (initState P ms seed s)
  rcases hc with ⟨h1, _⟩ | ⟨_, h2⟩
  · have := hcount m stf hr
    omega
  · exact ⟨stf, ⟨m, hr⟩, h2⟩

/-! ### non-vacuity -/

/-- a spin loop of 10 switches under a bound of 5: exactly 5 consultations, then the verdict -/
example :
    (execute (exSpin 10) firstSched (.failAfter 5) 0 () 20 20).outcome = .stepBoundFail 5 ∧
    decCount (execute (exSpin 10) firstSched (.failAfter 5) 0 () 20 20).st.log.toList = 5 ∧
    (execute (exSpin 10) firstSched (.continueAfter 5) 0 () 20 20).outcome = .abandoned ∧
    (execute (exSpin 3) firstSched (.failAfter 5) 0 () 20 20).outcome = .ok := by decide

example : NoReset (exSpin 10) := by
  have hs : ∀ n, Never (P := exSpin 10) isReset (spin n) := by
    intro n
    induction n with
    | zero => exact Never.pure
    | succ n ih => exact Never.op _ _ rfl (fun _ => ih)
  exact ⟨fun _ => hs 10, fun _ => Never.pure⟩

/-- three switches under a bound of 5: same outcome and log as without a bound -/
example :
    (execute (exSpin 3) firstSched (.failAfter 5) 0 () 20 20).outcome =
      (execute (exSpin 3) firstSched .none 0 () 20 20).outcome ∧
    (execute (exSpin 3) firstSched (.failAfter 5) 0 () 20 20).st.log.toList =
      (execute (exSpin 3) firstSched .none 0 () 20 20).st.log.toList ∧
    (execute (exSpin 3) firstSched .none 0 () 20 20).st.k.schedLen = 4 := by decide

example : boundOf (.failAfter 5) = some 5 ∧ boundOf (.continueAfter 5) = some 5 := ⟨rfl, rfl⟩

end ShuttleProofs.C13
