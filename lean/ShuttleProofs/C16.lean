/-
  C16 — the schedule wire format (`shuttle-engine/src/scheduler/serialization.rs`) round-trips and
  rejects malformed input.  Model: `ShuttleModel/{Bits,Varint,Serialize}.lean` (decoder = the FIXED
  Rust behaviour: every former panic is a `None`).  Helper lemmas: `ShuttleProofs/Lemmas/Serialize*.lean`.

  All theorems hold for ALL inputs (no bound on sizes).  `Schedule.wf` = representable in Rust
  (`seed : u64`, ids `: usize`, `steps.len() : usize`, 64-bit platform).
-/
import ShuttleProofs.Lemmas.SerializeMain

namespace ShuttleModel.C16
open ShuttleModel

/-- ids 0, 1, 255, 256, 2^63 and `Random` steps, seed ≥ 2^63 (ten-byte varint, width 64, three lines). -/
def ex1 : Schedule :=
  ⟨12345678901234567890, [.task 0, .task 1, .random, .task 255, .task 256, .random, .random, .task (2 ^ 63)]⟩
/-- empty schedule. -/
def ex0 : Schedule := ⟨0, []⟩
/-- only task steps (bit buffer exactly filled). -/
def ex2 : Schedule := ⟨300, [.task 5, .task 0, .task 7]⟩
/-- three unused trailing zero bytes (`Random` steps occupy 1 bit but are allotted `1 + width`). -/
def ex3 : Schedule := ⟨7, [.random, .random, .task 200, .random]⟩

example : ex1.wf := by decide
example : ex0.wf := by decide
/-- The model output for `ex1` is, character for character, what the Rust `serialize_schedule` prints. -/
example : serializeSchedule ex1 =
    "914008d295fcd8ceb1aaaaab0100000000000000000400000000000000f40f00000000000000\n2000000000000060000000000000008000000000000000000000000000000000000000000000\n0000" := by
  decide +kernel
example : serializeSchedule ex0 = "91010000" := by decide +kernel
example : serializeSchedule ex2 = "910303ac020a0e" := by decide +kernel          -- = Rust output
example : serializeSchedule ex3 = "91080407430e000000" := by decide +kernel      -- = Rust output

/-! ## Round trips -/

/-- Varint round trip for every `u64`, with arbitrary following bytes (includes the ten-byte case
    `v ≥ 2^63`, whose last byte is `0x01`). -/
theorem varint_roundtrip (v : Nat) (hv : v < 2 ^ 64) (rest : List Nat) :
    readVarint (writeVarint v ++ rest) = some (v, rest) :=
  readVarint_writeVarint v hv rest

example : writeVarint (2 ^ 63) = [128, 128, 128, 128, 128, 128, 128, 128, 128, 1] := by decide
example : readVarint (writeVarint (2 ^ 64 - 1) ++ [7, 8]) = some (2 ^ 64 - 1, [7, 8]) := by decide
/-- non-canonical encodings such as `80 00` are accepted by the reader (as in Rust). -/
example : readVarint [0x80, 0x00, 5] = some (0, [5]) := by decide
/-- the 10th-byte rule: after nine continuation bytes the next byte must be exactly `0x01`. -/
example : readVarint [255, 255, 255, 255, 255, 255, 255, 255, 255, 2] = none := by decide
/-- The value read always fits a `u64` (no wrap-around can occur in the Rust reader). -/
theorem varint_read_lt (bs : List Nat) (hb : ∀ b ∈ bs, b < 256) (v : Nat) (r : List Nat)
    (h : readVarint bs = some (v, r)) : v < 2 ^ 64 :=
  readVarint_lt bs v r hb h

example : readVarint [255, 255, 255, 255, 255, 255, 255, 255, 255, 1] = some (2 ^ 64 - 1, []) := by decide

/-- `store` then `load` of a `w`-bit id, LSB-first, with arbitrary following bits. -/
theorem bits_roundtrip (w n : Nat) (h : n < 2 ^ w) (rest : List Bool) :
    bitsToNat ((natToBits w n ++ rest).take w) = n ∧ (natToBits w n ++ rest).drop w = rest := by
  rw [List.take_left' (natToBits_length w n), List.drop_left' (natToBits_length w n)]
  exact ⟨bitsToNat_natToBits_of_lt h, rfl⟩

example : natToBits 9 256 = [false, false, false, false, false, false, false, false, true] := by decide
example : bitsToNat ((natToBits 9 256 ++ [true, true]).take 9) = 256 := by decide

/-- Packing steps and reading them back, with arbitrary trailing bits (whole bit-stream level). -/
theorem bits_roundtrip_steps (w : Nat) (steps : List ScheduleStep) (tail : List Bool)
    (h : ∀ id, ScheduleStep.task id ∈ steps → id < 2 ^ w) :
    decodeSteps w steps.length (stepsBits w steps ++ tail) = some steps :=
  decodeSteps_stepsBits w steps tail h

example : decodeSteps 3 3 (stepsBits 3 [.task 5, .random, .task 7] ++ [true]) = some [.task 5, .random, .task 7] := by
  decide

/-- Bit stream → `u8` storage (`Lsb0`) → bit stream: the written bits followed by zero padding. -/
theorem bits_roundtrip_bytes (k : Nat) (bits : List Bool) (h : bits.length ≤ 8 * k) :
    bytesToBits (packBytes k bits) = bits ++ List.replicate (8 * k - bits.length) false :=
  bytesToBits_packBytes k bits h

example : packBytes 2 [true, false, false, false, false, false, false, false, true] = [1, 1] := by decide

/-- Main round trip. -/
theorem roundtrip (s : Schedule) (h : s.wf) : deserializeSchedule (serializeSchedule s) = some s := by
  unfold deserializeSchedule serializeSchedule
  rw [String.toList_ofList]
  exact deserializeChars_of_filter s h _ (filter_serializeChars s)

example : deserializeSchedule (serializeSchedule ex1) = some ex1 := roundtrip ex1 (by decide)

/-- **the encoding is injective on well-formed schedules**: two different schedules (seed or any step)
never print as the same string, and not even as strings that differ only in whitespace — a failure
report identifies its schedule. Corollary of the round trip. -/
theorem serialize_injective (s s' : Schedule) (h : s.wf) (h' : s'.wf)
    (he : serializeSchedule s = serializeSchedule s') : s = s' := by
  have h1 := roundtrip s h
  rw [he, roundtrip s' h'] at h1
  exact (Option.some.inj h1).symm

example : deserializeSchedule (serializeSchedule ex0) = some ex0 := roundtrip ex0 (by decide)
example : deserializeChars (serializeChars ex1) = some ex1 := by decide +kernel

/-- Whitespace tolerance: ANY string whose non-whitespace characters (Unicode `White_Space`), in
    order, are exactly the unwrapped hex of `s` decodes to `s` — i.e. whitespace may be inserted or
    removed anywhere, including re-wrapping at any width. -/
theorem roundtrip_ws (s : Schedule) (h : s.wf) (t : String)
    (ht : t.toList.filter (fun c => !isWhitespace c) = hexOfSchedule s) :
    deserializeSchedule t = some s :=
  deserializeChars_of_filter s h _ ht

/-- `serializeSchedule s` itself is such a string (so `roundtrip` is an instance of `roundtrip_ws`). -/
theorem serialize_filter (s : Schedule) :
    (serializeSchedule s).toList.filter (fun c => !isWhitespace c) = hexOfSchedule s := by
  unfold serializeSchedule
  rw [String.toList_ofList]
  exact filter_serializeChars s

/-- Explicit insertion form: splice any whitespace block anywhere into the serialized text. -/
theorem roundtrip_ws_insert (s : Schedule) (h : s.wf) (a b ws : List Char)
    (hab : (serializeSchedule s).toList = a ++ b) (hws : ∀ c ∈ ws, isWhitespace c = true) :
    deserializeSchedule (String.ofList (a ++ ws ++ b)) = some s := by
  apply roundtrip_ws s h
  have hf := serialize_filter s
  rw [hab, List.filter_append] at hf
  rw [String.toList_ofList, List.filter_append, List.filter_append, ← hf]
  have : ws.filter (fun c => !isWhitespace c) = [] := by
    rw [List.filter_eq_nil_iff]; intro c hc; simp [hws c hc]
  rw [this, List.append_nil]

example : deserializeSchedule " 91\t01\u3000 01\n0a\u0085 01\u2028" = some ⟨10, [.random]⟩ :=
  roundtrip_ws ⟨10, [.random]⟩ (by decide) _ (by decide +kernel)

/-- Case-insensitive form: any text whose non-whitespace characters hex-decode (upper/lower/mixed
    case) to the byte buffer of `s` decodes to `s`. -/
theorem roundtrip_bytes (s : Schedule) (h : s.wf) (t : String)
    (ht : decodeHex (t.toList.filter (fun c => !isWhitespace c)) = some (encodeBytes s)) :
    deserializeSchedule t = some s := by
  unfold deserializeSchedule deserializeChars
  rw [ht]
  exact decodeBytes_encodeBytes s h

example : deserializeSchedule "91 01 01 0A 01" = some ⟨10, [.random]⟩ :=
  roundtrip_bytes ⟨10, [.random]⟩ (by decide) _ (by decide +kernel)

/-! ## Shape of the output -/

/-- Every line of the serialized text has at most `LINE_WIDTH = 76` characters (`linesOf` = maximal
    newline-free segments). -/
theorem wrap_width (s : Schedule) :
    ∀ line ∈ linesOf (serializeSchedule s).toList, line.length ≤ 76 := by
  unfold serializeSchedule
  rw [String.toList_ofList, linesOf_serializeChars]
  intro line hl
  exact (chunksAux_spec LINE_WIDTH (by decide) _ _ line hl).1

/-- …and the lines are exactly the 76-character chunks of the hex text, so joined they give it back. -/
theorem wrap_lines (s : Schedule) :
    linesOf (serializeSchedule s).toList = chunks 76 (hexOfSchedule s) ∧
    (chunks 76 (hexOfSchedule s)).flatten = hexOfSchedule s := by
  unfold serializeSchedule
  rw [String.toList_ofList]
  exact ⟨linesOf_serializeChars s, chunks_flatten 76 (by decide) _⟩

example : (linesOf (serializeSchedule ex1).toList).map List.length = [76, 76, 4] := by decide +kernel

/-- The width written into the header is `taskIdBits`, which is the least `w ≥ 1` such that all
    task ids are `< 2^w`. -/
theorem width_minimal (s : Schedule) :
    (∃ rest, encodeBytes s = 0x91 :: (writeVarint (taskIdBits s.steps) ++ rest)) ∧
    1 ≤ taskIdBits s.steps ∧
    (∀ id, ScheduleStep.task id ∈ s.steps → id < 2 ^ taskIdBits s.steps) ∧
    (∀ w, 1 ≤ w → (∀ id, ScheduleStep.task id ∈ s.steps → id < 2 ^ w) → taskIdBits s.steps ≤ w) :=
  ⟨⟨_, rfl⟩, one_le_taskIdBits _, fun _ hm => lt_two_pow_taskIdBits hm, fun _ hw h => taskIdBits_le hw h⟩

example : taskIdBits ex1.steps = 64 ∧ taskIdBits ex0.steps = 1 ∧ taskIdBits ex2.steps = 3 ∧
    taskIdBits [.task 255] = 8 ∧ taskIdBits [.task 256] = 9 ∧ taskIdBits [.task 0] = 1 := by decide

/-! ## Rejection -/

/-- Empty (or all-whitespace) input is rejected. -/
theorem reject_empty (t : String) (ht : t.toList.filter (fun c => !isWhitespace c) = []) :
    deserializeSchedule t = none := by
  unfold deserializeSchedule deserializeChars
  rw [ht]; rfl

example : deserializeSchedule "" = none := reject_empty "" (by decide +kernel)
example : deserializeSchedule " \n\t " = none := reject_empty _ (by decide +kernel)

/-- Any character that is neither whitespace nor a hex digit makes the input invalid. -/
theorem reject_non_hex (t : String) (c : Char) (hc : c ∈ t.toList)
    (hws : isWhitespace c = false) (hhex : hexVal c = none) : deserializeSchedule t = none := by
  unfold deserializeSchedule deserializeChars
  cases hd : decodeHex (t.toList.filter fun c => !isWhitespace c) with
  | none => rfl
  | some bs =>
    have := decodeHex_all_hex _ _ hd c (by simp [List.mem_filter, hc, hws])
    simp [hhex] at this

example : deserializeSchedule "9101010g01" = none :=
  reject_non_hex _ 'g' (by decide +kernel) (by decide) (by decide)
/-- U+200B ZERO WIDTH SPACE is *not* `White_Space`, hence an error rather than skipped. -/
example : deserializeSchedule "91010​10a01" = none :=
  reject_non_hex _ '​' (by decide +kernel) (by decide) (by decide)

/-- An odd number of hex digits is rejected. -/
theorem reject_odd_length (t : String)
    (ht : (t.toList.filter (fun c => !isWhitespace c)).length % 2 = 1) :
    deserializeSchedule t = none := by
  unfold deserializeSchedule deserializeChars
  cases hd : decodeHex (t.toList.filter fun c => !isWhitespace c) with
  | none => rfl
  | some bs => have := decodeHex_length _ _ hd; omega

example : deserializeSchedule "9101 010" = none := reject_odd_length _ (by decide +kernel)

/-- A first byte other than `0x91` is rejected. -/
theorem reject_bad_magic (t : String) (b : Nat) (rest : List Nat)
    (ht : decodeHex (t.toList.filter (fun c => !isWhitespace c)) = some (b :: rest))
    (hb : b ≠ 0x91) : deserializeSchedule t = none := by
  unfold deserializeSchedule deserializeChars
  rw [ht]
  simp [decodeBytes, SCHEDULE_MAGIC_V2, hb]

example : deserializeSchedule "9201010a01" = none :=
  reject_bad_magic _ 0x92 [1, 1, 10, 1] (by decide +kernel) (by decide)

/-- A declared task-id width of `0` or more than `64` bits is rejected (whatever follows). -/
theorem reject_width (t : String) (body : List Nat) (w : Nat) (rest : List Nat)
    (ht : decodeHex (t.toList.filter (fun c => !isWhitespace c)) = some (0x91 :: body))
    (hw : readVarint body = some (w, rest)) (hbad : w = 0 ∨ 64 < w) :
    deserializeSchedule t = none := by
  unfold deserializeSchedule deserializeChars
  rw [ht]
  show decodeBytes (0x91 :: body) = none
  rw [decodeBytes]
  simp only [SCHEDULE_MAGIC_V2, ne_eq, not_true_eq_false, if_false, hw]
  cases readVarint rest with
  | none => rfl
  | some p =>
    obtain ⟨len, r2⟩ := p
    simp only []
    cases readVarint r2 with
    | none => rfl
    | some p2 =>
      obtain ⟨seed, r3⟩ := p2
      simp only [hbad, if_true]

example : deserializeSchedule "9100010500" = none :=
  reject_width _ [0, 1, 5, 0] 0 [1, 5, 0] (by decide +kernel) (by decide) (by decide)
example : deserializeSchedule "91410105feffffffffffffffffffff" = none :=
  reject_width _ [65, 1, 5, 254, 255, 255, 255, 255, 255, 255, 255, 255, 255, 255] 65
    [1, 5, 254, 255, 255, 255, 255, 255, 255, 255, 255, 255, 255]
    (by decide +kernel) (by decide) (by decide)
/-- non-canonical `80 00` width = 0 is rejected too. -/
example : deserializeSchedule "9180000105ff" = none :=
  reject_width _ [128, 0, 1, 5, 255] 0 [1, 5, 255] (by decide +kernel) (by decide) (by decide)

/-- Truncation.  Let `t` consist (up to whitespace) of the first `k` hex digits of the encoding of a
    well-formed `s`.  If the cut falls inside a byte (`k` odd), inside the header (magic + three
    varints = `headerLen s` bytes), or leaves fewer bits than the steps occupy (`neededBits s`), the
    result is `none`. -/
theorem reject_truncated (s : Schedule) (h : s.wf) (t : String) (k : Nat)
    (ht : t.toList.filter (fun c => !isWhitespace c) = (hexOfSchedule s).take k)
    (hk : k < (hexOfSchedule s).length)
    (hcut : k % 2 = 1 ∨ k < 2 * headerLen s ∨ 8 * (k / 2 - headerLen s) < neededBits s) :
    deserializeSchedule t = none := by
  by_cases hodd : k % 2 = 1
  · apply reject_odd_length
    rw [ht, List.length_take]; omega
  · have hk2 : k = 2 * (k / 2) := by omega
    unfold deserializeSchedule
    rw [hk2] at ht
    rw [deserializeChars_of_filter_take s h _ (k / 2) ht, if_neg]
    omega

/-- Conversely (and this is all that can be cut): a truncation that only removes unused trailing
    zero bytes still decodes to `s` — trailing bytes are never inspected. -/
theorem truncated_ok (s : Schedule) (h : s.wf) (t : String) (j : Nat)
    (ht : t.toList.filter (fun c => !isWhitespace c) = (hexOfSchedule s).take (2 * j))
    (hhdr : headerLen s ≤ j) (hbits : neededBits s ≤ 8 * (j - headerLen s)) :
    deserializeSchedule t = some s := by
  unfold deserializeSchedule
  rw [deserializeChars_of_filter_take s h _ j ht, if_pos ⟨hhdr, hbits⟩]

/-- If the schedule has no `Random` step (in particular if it is empty), the bit buffer is exactly
    filled and EVERY strict prefix of the hex text is rejected. -/
theorem reject_truncated_all_tasks (s : Schedule) (h : s.wf)
    (hnr : ScheduleStep.random ∉ s.steps) (t : String) (k : Nat)
    (ht : t.toList.filter (fun c => !isWhitespace c) = (hexOfSchedule s).take k)
    (hk : k < (hexOfSchedule s).length) : deserializeSchedule t = none := by
  apply reject_truncated s h t k ht hk
  have hlen : (hexOfSchedule s).length
      = 2 * (headerLen s + (s.steps.length * (1 + taskIdBits s.steps) + 7) / 8) := by
    simp [hexOfSchedule, encodeBytes_length, encodeStepBytes]
  have hneed : neededBits s = s.steps.length * (1 + taskIdBits s.steps) := by
    simp [neededBits, stepsBits_length_all_tasks _ _ hnr]
  rw [hlen] at hk
  rw [hneed]
  generalize s.steps.length * (1 + taskIdBits s.steps) = n at hk ⊢
  omega

/-- For schedules with a step, cutting off the whole body (or more) is always rejected. -/
theorem reject_truncated_header (s : Schedule) (h : s.wf) (hne : s.steps ≠ []) (t : String) (k : Nat)
    (ht : t.toList.filter (fun c => !isWhitespace c) = (hexOfSchedule s).take k)
    (hk : k ≤ 2 * headerLen s) : deserializeSchedule t = none := by
  have hlen : (hexOfSchedule s).length
      = 2 * (headerLen s + (encodeStepBytes (taskIdBits s.steps) s.steps).length) := by
    simp [hexOfSchedule, encodeBytes_length]
  have hpos : 0 < neededBits s := by
    cases hs : s.steps with
    | nil => exact absurd hs hne
    | cons st rest => cases st <;> simp [neededBits, hs, stepsBits]
  have hnb := neededBits_le s
  apply reject_truncated s h t k ht (by omega)
  omega

-- ex1: header = 1 + 1 + 1 + 10 = 13 bytes; steps need 5·65 + 3 = 328 bits = 41 bytes of the 65 allotted.
example : headerLen ex1 = 13 ∧ neededBits ex1 = 328 ∧ (hexOfSchedule ex1).length = 156 := by decide +kernel
/-- cut in the header. -/
example : deserializeSchedule (String.ofList ((hexOfSchedule ex1).take 20)) = none :=
  reject_truncated ex1 (by decide) _ 20
    (by rw [String.toList_ofList]; exact filter_take_hexOfSchedule ex1 20)
    (by decide +kernel) (by decide +kernel)
/-- cut in the body: 40 of the 41 needed bytes present → rejected; 41 present → accepted. -/
example : deserializeChars ((hexOfSchedule ex1).take (2 * (13 + 40))) = none := by decide +kernel
example : deserializeChars ((hexOfSchedule ex1).take (2 * (13 + 41))) = some ex1 := by decide +kernel
example : deserializeChars ((hexOfSchedule ex1).take (2 * (13 + 40) + 1)) = none := by decide +kernel
example : ex2.wf ∧ ScheduleStep.random ∉ ex2.steps := by decide
example : deserializeChars ((hexOfSchedule ex2).take ((hexOfSchedule ex2).length - 1)) = none := by decide +kernel
/-- `ex3` serializes to `91 08 04 07 · 43 0e · 00 00 00`: the last three bytes are never read
    (the real Rust decoder also accepts `"91080407430e"` and returns `ex3`). -/
example : neededBits ex3 = 12 ∧ (encodeBytes ex3).length = headerLen ex3 + 5 := by decide +kernel
example : deserializeChars ((hexOfSchedule ex3).take (2 * (headerLen ex3 + 2))) = some ex3 := by decide +kernel

end ShuttleModel.C16
