import ShuttleProofs.Lemmas.RefLts
import ShuttleProofs.Lemmas.RefReach
import ShuttleProofs.Lemmas.RefWitness

/-!
# C02 — the runtime offers its scheduler enough choices (schedule-tree completeness)

Property: for a program whose threads communicate only through Shuttle's primitives, every outcome
that some sequentially consistent interleaving of its visible operations allows is produced by at
least one sequence of choices the runtime offers to its scheduler.

## The full statement (FALSE on the current tree — kept here, not proved)

```
theorem complete : ∀ (ir : IR) (o : Ref.Outcome),
    HasOutcome ir {spuriousPark := false, leaderLast := true} o →         -- o ∈ Ref.outcomes ir
    ∃ leaf ∈ (Driver.enumerateOutcomes ir limit).1, leaf.2 = o.str       -- o ∈ model outcomes ir
```
(for every `limit` at which the enumeration of the model kernel's choice tree is complete), where
`HasOutcome` (`Lemmas/RefReach.lean`) is reachability in the independent sequentially consistent
reference semantics `ShuttleModel/Ref.lean`, and `Driver.enumerateOutcomes` runs the model kernel
(`Kernel.lean` + `Lang.lean`) under every choice sequence its scheduling points offer and projects
each log to the outcome (`Driver.projectOutcome`).  It is refuted by `incomplete_witness_mpsc_drop`
(reference half below, kernel-checked; model half `Driver.c02Witness`, executable test
`shuttle_model c02witness`) and by the other programs of `corpus/C02/`, found by
`tools/props/c02.py` on the real runtime.

## What is proved

* `complete_switch_normal` — abstract, over arbitrary labelled transition systems
  (`Lemmas/RefLts.lean`): if the runtime is *switch-normal* (every visible step of every task is
  preceded by a scheduling point — the shape of `Runtime.Exec`), every scheduling point offers every
  runnable task (`h_offer`: the kernel contract C08 `offered ⊇ runnable`,
  `ShuttleProofs.C08.offered_superset_runnable`), a task is runnable in the runtime whenever its
  next operation is enabled in the specification (`h_enabled`) and the chosen task's step refines the
  specification's step (`h_step`), then EVERY interleaving of the specification is realised by a
  sequence of choices, each of which was offered.
* `complete_outcomes` — the same at the level of outcomes of maximal runs.
* `incomplete_witness_mpsc_drop_ref` — the reference half of the concrete counterexample to
  `complete` (`decide +kernel`).  The model half — "the model kernel's choice tree of that program
  has 3 leaves, none with this outcome" — is NOT kernel-checked: `execute` does not reduce in the
  kernel (`Op.num` in `Lang.lean` goes through `String.toNat?`); it is the executable test
  `Driver.c02Witness` (`shuttle_model c02witness`, run by `tools/props/c02.py`).

The hypothesis that fails for the real runtime is switch-normality: `Sender::drop`,
`Receiver::drop`, `Once::is_completed`, `BatchSemaphore::available_permits`, a `Barrier::wait` that
is going to block, … are visible steps that are NOT preceded by a scheduling point.
-/

namespace ShuttleProofs.C02

universe u
variable {T S I L : Type u}

/-- **Completeness of a switch-normal runtime.**  Hypotheses, all explicit:
* `h_offer`   (kernel contract C08) every runnable task is offered at every scheduling point;
* `h_enabled` (enabledness refinement) under the simulation relation `R`, a task whose next
  operation is enabled in the specification is runnable in the runtime;
* `h_step`    (step refinement) when such a task is chosen, the runtime can perform the
  specification's step — same observation — and re-establish `R`.
Conclusion: every interleaving `tr` of the specification from `s0` is realised by the choice
sequence `tr.map fst`, every choice having been offered (that is part of `Runtime.Exec`). -/
theorem complete_switch_normal
    (sp : Spec T S L) (rt : Runtime T I L) (R : I → S → Prop)
    (h_offer : ∀ i t, rt.runnable i t → t ∈ rt.offered i)
    (h_enabled : ∀ i s t, R i s → sp.Enabled s t → rt.runnable i t)
    (h_step : ∀ i s t l s', R i s → rt.runnable i t → sp.step s t l s' → ∃ i', rt.exec i t l i' ∧ R i' s')
    {i0 : I} {s0 s : S} {tr : List (T × L)} (h0 : R i0 s0) (hrun : sp.Run s0 tr s) :
    ∃ i, rt.Exec i0 (tr.map Prod.fst) tr i ∧ R i s := by
  induction hrun generalizing i0 with
  | nil s => exact ⟨i0, Runtime.Exec.nil i0, h0⟩
  | @cons s s' s'' t l tr hs _ ih =>
    have hr : rt.runnable i0 t := h_enabled i0 s t h0 ⟨l, s', hs⟩
    obtain ⟨i', hex, hR'⟩ := h_step i0 s t l s' h0 hr hs
    obtain ⟨i, hexec, hR⟩ := ih hR'
    exact ⟨i, Runtime.Exec.cons (h_offer i0 t hr) hex hexec, hR⟩

/-- outcomes of maximal interleavings of the specification -/
def Spec.Outcomes {O : Type u} (sp : Spec T S L) (out : S → O) (s0 : S) (o : O) : Prop :=
  ∃ tr s, sp.Run s0 tr s ∧ sp.Terminal s ∧ out s = o

/-- outcomes of the runtime's executions that end at a scheduling point with nothing to offer -/
def Runtime.Outcomes {O : Type u} (rt : Runtime T I L) (out : I → O) (i0 : I) (o : O) : Prop :=
  ∃ cs tr i, rt.Exec i0 cs tr i ∧ rt.offered i = [] ∧ out i = o

/-- **Completeness at the level of outcomes.**  Additional hypotheses:
* `h_out`  related states have the same outcome;
* `h_term` (no phantom offers) when no operation is enabled in the specification the runtime
  offers nothing — the kernel contract C08 `offered ⊆ runnable ∪ spuriously-wakeable` together with
  the converse of `h_enabled`. -/
theorem complete_outcomes {O : Type u}
    (sp : Spec T S L) (rt : Runtime T I L) (R : I → S → Prop) (outS : S → O) (outI : I → O)
    (h_offer : ∀ i t, rt.runnable i t → t ∈ rt.offered i)
    (h_enabled : ∀ i s t, R i s → sp.Enabled s t → rt.runnable i t)
    (h_step : ∀ i s t l s', R i s → rt.runnable i t → sp.step s t l s' → ∃ i', rt.exec i t l i' ∧ R i' s')
    (h_out : ∀ i s, R i s → outI i = outS s)
    (h_term : ∀ i s, R i s → sp.Terminal s → rt.offered i = [])
    {i0 : I} {s0 : S} (h0 : R i0 s0) :
    ∀ o, sp.Outcomes outS s0 o → rt.Outcomes outI i0 o := by
  rintro o ⟨tr, s, hrun, hterm, ho⟩
  obtain ⟨i, hexec, hR⟩ := complete_switch_normal sp rt R h_offer h_enabled h_step h0 hrun
  exact ⟨tr.map Prod.fst, tr, i, hexec, h_term i s hR hterm, (h_out i s hR).trans ho⟩

/-! ### Non-vacuity: a concrete specification/runtime pair satisfying every hypothesis

Two tasks (`false`, `true`), each performs once "fetch-and-increment" on a shared counter and
observes the old value.  State: counter and which tasks are done.  The runtime is the
specification plus a scheduling point before every step that offers exactly the unfinished tasks. -/

namespace Example

abbrev St := Nat × Bool × Bool      -- counter, task `false` done, task `true` done

def done (s : St) (t : Bool) : Bool := if t then s.2.2 else s.2.1
def markDone (s : St) (t : Bool) : St := if t then (s.1 + 1, s.2.1, true) else (s.1 + 1, true, s.2.2)

def sp : Spec Bool St Nat where
  step s t l s' := done s t = false ∧ l = s.1 ∧ s' = markDone s t

def rt : Runtime Bool St Nat where
  offered s := [false, true].filter fun t => !done s t
  runnable s t := done s t = false
  exec s t l s' := done s t = false ∧ l = s.1 ∧ s' = markDone s t

theorem h_offer : ∀ i t, rt.runnable i t → t ∈ rt.offered i := by
  intro i t h
  simp only [rt] at h ⊢
  cases t <;> simp [h]

theorem h_enabled : ∀ i s t, i = s → sp.Enabled s t → rt.runnable i t := by
  rintro i s t rfl ⟨l, s', h, -⟩
  exact h

theorem h_step : ∀ i s t l s', i = s → rt.runnable i t → sp.step s t l s' → ∃ i', rt.exec i t l i' ∧ i' = s' := by
  rintro i s t l s' rfl _ h
  exact ⟨s', h, rfl⟩

/-- the interleaving "task `true` first" … -/
theorem run_true_first : sp.Run (0, false, false) [(true, 0), (false, 1)] (2, true, true) :=
  .cons (s' := (1, false, true)) ⟨rfl, rfl, rfl⟩ (.cons (s' := (2, true, true)) ⟨rfl, rfl, rfl⟩ (.nil _))

/-- … is realised by the choices `[true, false]` (both orders are, so the theorem is not vacuous) -/
example : ∃ i, rt.Exec (0, false, false) [true, false] [(true, 0), (false, 1)] i ∧ i = (2, true, true) :=
  complete_switch_normal sp rt (· = ·) h_offer h_enabled h_step rfl run_true_first

end Example

/-! ### The concrete counterexample to `complete` (`Lemmas/RefWitness.lean`) -/

/-- The mpsc-drop program
```
obj c chan unb
task 0: spawn 1; drop_tx c; recv c; try_recv c          task 1: send c 1; drop_tx c
```
has, in the reference semantics, a maximal interleaving with the outcome "task 0 receives `v:1`,
then `err:empty`" (task 1 has sent but not yet dropped its `Sender`): kernel-checked replay of one
path of `Ref.succs` (`Witness.mpscDrop_ref_reaches`, `decide +kernel`). -/
theorem incomplete_witness_mpsc_drop_ref :
    HasOutcome Witness.mpscDrop { spuriousPark := false, leaderLast := true } Witness.mpscDropMissing :=
  runPath_hasOutcome Witness.mpscDrop_ref_reaches

/-- the canonical rendering of that outcome is the string the drivers compare -/
theorem mpscDropMissing_str :
    Witness.mpscDropMissing.str = "0:0=ok,1=ok,2=v:1,3=err:empty;1:0=ok,1=ok;E:ok" := by
  decide +kernel

end ShuttleProofs.C02
