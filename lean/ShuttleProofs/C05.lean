import ShuttleProofs.Lemmas.CondvarLTS
import ShuttleProofs.Lemmas.CondvarSegment
import ShuttleProofs.Lemmas.BarrierLTS
import ShuttleProofs.Lemmas.OnceLTS
import ShuttleProofs.Lemmas.ParkTask

/-!
# C05 — Condvar, Barrier, Once, park/unpark: waiters are released exactly when they should be

Models: `ShuttleModel/Prim/{Condvar,Barrier,Once}.lean` (pure atomic segments + thin `Prog` wrappers,
transcriptions of `shuttle-std/src/sync/{condvar,barrier,once}.rs`) and `Task.park` / `Task.unpark` /
`Task.unblock` in `ShuttleModel/Kernel.lean` (`shuttle-engine/src/runtime/task/mod.rs`).

Each primitive gets the labelled transition system of a *most general client*
(`ShuttleProofs/Lemmas/*LTS.lean`): any task may perform any operation at any time; the only
constraints are the ones the runtime itself imposes — a task suspended inside a blocking call does
nothing else, and the stage after the suspension runs only once the task is not blocked (ghost set
`blocked`, driven by the `Eff.unblock` / `Eff.block` effects the pure segments emit).  Histories are
newest-first event lists; `since t h` = the events after the latest `register t`.
-/

namespace ShuttleProofs.C05
open ShuttleModel ShuttleModel.CondvarState

/-! ## Condvar -/

/-- two waiters, two `notify_one`s racing with them, one return: the history used by the
non-vacuity examples (`1` and `2` wait, `0` notifies twice, `2` returns having consumed epoch 0) -/
def exCmds : List CvCmd := [.register 1, .register 2, .notifyOne 0 [5], .notifyOne 0 [7], .wake 2]

theorem exReach :
    ∃ g, CvReach [.woke 2 (some 0), .notifyOne 0 1, .notifyOne 0 0, .register 2, .register 1] g ∧
      g.s.waiters = [(1, .signal [(1, [7])])] ∧ g.blocked 1 = false :=
  ⟨_, cvRun_reach .init (cmds := exCmds) rfl, rfl, rfl⟩

/-- **wait_returns_only_after_notify_during_wait.**  In every reachable state of a condvar under
any client: (a) if the second stage of task `t`'s `wait` succeeds, `t` had registered and a
notification was issued *after* that registration — a `notify_all` if it returns "woken by
broadcast", the `notify_one` of exactly the consumed epoch otherwise; (b) the second stage run on a
waiter whose status is still `Waiting` is the panic "should not have been woken while in Waiting
status" (modelled as is); (c) and the condvar itself never makes such a waiter runnable. -/
theorem wait_returns_only_after_notify_during_wait {h : List CvEv} {g : CvG} (hr : CvReach h g) (t : Nat) :
    (∀ r g', CvStep g (.woke t r) g' →
        CvEv.register t ∈ h ∧
        (r = none → ∃ n, CvEv.notifyAll n ∈ since t h) ∧
        (∀ ep, r = some ep → ∃ n, CvEv.notifyOne n ep ∈ since t h)) ∧
    (∀ s : CondvarState, s.waiters.find? (·.1 == t) = some (t, .waiting) →
        s.wake t = .error "should not have been woken while in Waiting status") ∧
    (∀ p ∈ g.s.waiters, p.2 = .waiting → g.blocked p.1 = true) := by
  have I := reach_inv hr
  refine ⟨?_, fun s hs => wake_waiting_panics s t hs, fun p hp hw => (I.blocked_iff p hp).2 hw⟩
  intro r g' hs
  cases hs with
  | wake hb hw =>
    obtain ⟨st, hmem, _, hcase⟩ := wake_ok hw
    refine ⟨I.reg _ hmem, ?_, ?_⟩
    · intro hnone
      rcases hcase with ⟨rfl, _, _, _⟩ | ⟨e, rest, rfl, hwb, _, _⟩
      · exact (I.bcast _ hmem).2 ⟨_, rfl⟩
      · rw [hwb] at hnone; cases hnone
    · intro ep hep
      rcases hcase with ⟨rfl, hwb, _, _⟩ | ⟨e, rest, rfl, hwb, _, _⟩
      · rw [hwb] at hep; cases hep
      · rw [hwb] at hep
        injection hep with hep
        subst hep
        obtain ⟨_, _, h3⟩ := I.sig _ hmem _ rfl
        exact (h3 _ (List.mem_cons_self ..)).2.1

example : ∃ h g, CvReach h g ∧ ∃ g', CvStep g (.woke 1 (some 1)) g' :=
  ⟨_, _, cvRun_reach .init (cmds := exCmds) rfl, _, cvDo_sound (cmd := .wake 1) rfl⟩

/-- the epochs consumed by the returns / handed out by the `notify_one`s of a history -/
def wokeEpochs (h : List CvEv) : List Nat :=
  h.filterMap (fun e => match e with | .woke _ (some ep) => some ep | _ => none)
def notifyEpochs (h : List CvEv) : List Nat :=
  h.filterMap (fun e => match e with | .notifyOne _ ep => some ep | _ => none)

theorem mem_wokeEpochs {h : List CvEv} {ep : Nat} : ep ∈ wokeEpochs h ↔ ∃ t, CvEv.woke t (some ep) ∈ h := by
  simp only [wokeEpochs, List.mem_filterMap]
  constructor
  · rintro ⟨e, he, hm⟩
    cases e with
    | woke t r =>
      cases r with
      | none => cases hm
      | some x => simp only [Option.some.injEq] at hm; subst hm; exact ⟨t, he⟩
    | _ => cases hm
  · rintro ⟨t, ht⟩
    exact ⟨_, ht, rfl⟩

theorem mem_notifyEpochs {h : List CvEv} {ep : Nat} : ep ∈ notifyEpochs h ↔ ∃ n, CvEv.notifyOne n ep ∈ h := by
  simp only [notifyEpochs, List.mem_filterMap]
  constructor
  · rintro ⟨e, he, hm⟩
    cases e with
    | notifyOne n x => simp only [Option.some.injEq] at hm; subst hm; exact ⟨n, he⟩
    | _ => cases hm
  · rintro ⟨n, hn⟩
    exact ⟨_, hn, rfl⟩

/-- **notify_one_releases_at_most_one.**  (a) A return that was not caused by a broadcast consumed
the epoch of a `notify_one` issued while it was waiting, and no earlier return (of any task)
consumed the same epoch; (b) every `notify_one` gets an epoch no earlier `notify_one` had.  Hence
(c) over every history: the consumed epochs are pairwise distinct, the issued epochs are pairwise
distinct, and every consumed epoch was issued — "return ↦ epoch ↦ notify_one call" is an injection
from the non-broadcast returns into the `notify_one` calls. -/
theorem notify_one_releases_at_most_one {h : List CvEv} {g : CvG} (hr : CvReach h g) :
    (∀ t ep g', CvStep g (.woke t (some ep)) g' →
        (∃ n, CvEv.notifyOne n ep ∈ since t h) ∧ ∀ t', CvEv.woke t' (some ep) ∉ h) ∧
    (∀ n ep g', CvStep g (.notifyOne n ep) g' → ∀ n', CvEv.notifyOne n' ep ∉ h) ∧
    ((wokeEpochs h).Nodup ∧ (notifyEpochs h).Nodup ∧ ∀ ep ∈ wokeEpochs h, ep ∈ notifyEpochs h) := by
  have step_a : ∀ {h g}, CvReach h g → ∀ t ep g', CvStep g (.woke t (some ep)) g' →
      (∃ n, CvEv.notifyOne n ep ∈ since t h) ∧ ∀ t', CvEv.woke t' (some ep) ∉ h := by
    intro h g hr t ep g' hs
    have I := reach_inv hr
    generalize hre : some ep = r at hs
    cases hs with
    | wake hb hw =>
      obtain ⟨st, hmem, _, hcase⟩ := wake_ok hw
      rcases hcase with ⟨rfl, hwb, _, _⟩ | ⟨e, rest, rfl, hwb, _, _⟩
      · rw [hwb] at hre; cases hre
      · rw [hwb] at hre
        rw [hwb]
        injection hre with hre
        subst hre
        obtain ⟨_, _, h3⟩ := I.sig _ hmem _ rfl
        exact (h3 _ (List.mem_cons_self ..)).2
  have step_b : ∀ {h g}, CvReach h g → ∀ n ep g', CvStep g (.notifyOne n ep) g' →
      ∀ n', CvEv.notifyOne n' ep ∉ h := by
    intro h g hr n ep g' hs n' hm
    have I := reach_inv hr
    cases hs with
    | notifyOne hn => exact absurd ((I.hist_lt _ hm).1 n' _ rfl) (Nat.lt_irrefl _)
  refine ⟨step_a hr, step_b hr, ?_⟩
  induction hr with
  | init => simp [wokeEpochs, notifyEpochs]
  | @step h g e g' hr hs ih =>
    obtain ⟨ih1, ih2, ih3⟩ := ih
    cases e with
    | register t => exact ⟨ih1, ih2, ih3⟩
    | notifyAll t => exact ⟨ih1, ih2, ih3⟩
    | notifyOne n ep =>
      refine ⟨ih1, ?_, ?_⟩
      · show (ep :: notifyEpochs h).Nodup
        rw [List.nodup_cons]
        refine ⟨fun hm => ?_, ih2⟩
        obtain ⟨n', hn'⟩ := mem_notifyEpochs.1 hm
        exact step_b hr n ep g' hs n' hn'
      · intro x hx
        show x ∈ ep :: notifyEpochs h
        exact List.mem_cons_of_mem _ (ih3 x hx)
    | woke t r =>
      cases r with
      | none => exact ⟨ih1, ih2, ih3⟩
      | some ep =>
        obtain ⟨⟨n, hn⟩, hfresh⟩ := step_a hr t ep g' hs
        refine ⟨?_, ih2, ?_⟩
        · show (ep :: wokeEpochs h).Nodup
          rw [List.nodup_cons]
          refine ⟨fun hm => ?_, ih1⟩
          obtain ⟨t', ht'⟩ := mem_wokeEpochs.1 hm
          exact hfresh t' ht'
        · intro x hx
          have hx' : x ∈ ep :: wokeEpochs h := hx
          rcases List.mem_cons.1 hx' with rfl | hx'
          · exact mem_notifyEpochs.2 ⟨n, List.mem_cons_of_mem _ (since_subset t h _ hn)⟩
          · exact ih3 x hx'

example : ∃ h g, CvReach h g ∧ wokeEpochs h = [0] ∧ notifyEpochs h = [1, 0] :=
  let ⟨g, hr, _, _⟩ := exReach
  ⟨_, g, hr, rfl, rfl⟩

/-- **any_waiter_can_win.**  From *any* state: right after a `notify_one`, the second stage of
every registered waiter is enabled (each of them may be the one the scheduler runs next and
returns); and (b) if all `k` waiters were plain `Waiting` before the `notify_one`, then whichever
of them returns consumed that `notify_one`, and leaves every other waiter `Waiting` and blocked
again — exactly one is released, and it can be any of them. -/
theorem any_waiter_can_win (g : CvG) {n : Nat} {c : Clock} {s' : CondvarState} {effs : List Eff}
    (hn : g.s.notifyOne n c = .ok (s', effs)) :
    (∀ p ∈ g.s.waiters, ∃ r g'', CvStep ⟨s', applyEffs g.blocked effs⟩ (.woke p.1 r) g'') ∧
    ((g.s.waiters.map (·.1)).Nodup → (∀ p ∈ g.s.waiters, p.2 = .waiting) →
      ∀ p ∈ g.s.waiters, ∃ g'', CvStep ⟨s', applyEffs g.blocked effs⟩ (.woke p.1 (some g.s.nextEpoch)) g'' ∧
        g''.s.waiters = (g.s.waiters.filter (·.1 != p.1)) ∧
        ∀ q ∈ g''.s.waiters, q.2 = .waiting ∧ g''.blocked q.1 = true) := by
  obtain ⟨_, rfl, rfl⟩ := notifyOne_ok hn
  have hen : ∀ p ∈ g.s.waiters, ∃ s'' c' effs',
      CondvarState.wake { waiters := g.s.waiters.map (fun p => (p.1, signalStatus g.s.nextEpoch c p.2)),
                          nextEpoch := g.s.nextEpoch + 1 } p.1 = .ok (s'', c', effs') := by
    intro p hp
    apply wake_enabled
    · exact ⟨(p.1, signalStatus g.s.nextEpoch c p.2),
        List.mem_map_of_mem (f := fun p => (p.1, signalStatus g.s.nextEpoch c p.2)) hp, rfl⟩
    · intro q hq _
      obtain ⟨q0, _, rfl⟩ := List.mem_map.1 hq
      cases q0.2 <;> simp [signalStatus]
  have hunb : ∀ p ∈ g.s.waiters, applyEffs g.blocked ((g.s.waiters.map (·.1)).map Eff.unblock) p.1 = false := by
    intro p hp
    rw [applyEffs_unblocks]
    simp [List.mem_map_of_mem (f := (·.1)) hp]
  refine ⟨?_, ?_⟩
  · intro p hp
    obtain ⟨s'', c', effs', hw⟩ := hen p hp
    exact ⟨_, _, CvStep.wake (g := ⟨_, _⟩) (hunb p hp) hw⟩
  · intro hnd hall p hp
    -- the waiter list after the notify: every status is `Signal [(epoch, c)]`
    have hmap : g.s.waiters.map (fun p => (p.1, signalStatus g.s.nextEpoch c p.2)) =
        g.s.waiters.map (fun p => (p.1, CvStatus.signal [(g.s.nextEpoch, c)])) := by
      apply List.map_congr_left
      intro q hq
      rw [hall q hq]; rfl
    simp only [hmap]
    have hnd' : ((g.s.waiters.map (fun p => (p.1, CvStatus.signal [(g.s.nextEpoch, c)]))).map (·.1)).Nodup := by
      rw [List.map_map]; exact hnd
    have hfind := find_of_mem_nodup hnd'
      (List.mem_map_of_mem (f := fun p => (p.1, CvStatus.signal [(g.s.nextEpoch, c)])) hp)
    simp only at hfind
    have hw' := CvStep.wake
      (g := CvG.mk (CondvarState.mk (g.s.waiters.map (fun p => (p.1, CvStatus.signal [(g.s.nextEpoch, c)])))
                (g.s.nextEpoch + 1))
              (applyEffs g.blocked ((g.s.waiters.map (·.1)).map Eff.unblock))) (t := p.1)
      (hunb p hp) (by simp only [CondvarState.wake, hfind, CondvarState.remove, consumeEpoch_eq]; rfl)
    have hwb : wokenBy { waiters := g.s.waiters.map (fun p => (p.1, CvStatus.signal [(g.s.nextEpoch, c)])),
                         nextEpoch := g.s.nextEpoch + 1 } p.1 = some g.s.nextEpoch := by
      simp only [wokenBy, hfind]
    rw [hwb] at hw'
    refine ⟨_, hw', ?_, ?_⟩
    · exact win_list g.s.waiters g.s.nextEpoch c p.1 hall
    · intro q hq
      obtain ⟨q1, hq1, rfl⟩ := List.mem_map.1 hq
      obtain ⟨q0, _, hq0⟩ := List.mem_map.1 (List.mem_filter.1 hq1).1
      have hc1 : consume1 g.s.nextEpoch q1.2 = .waiting ∧ reblocked g.s.nextEpoch q1.2 = true := by
        rw [← hq0]; simp [consume1, reblocked]
      refine ⟨hc1.1, ?_⟩
      have : q1.1 ∈ ((((g.s.waiters.map (fun p => (p.1, CvStatus.signal [(g.s.nextEpoch, c)]))).filter (·.1 != p.1)).filter
          (fun p => reblocked g.s.nextEpoch p.2)).map (·.1)) :=
        List.mem_map_of_mem (List.mem_filter.2 ⟨hq1, hc1.2⟩)
      show applyEffs _ (List.map Eff.block _) q1.1 = true
      rw [applyEffs_blocks, if_pos this]

example : ∃ (g : CvG) (s' : CondvarState) (effs : List Eff),
    g.s.waiters.length = 3 ∧ g.s.notifyOne 0 [1] = .ok (s', effs) ∧
    (g.s.waiters.map (·.1)).Nodup ∧ ∀ p ∈ g.s.waiters, p.2 = .waiting :=
  ⟨⟨{ waiters := [(1, .waiting), (2, .waiting), (3, .waiting)] }, fun _ => true⟩, _, _, rfl, rfl,
    by decide, by simp⟩

/-- **notify_all_releases_all.**  (a) The `notify_all` transition turns every registered waiter
into `Broadcast` and emits an `unblock` for each of them; (b) in every reachable state, a waiter
that has seen a `notify_all` since it registered is not blocked, and its second stage is enabled and
returns "woken by broadcast" — whatever `notify_one`s, other returns and new waiters came in
between. -/
theorem notify_all_releases_all :
    (∀ (g : CvG) (n : Nat) (c : Clock) (s' : CondvarState) (effs : List Eff),
        g.s.notifyAll n c = .ok (s', effs) →
        ∀ p ∈ g.s.waiters, Eff.unblock p.1 ∈ effs ∧ (p.1, CvStatus.broadcast c) ∈ s'.waiters ∧
          applyEffs g.blocked effs p.1 = false) ∧
    (∀ (h : List CvEv) (g : CvG), CvReach h g → ∀ p ∈ g.s.waiters,
        (∃ n, CvEv.notifyAll n ∈ since p.1 h) →
        g.blocked p.1 = false ∧ ∃ g', CvStep g (.woke p.1 none) g') := by
  constructor
  · intro g n c s' effs hn p hp
    obtain ⟨_, rfl, rfl⟩ := notifyAll_ok hn
    have hk : p.1 ∈ g.s.waiters.map (·.1) := List.mem_map_of_mem hp
    refine ⟨List.mem_map_of_mem hk, List.mem_map_of_mem (f := fun p => (p.1, CvStatus.broadcast c)) hp, ?_⟩
    rw [applyEffs_unblocks]
    simp [hk]
  · intro h g hr p hp hna
    have I := reach_inv hr
    obtain ⟨c, hc⟩ := (I.bcast p hp).1 hna
    have hb : g.blocked p.1 = false := by
      cases hx : g.blocked p.1 with
      | false => rfl
      | true => have := (I.blocked_iff p hp).1 hx; rw [hc] at this; cases this
    refine ⟨hb, ?_⟩
    have hfind := find_of_mem_nodup I.nodup hp
    have hw : g.s.wake p.1 = .ok ({ g.s with waiters := g.s.waiters.filter (·.1 != p.1) }, c, []) := by
      obtain ⟨k, st⟩ := p
      simp only at hc hfind
      subst hc
      simp [CondvarState.wake, hfind, CondvarState.remove]
    have hwb : wokenBy g.s p.1 = none := by
      obtain ⟨k, st⟩ := p
      simp only at hc hfind
      subst hc
      simp [wokenBy, hfind]
    have := CvStep.wake hb hw
    rw [hwb] at this
    exact ⟨_, this⟩

example : ∃ h g, CvReach h g ∧ ∃ p ∈ g.s.waiters, ∃ n, CvEv.notifyAll n ∈ since p.1 h :=
  ⟨_, _, cvRun_reach .init (cmds := [.register 1, .notifyAll 0 [5], .register 2]) rfl,
    (1, .broadcast [5]), by simp, 0, by simp [since]⟩

/-- **condvar_blocked_iff_no_pending_signal.**  In every reachable state a registered waiter is
blocked (ghost) iff its status is `Waiting`; a `Signal` status never has an empty epoch list (a
waiter whose list became empty was put back to `Waiting` and re-blocked in the same transition). -/
theorem condvar_blocked_iff_no_pending_signal {h : List CvEv} {g : CvG} (hr : CvReach h g) :
    ∀ p ∈ g.s.waiters, (g.blocked p.1 = true ↔ p.2 = .waiting) ∧ (∀ eps, p.2 = .signal eps → eps ≠ []) :=
  fun p hp => ⟨(reach_inv hr).blocked_iff p hp, fun eps he => ((reach_inv hr).sig p hp eps he).1⟩

example : ∃ h g, CvReach h g ∧ ∃ p ∈ g.s.waiters, g.blocked p.1 = false :=
  let ⟨g, hr, hw, hb⟩ := exReach
  ⟨_, g, hr, (1, .signal [(1, [7])]), by rw [hw]; simp, hb⟩

/-- **condvar_no_lost_wakeup.**  (a) `notify_one` and `notify_all` emit an `unblock` for *every*
registered waiter in the same transition; the second stage of `wait` re-blocks (`Eff.block`) only
waiters it sends back to `Waiting`.  (b) In every reachable state, a registered waiter for which a
notification is pending — a `notify_all` since it registered, or a `notify_one` since it registered
whose epoch no return has consumed yet — is not blocked and its second stage is enabled. -/
theorem condvar_no_lost_wakeup :
    (∀ (s : CondvarState) (n : Nat) (c : Clock) (s' : CondvarState) (effs : List Eff),
        (s.notifyOne n c = .ok (s', effs) ∨ s.notifyAll n c = .ok (s', effs)) →
        ∀ p ∈ s.waiters, Eff.unblock p.1 ∈ effs) ∧
    (∀ (h : List CvEv) (g : CvG), CvReach h g → ∀ p ∈ g.s.waiters,
        ((∃ n, CvEv.notifyAll n ∈ since p.1 h) ∨
         (∃ n ep, CvEv.notifyOne n ep ∈ since p.1 h ∧ ∀ t', CvEv.woke t' (some ep) ∉ h)) →
        g.blocked p.1 = false ∧ ∃ r g', CvStep g (.woke p.1 r) g') := by
  constructor
  · intro s n c s' effs hn p hp
    have hk : p.1 ∈ s.waiters.map (·.1) := List.mem_map_of_mem hp
    rcases hn with hn | hn
    · obtain ⟨_, _, rfl⟩ := notifyOne_ok hn; exact List.mem_map_of_mem hk
    · obtain ⟨_, _, rfl⟩ := notifyAll_ok hn; exact List.mem_map_of_mem hk
  · intro h g hr p hp hpend
    have I := reach_inv hr
    have hst : p.2 ≠ .waiting ∧ p.2 ≠ .signal [] := by
      rcases hpend with hna | ⟨n, ep, hn, hun⟩
      · obtain ⟨c, hc⟩ := (I.bcast p hp).1 hna
        rw [hc]; simp
      · rcases I.pending p hp n ep hn hun with ⟨c, hc⟩ | ⟨eps, he, hm⟩
        · rw [hc]; simp
        · rw [he]
          refine ⟨by simp, ?_⟩
          intro hnil
          injection hnil with hnil
          subst hnil
          simp at hm
    have hb : g.blocked p.1 = false := by
      cases hx : g.blocked p.1 with
      | false => rfl
      | true => exact absurd ((I.blocked_iff p hp).1 hx) hst.1
    refine ⟨hb, ?_⟩
    obtain ⟨s', c, effs, hw⟩ := wake_enabled (s := g.s) (t := p.1) ⟨p, hp, rfl⟩
      (fun q hq hk => by rw [key_unique I.nodup hq hp hk]; exact hst)
    exact ⟨_, _, CvStep.wake hb hw⟩

example : ∃ h g, CvReach h g ∧ ∃ p ∈ g.s.waiters, ∃ n ep, CvEv.notifyOne n ep ∈ since p.1 h ∧
    ∀ t', CvEv.woke t' (some ep) ∉ h := by
  obtain ⟨g, hr, hw, _⟩ := exReach
  refine ⟨_, g, hr, (1, .signal [(1, [7])]), by rw [hw]; simp, 0, 1, by simp [since], ?_⟩
  intro t'; simp

/-- **mutex_released_while_waiting_and_reheld.**  (a) `Condvar::wait` is, in this order: the drop of
the guard (`Mutex.unlock`: a `release` of the mutex's semaphore behind its scheduling point, then
`holder := none`), the registration stage (pure `CondvarState.register`, `block(false)`) in the
same atomic segment, exactly one `switch`, the consuming stage (pure `CondvarState.wake`), and a
full `Mutex.lock` whose result is the result of `wait`.  (b) Executed by the kernel
(`runSegment`) from any state in which the caller is not yet registered, the registration stage
up to that `switch` writes the shared state only through the condvar's lens — so for a mutex
behind an independent lens the mutex state (just released by the guard's drop) is untouched:
the mutex stays released while the task waits — and leaves the caller blocked without spurious
wake-ups, with the consuming stage and the `Mutex.lock` as its continuation. -/
theorem mutex_released_while_waiting_and_reheld :
    (∀ {U : Type} (L : Lens U CondvarState) (M : Lens U MutexState),
      Condvar.wait L M =
        (do let me ← K.me
            Mutex.unlock M
            Condvar.registerStage L me
            K.switch
            Condvar.wakeStage L me
            Mutex.lock M)) ∧
    (∀ (P : Program) {σ : Type} (S : Scheduler σ) (L : Lens P.U CondvarState) (M : Lens P.U MutexState)
      (me : Nat) (st : ExecState P σ) (tk : Task) (s' : CondvarState) (fuel : Nat)
      (kont : LockRes → Prog P.U Unit),
      st.k.getTask? me = some tk → tk.finished = false → (L.get st.u).register me = .ok s' →
      (∀ x u, M.get (L.set x u) = M.get u) →
      ∃ st', runSegment S me (fuel + 6) st
          (do Condvar.registerStage L me; K.switch;
              (do Condvar.wakeStage L me; let r ← Mutex.lock M; kont r)) = .atSwitch st' ∧
        M.get st'.u = M.get st.u ∧ L.get st'.u = L.get (L.set s' st.u) ∧
        st'.k.getTask? me = (st.k.setTask me { tk with state := .blocked false }).getTask? me ∧
        st'.conts = st.conts.set me (do Condvar.wakeStage L me; let r ← Mutex.lock M; kont r)) := by
  refine ⟨fun L M => rfl, ?_⟩
  intro P σ S L M me st tk s' fuel kont hk hf hr hind
  refine ⟨_, registerStage_segment P S L me st tk hk hf s' hr _ fuel, hind _ _, rfl, rfl, rfl⟩

example : (({} : CondvarState).register 3) = .ok { waiters := [(3, .waiting)] } := rfl

/-! ## Barrier -/

section Barrier
open ShuttleModel.BarrierState

/-- bound 2, reused: `1` arrives, `2` completes generation 0 (and leads it), `3` arrives in
generation 1 while `1` has not yet returned from generation 0, `1` returns, `2` completes
generation 1 -/
def exBarCmds : List BarCmd := [.arrive 1 [1], .arrive 2 [0, 1], .arrive 3 [0, 0, 1], .resume 1, .arrive 2 [0, 2]]

theorem exBarReach : ∃ g, BarReach 2
    [.ret 2 1 true, .arrive 2 1 true, .ret 1 0 false, .arrive 3 1 false, .ret 2 0 true, .arrive 2 0 true,
     .arrive 1 0 false] g ∧ g.s.epoch = 2 ∧ g.susp = [(3, 1)] ∧ g.blocked 3 = false :=
  ⟨_, barRun_reach .init (cmds := exBarCmds) rfl, rfl, rfl, rfl⟩

/-- **barrier_releases_exact_group.**  For a barrier of bound `n ≥ 1`, in every reachable state:
(a) an arrival that is not the `n`-th of its generation releases nobody (no effects; the caller
blocks); (b) the `n`-th arrival emits an `unblock` for exactly the `n-1` registered waiters and
itself, and blocks nobody — and those waiters are exactly the tasks that arrived earlier in this
generation, each of them suspended in `wait` and blocked until now (no lost wake-up); (c) whenever a
`wait` returns, all `n` arrivals of its generation have happened (nobody returns earlier);
(d) a suspended task whose generation is complete is not blocked and its return is enabled. -/
theorem barrier_releases_exact_group {n : Nat} (hn : 1 ≤ n) {h : List BarEv} {g : BarG}
    (hr : BarReach n h g) :
    (∀ t c clk s' ep effs, g.s.arrive t c clk = .ok (s', .blocked ep, effs) →
        ep = g.s.epoch ∧ effs = [] ∧ g.s.waiters.length + 1 < n) ∧
    (∀ t c clk s' ep effs, g.s.arrive t c clk = .ok (s', .released ep, effs) →
        ep = g.s.epoch ∧ g.s.waiters.length = n - 1 ∧
        (∀ x, Eff.unblock x ∈ effs ↔ x ∈ g.s.waiters ∨ x = t) ∧ (∀ x, Eff.block x ∉ effs) ∧
        (∀ x ∈ g.s.waiters, BarEv.arrive x ep false ∈ h ∧ (x, ep) ∈ g.susp ∧ g.blocked x = true ∧
          applyEffs g.blocked effs x = false)) ∧
    (∀ evs g', BarStep g evs g' → ∀ t e l, BarEv.ret t e l ∈ evs → arrCount e (evs ++ h) = n) ∧
    (∀ p ∈ g.susp, p.2 < g.s.epoch →
        g.blocked p.1 = false ∧ ∃ evs g', BarStep g evs g' ∧ ∃ l, BarEv.ret p.1 p.2 l ∈ evs) := by
  have I := barReach_inv hr
  have hbn := I.bound
  have hwl := I.wlen
  refine ⟨?_, ?_, ?_, ?_⟩
  · intro t c clk s' ep effs ha
    obtain ⟨_, hcase⟩ := arrive_ok ha
    rcases hcase with ⟨hlt, hep, he, _⟩ | ⟨_, _, _, hep, _, _⟩
    · injection hep with hep
      exact ⟨hep, he, by omega⟩
    · cases hep
  · intro t c clk s' ep effs ha
    obtain ⟨_, hcase⟩ := arrive_ok ha
    rcases hcase with ⟨_, hep, _, _⟩ | ⟨hlt, hb, _, hep, rfl, _⟩
    · cases hep
    · injection hep with hep
      subst hep
      refine ⟨rfl, by omega, ?_, fun x => not_block_mem_releaseEffs _ _ _ x, ?_⟩
      · intro x
        rw [mem_releaseEffs]
        simp
      · intro x hx
        refine ⟨(I.w_hist x).1 hx, I.w_susp x hx, ?_, ?_⟩
        · rcases I.susp_cases _ (I.w_susp x hx) with ⟨_, _, h3⟩ | ⟨h1, _⟩
          · exact h3
          · simp only at h1; omega
        · rw [applyEffs_releaseEffs]
          simp [hx]
  · intro evs g' hs t e l hm
    have I' := barInv_step I hs
    have hlt := I'.ret_lt t e l (List.mem_append_left _ hm)
    have := (I'.cnt_old e hlt).1
    rw [this]
    unfold groupSize
    rw [if_neg (by omega)]
  · intro p hp hlt
    have hb : g.blocked p.1 = false := by
      rcases I.susp_cases p hp with ⟨h1, _, _⟩ | ⟨_, h2⟩
      · omega
      · exact h2
    exact ⟨hb, _, _, BarStep.resume (t := p.1) (ep := p.2) hp hb, _, List.mem_cons_self ..⟩

example : ∃ h g, BarReach 2 h g ∧ 1 ≤ 2 ∧ (∃ p ∈ g.susp, p.2 < g.s.epoch) ∧
    ∃ s' effs, g.s.arrive 1 [] (fun _ => []) = .ok (s', .blocked 2, effs) := by
  obtain ⟨g, hr, he, hs, _⟩ := exBarReach
  refine ⟨_, g, hr, by decide, ⟨(3, 1), by rw [hs]; simp, by rw [he]; decide⟩, ?_⟩
  have I := barReach_inv hr
  have hw : g.s.waiters = [] := by
    have := I.wlen
    have h2 : g.s.waiters.length = 0 ∨ g.s.waiters.length = 1 := by omega
    rcases h2 with h2 | h2
    · exact List.eq_nil_of_length_eq_zero h2
    · -- a waiter of the current generation would be suspended with epoch 2
      cases hw : g.s.waiters with
      | nil => rfl
      | cons x l =>
        have := I.w_susp x (by rw [hw]; simp)
        rw [hs, he] at this
        simp at this
  have := arrive_blocked_of g.s 1 [] (fun _ => []) (by rw [hw]; simp) (by rw [hw, I.bound]; decide)
  rw [he] at this
  exact ⟨_, _, this⟩

/-- **one_leader_per_generation.**  In every reachable state (any bound, any number of
generations): every completed generation has exactly one return with `is_leader = true` so far,
no other generation has any; the leader token is per epoch and is taken by the releasing arrival in
the same atomic step (there is no scheduling point between `leader_tokens.insert` and
`leader_tokens.remove`), so a return is a leader iff it is the return of the releasing arrival,
and between steps no token is ever left in the set. -/
theorem one_leader_per_generation {n : Nat} {h : List BarEv} {g : BarG} (hr : BarReach n h g) :
    (∀ e, e < g.s.epoch → leadCount e h = 1) ∧ (∀ e, g.s.epoch ≤ e → leadCount e h = 0) ∧
    (∀ evs g', BarStep g evs g' → ∀ t e l, BarEv.ret t e l ∈ evs →
        (l = true ↔ BarEv.arrive t e true ∈ evs)) ∧
    g.s.leaderTokens = [] := by
  have I := barReach_inv hr
  refine ⟨fun e he => (I.cnt_old e he).2, I.lead_zero, ?_, I.tokens⟩
  intro evs g' hs t e l hm
  cases hs with
  | arriveBlocked _ _ =>
    simp only [List.mem_singleton] at hm
    cases hm
  | @arriveRelease t' c clk s' ep effs _ ha =>
    obtain ⟨_, hcase⟩ := arrive_ok ha
    rcases hcase with ⟨_, hep, _, _⟩ | ⟨_, _, _, hep, _, rfl⟩
    · cases hep
    · injection hep with hep
      subst hep
      simp only [List.mem_cons, BarEv.ret.injEq, List.not_mem_nil, or_false] at hm
      rcases hm with ⟨rfl, rfl, rfl⟩ | hm
      · simp [BarrierState.takeLeader, I.tokens]
      · cases hm
  | @resume t' ep _ _ =>
    rw [takeLeader_no_tokens I.tokens] at hm
    simp only [List.mem_singleton, BarEv.ret.injEq] at hm
    obtain ⟨rfl, rfl, rfl⟩ := hm
    simp [takeLeader_no_tokens I.tokens]

example : ∃ h g, BarReach 2 h g ∧ leadCount 0 h = 1 ∧ leadCount 1 h = 1 ∧ leadCount 2 h = 0 :=
  let ⟨g, hr, _, _, _⟩ := exBarReach
  ⟨_, g, hr, by decide, by decide, by decide⟩

/-- **barrier_reuse_generations.**  A reused barrier: every completed generation consists of
exactly `n` arrivals (1 for the degenerate bounds 0 and 1) and has exactly one leader; the
current generation has fewer than that many arrivals, all registered as waiters; no later generation
has any. -/
theorem barrier_reuse_generations {n : Nat} {h : List BarEv} {g : BarG} (hr : BarReach n h g) :
    (∀ e, e < g.s.epoch → arrCount e h = groupSize n ∧ leadCount e h = 1) ∧
    (arrCount g.s.epoch h = g.s.waiters.length ∧ g.s.waiters.length < groupSize n) ∧
    (∀ e, g.s.epoch < e → arrCount e h = 0) := by
  have I := barReach_inv hr
  refine ⟨I.cnt_old, ⟨I.cnt_cur, ?_⟩, ?_⟩
  · have := I.wlen
    unfold groupSize
    split <;> omega
  · intro e he
    unfold arrCount
    rw [List.countP_eq_zero]
    intro ev hev
    cases ev with
    | arrive x e' b =>
      have := (I.arr_le x e' b hev).1
      simp; omega
    | ret x e' l => simp

example : ∃ h g, BarReach 2 h g ∧ 1 < g.s.epoch ∧ arrCount 0 h = 2 ∧ arrCount 1 h = 2 :=
  let ⟨g, hr, he, _, _⟩ := exBarReach
  ⟨_, g, hr, by rw [he]; decide, by decide, by decide⟩

theorem bar_small_no_susp {n : Nat} (hn : n ≤ 1) {h : List BarEv} {g : BarG} (hr : BarReach n h g) :
    g.susp = [] := by
  induction hr with
  | init => rfl
  | @step h g evs g' hr hs ih =>
    have I := barReach_inv hr
    cases hs with
    | arriveBlocked _ ha =>
      obtain ⟨_, hcase⟩ := arrive_ok ha
      rcases hcase with ⟨hlt, _, _, _⟩ | ⟨_, _, _, hep, _, _⟩
      · have := I.bound; omega
      · cases hep
    | arriveRelease _ _ => exact ih
    | resume hsu _ => rw [ih] at hsu; cases hsu

/-- **barrier_bound_zero_one.**  The bounds 0 and 1 exactly as the code behaves: nobody ever
blocks or is suspended; every `wait` (by any task, at any time) completes a generation of its
own at once — it releases only itself, returns `is_leader = true`, and advances the epoch. -/
theorem barrier_bound_zero_one {n : Nat} (hn : n ≤ 1) {h : List BarEv} {g : BarG} (hr : BarReach n h g) :
    g.susp = [] ∧ g.s.waiters = [] ∧
    ∀ t c clk, ∃ s' effs, g.s.arrive t c clk = .ok (s', .released g.s.epoch, effs) ∧
      (∀ x, Eff.unblock x ∈ effs ↔ x = t) ∧
      (s'.takeLeader g.s.epoch).2 = true ∧ (s'.takeLeader g.s.epoch).1.epoch = g.s.epoch + 1 ∧
      (s'.takeLeader g.s.epoch).1.waiters = [] := by
  have I := barReach_inv hr
  have hw : g.s.waiters = [] := by
    have := I.wlen
    exact List.eq_nil_of_length_eq_zero (by omega)
  refine ⟨bar_small_no_susp hn hr, hw, ?_⟩
  intro t c clk
  have hb := I.bound
  have := arrive_released_of g.s t c clk (by rw [hw]; simp) (by rw [hw, hb]; simp; omega)
    (by rw [hw, hb]; simp; omega) (by rw [I.tokens]; simp)
  refine ⟨_, _, this, ?_, ?_, ?_, ?_⟩
  · intro x; rw [mem_releaseEffs, hw]; simp
  · simp [BarrierState.takeLeader]
  · simp [BarrierState.takeLeader]
  · simp [BarrierState.takeLeader]

example : ∃ h g, BarReach 0 h g ∧ h = [.ret 1 1 true, .arrive 1 1 true, .ret 1 0 true, .arrive 1 0 true] :=
  ⟨_, _, barRun_reach .init (cmds := [.arrive 1 [1], .arrive 1 [2]]) rfl, rfl⟩
example : ∃ h g, BarReach 1 h g ∧ h = [.ret 2 1 true, .arrive 2 1 true, .ret 1 0 true, .arrive 1 0 true] :=
  ⟨_, _, barRun_reach .init (cmds := [.arrive 1 [1], .arrive 2 [0, 1]]) rfl, rfl⟩

end Barrier

/-! ## Once -/

section Once
open ShuttleModel.OnceState

/-- `1` and `2` race on a fresh cell, `2` wins the lock and runs its closure, `3` asks
`is_completed` in the middle (false), `2` completes and returns, `1` gets the lock, finds the flag
set, returns without running; a late `call_once` by `3` returns at once -/
theorem exOnceReach : ∃ g, OnceReach
    [.enter 3 true, .ret 1 false, .acquired 1 true, .ret 2 true, .initDone 2, .isCompleted 3 false,
     .acquired 2 false, .enter 2 false, .enter 1 false] g ∧ g.s.complete = some [0, 0, 1] ∧
    g.waiting = [] ∧ g.holder = none := by
  have r1 := OnceReach.step .init (OnceStep.enterRace (t := 1) (by simp [OnceG.busy, onceInit]) rfl)
  have r2 := OnceReach.step r1 (OnceStep.enterRace (t := 2) (by simp [OnceG.busy, onceInit]) rfl)
  have r3 := OnceReach.step r2 (OnceStep.acquire (t := 2) (by simp [onceInit]) rfl)
  have r4 := OnceReach.step r3 (OnceStep.isCompleted (t := 3))
  have r5 := OnceReach.step r4 (OnceStep.initDone (t := 2) (c := [0, 0, 1]) rfl)
  have r6 := OnceReach.step r5 (OnceStep.unlockDone (t := 2) rfl)
  have r7 := OnceReach.step r6 (OnceStep.acquire (t := 1) (by simp [onceInit]) rfl)
  have r8 := OnceReach.step r7 (OnceStep.unlockSkip (t := 1) rfl)
  have r9 := OnceReach.step r8 (OnceStep.enterDone (t := 3) (c := [0, 0, 1]) (by simp [OnceG.busy, onceInit]) rfl)
  exact ⟨_, r9, rfl, rfl, rfl⟩

/-- **exactly_one_initializer.**  Given mutual exclusion of the internal mutex (built into
`OnceStep.acquire`; property C04), in every reachable state of a `Once` under any number of racing
`call_once`: at most one caller has started its initializer in the whole execution; completion is
permanent; and once the cell is complete every later `call_once` skips the initializer — a new
call returns from its first segment, and a racer that already holds the `Rc<Mutex>` finds the flag
set when it gets the lock. -/
theorem exactly_one_initializer {h : List OnceEv} {g : OnceG} (hr : OnceReach h g) :
    initRuns h ≤ 1 ∧
    (∀ e g', OnceStep g e g' → g.s.complete.isSome = true → g'.s.complete.isSome = true) ∧
    (g.s.complete.isSome = true →
      (∀ t g', ¬ OnceStep g (.enter t false) g') ∧
      (∀ t f g', OnceStep g (.acquired t f) g' → f = true ∧ initRuns (.acquired t f :: h) = initRuns h)) := by
  have I := onceReach_inv hr
  refine ⟨?_, ?_, ?_⟩
  · rcases I.runs with ⟨h0, _⟩ | ⟨h1, _⟩ <;> omega
  · intro e g' hs hc
    have I' := onceInv_step I hs
    obtain ⟨t, ht⟩ := I.done_iff.1 hc
    exact I'.done_iff.2 ⟨t, List.mem_cons_of_mem _ ht⟩
  · intro hc
    constructor
    · intro t g' hs
      cases hs with
      | enterRace _ hn => simp only [enter_snd] at hn; rw [hn] at hc; cases hc
    · intro t f g' hs
      generalize hev : OnceEv.acquired t f = ev at hs
      cases hs with
      | acquire _ _ =>
        injection hev with _ hf
        have hfl : (g.s.flag != 0) = true := by simpa using I.flag_iff.2 hc
        rw [hfl] at hf
        subst hf
        exact ⟨rfl, by rw [initRuns_cons]; simp [hfl]⟩
      | _ => cases hev

example : ∃ h g, OnceReach h g ∧ initRuns h = 1 ∧ g.s.complete.isSome = true :=
  let ⟨g, hr, hc, _, _⟩ := exOnceReach
  ⟨_, g, hr, by decide, by rw [hc]; rfl⟩

/-- **call_once_returns_after_completion.**  Whatever the path (already complete at entry; lost the
race and found the flag set; ran the initializer itself), when a `call_once` returns the cell is
`Complete`, some caller's initializer has run to its end before that moment, and exactly one
initializer was ever started. -/
theorem call_once_returns_after_completion {h : List OnceEv} {g : OnceG} (hr : OnceReach h g)
    {e : OnceEv} {g' : OnceG} (hs : OnceStep g e g')
    (hret : (∃ t, e = .enter t true) ∨ (∃ t ran, e = .ret t ran)) :
    g'.s.complete.isSome = true ∧ (∃ t0, OnceEv.initDone t0 ∈ h) ∧ initRuns (e :: h) = 1 := by
  have I := onceReach_inv hr
  have I' := onceInv_step I hs
  have hc : g.s.complete.isSome = true := by
    cases hs with
    | enterDone _ hd => simp only [enter_snd] at hd; simp [hd]
    | enterRace _ _ => rcases hret with ⟨t, ht⟩ | ⟨t, r, ht⟩ <;> cases ht
    | acquire _ _ => rcases hret with ⟨t, ht⟩ | ⟨t, r, ht⟩ <;> cases ht
    | initDone _ => rcases hret with ⟨t, ht⟩ | ⟨t, r, ht⟩ <;> cases ht
    | unlockSkip hh => exact (I.phase _ _ hh).2 (by decide)
    | unlockDone hh => exact (I.phase _ _ hh).2 (by decide)
    | isCompleted => rcases hret with ⟨t, ht⟩ | ⟨t, r, ht⟩ <;> cases ht
  have hc' := (exactly_one_initializer hr).2.1 e g' hs hc
  refine ⟨hc', I.done_iff.1 hc, ?_⟩
  rcases I'.runs with ⟨_, h0, _⟩ | ⟨h1, _⟩
  · rw [h0] at hc'; cases hc'
  · exact h1

example : ∃ h g e g', OnceReach h g ∧ OnceStep g e g' ∧ ∃ t, e = .enter t true := by
  obtain ⟨g, hr, hc, hw, hh⟩ := exOnceReach
  exact ⟨_, g, _, _, hr, OnceStep.enterDone (t := 9) (c := [0, 0, 1])
    (by simp [OnceG.busy, hw, hh]) (by rw [enter_snd, hc]; exact rfl), 9, rfl⟩

/-- **is_completed_iff_complete.**  `is_completed()` answers `true` exactly when the cell is
`Complete`, i.e. exactly when some initializer has already run to its end; it never changes the
state. -/
theorem is_completed_iff_complete {h : List OnceEv} {g : OnceG} (hr : OnceReach h g) :
    (g.s.isCompleted.isSome = true ↔ ∃ t0, OnceEv.initDone t0 ∈ h) ∧
    (∀ t res g', OnceStep g (.isCompleted t res) g' →
        g' = g ∧ (res = true ↔ ∃ t0, OnceEv.initDone t0 ∈ h)) := by
  have I := onceReach_inv hr
  have h1 : g.s.isCompleted.isSome = true ↔ ∃ t0, OnceEv.initDone t0 ∈ h := I.done_iff
  refine ⟨h1, ?_⟩
  intro t res g' hs
  generalize hev : OnceEv.isCompleted t res = ev at hs
  cases hs with
  | isCompleted =>
    injection hev with _ hres
    subst hres
    exact ⟨rfl, h1⟩
  | _ => cases hev

example : ∃ h g, OnceReach h g ∧ ∃ t0, OnceEv.initDone t0 ∈ h :=
  let ⟨g, hr, _, _, _⟩ := exOnceReach
  ⟨_, g, hr, 2, by simp⟩

end Once

/-! ## park / unpark -/

section Park

/-- **token_is_boolean.**  Tokens do not accumulate: on a running, not parked task, two `unpark`s
followed by two `park`s — the first `park` consumes the token and does not block, the second one
blocks (spuriously wakeable) and marks the task parked. -/
theorem token_is_boolean (t : Task) (hr : t.state = .runnable) (hb : t.blockedInPark = false) :
    ∃ t1 t2 t3 t4, t.unpark = .ok t1 ∧ t1.unpark = .ok t2 ∧ t2.park = .ok (false, t3) ∧
      t3.park = .ok (true, t4) ∧ t2.tokenAvail = true ∧ t3.tokenAvail = false ∧
      t4.state = .blocked true ∧ t4.blockedInPark = true ∧ t4.tokenAvail = false := by
  refine ⟨{ t with tokenAvail := true }, { t with tokenAvail := true }, { t with tokenAvail := false },
    { t with tokenAvail := false, blockedInPark := true, state := .blocked true }, ?_, ?_, ?_, ?_, rfl, rfl, rfl, rfl, rfl⟩
  · simp [Task.unpark, hb]
  · simp [Task.unpark, hb]
  · simp [Task.park, Task.isBlocked, hb, hr]
  · simp [Task.park, Task.isBlocked, Task.block, Task.finished, hb, hr]

example : ∃ t : Task, t.state = .runnable ∧ t.blockedInPark = false := ⟨{}, rfl, rfl⟩

/-- **park_consumes_or_blocks.**  `park` on the running, not parked task: a pending token is
consumed and the call does not block; without a token the task becomes parked and blocked with
`allow_spurious_wakeups = true` (so the scheduler may wake it spuriously). -/
theorem park_consumes_or_blocks (t : Task) (hr : t.state = .runnable) (hb : t.blockedInPark = false) :
    (t.tokenAvail = true → t.park = .ok (false, { t with tokenAvail := false })) ∧
    (t.tokenAvail = false →
      t.park = .ok (true, { t with blockedInPark := true, state := .blocked true }) ∧
      ({ t with blockedInPark := true, state := .blocked true } : Task).canSpuriouslyWakeup = true) := by
  constructor
  · intro ht
    simp [Task.park, Task.isBlocked, hb, hr, ht]
  · intro ht
    refine ⟨?_, rfl⟩
    simp [Task.park, Task.isBlocked, Task.block, Task.finished, hb, hr, ht]

example : ∃ t : Task, t.state = .runnable ∧ t.blockedInPark = false ∧ t.tokenAvail = true :=
  ⟨{ tokenAvail := true }, rfl, rfl, rfl⟩

/-- **unpark_unblocks_or_sets_token.**  `unpark` of a parked task (which, by `park_invariant`, is
blocked-spuriously-wakeable and has no token) makes it runnable and not parked — the wake-up is
never lost; `unpark` of a task that is not parked sets the (boolean) token. -/
theorem unpark_unblocks_or_sets_token (t : Task) :
    (t.blockedInPark = true → t.state = .blocked true → t.tokenAvail = false →
      t.unpark = .ok { t with state := .runnable, blockedInPark := false }) ∧
    (t.blockedInPark = false → t.unpark = .ok { t with tokenAvail := true }) := by
  constructor
  · intro hb hs ht
    simp [Task.unpark, Task.isBlocked, Task.canSpuriouslyWakeup, Task.unblock, Task.finished, hb, hs, ht]
  · intro hb
    simp [Task.unpark, hb]

/-- **blocked_in_park_cleared_on_any_unblock.**  Every `Task::unblock` — by `unpark`, by another
primitive, or by the scheduler's spurious wake-up, which calls the same function — clears
`blocked_in_park` and makes the task runnable; `wake` of a sleeping task does so too. -/
theorem blocked_in_park_cleared_on_any_unblock (t t' : Task) :
    (t.unblock = .ok t' → t'.blockedInPark = false ∧ t'.state = .runnable ∧ t'.tokenAvail = t.tokenAvail) ∧
    (t.sleeping = true → t.wake = .ok t' → t'.blockedInPark = false ∧ t'.state = .runnable) := by
  constructor
  · intro h
    simp only [Task.unblock] at h
    split at h
    · cases h
    · simp only [Except.ok.injEq] at h; subst h; exact ⟨rfl, rfl, rfl⟩
  · intro hs h
    simp only [Task.wake, Task.unblock] at h
    have : ({ t with woken := true } : Task).sleeping = true := hs
    rw [if_pos this] at h
    split at h
    · cases h
    · simp only [Except.ok.injEq] at h; subst h; exact ⟨rfl, rfl⟩

example : ∃ t t' : Task, t.blockedInPark = true ∧ t.unblock = .ok t' :=
  ⟨{ blockedInPark := true, state := .blocked true }, _, rfl, rfl⟩

/-- **park_invariant.**  Over all sequences of operations on a task (its own `park` / `block` /
`sleep_unless_woken` / `finish` while it runs; `unpark`, `unblock`, `wake`, external `block(false)`
at any time): never `token_available ∧ blocked_in_park`; and, as long as no *external* `block(false)`
hits it (the model only issues that for condvar / semaphore waiters), a parked task is blocked with
spurious wake-ups allowed and has no token — so the next `unpark` succeeds and makes it runnable. -/
theorem park_invariant {ops : List TaskOp} {t : Task} (hr : TReach ops t) :
    ¬ (t.tokenAvail = true ∧ t.blockedInPark = true) ∧
    (TaskOp.blockExt ∉ ops → t.blockedInPark = true →
      t.state = .blocked true ∧ t.tokenAvail = false ∧
      t.unpark = .ok { t with state := .runnable, blockedInPark := false }) := by
  have h1 := treach_tokenInv hr
  refine ⟨h1, ?_⟩
  intro hno hb
  have hs := treach_parkedInv hr hno hb
  have ht : t.tokenAvail = false := by
    cases hx : t.tokenAvail with
    | false => rfl
    | true => exact absurd ⟨hx, hb⟩ h1
  exact ⟨hs, ht, (unpark_unblocks_or_sets_token t).1 hb hs ht⟩

example : ∃ ops t, TReach ops t ∧ TaskOp.blockExt ∉ ops ∧ t.blockedInPark = true :=
  ⟨[.park, .park, .unpark, .unpark], { blockedInPark := true, state := .blocked true },
    TReach.step (t := { tokenAvail := false }) (op := .park)
      (TReach.step (t := { tokenAvail := true }) (op := .park)
        (TReach.step (t := { tokenAvail := true }) (op := .unpark)
          (TReach.step (t := {}) (op := .unpark) .init ⟨rfl, by decide⟩) ⟨rfl, by decide⟩)
        ⟨rfl, fun _ => rfl⟩)
      ⟨rfl, fun _ => rfl⟩,
    by decide, rfl⟩

end Park

end ShuttleProofs.C05
