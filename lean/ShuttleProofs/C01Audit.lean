import ShuttleProofs.C01
open ShuttleProofs.C01 ShuttleProofs.Replay
#print axioms execute_follows
#print axioms replay_follows
#print axioms replay_faithful_core
#print axioms replay_faithful
#print axioms replay_exhausts_schedule
#print axioms recorded_wf
#print axioms replay_from_string
#print axioms replay_from_string_ws
#print axioms replay_from_string_ws_insert
#print axioms replay_entry_point
#print axioms builtin_data_faithful
#print axioms builtin_data_faithful_exec
