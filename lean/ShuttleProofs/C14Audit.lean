import ShuttleProofs.C14
/-! `#print axioms` for every property theorem of C14. -/
open ShuttleProofs

#print axioms C14.fresh_world
#print axioms C14.runner_iteration_eq_standalone
#print axioms C14.runner_is_chain
#print axioms C14.runner_suffix_eq_fresh_run
#print axioms C14.every_execution_starts_fresh
#print axioms C14.pool_only_reusable
#print axioms C14.once_and_lazy_per_execution
