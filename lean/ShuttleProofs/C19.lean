import ShuttleProofs.Lemmas.TokioMpsc
import ShuttleProofs.Lemmas.TokioNotify
/-
  C19 — the tokio-compatible primitives of `wrappers/tokio` (models:
  `ShuttleModel/Wrap/Tokio{Base,Mpsc,Oneshot,Notify,Watch,Locks}.lean`).

  "Under Shuttle the tokio replacements behave as tokio documents: mpsc channels deliver each sent
   value exactly once in order, bounded ones never exceed capacity and give a slot back for every
   value received by any receive method, and closing or dropping either side is observed as tokio
   specifies; oneshot delivers at most one value; watch receivers always see the latest value and
   are notified of every change after their last look. Notify stores at most one permit, wakes
   exactly one registered waiter per notify_one and all current waiters per notify_waiters, and
   never loses a notification; Mutex, RwLock and Semaphore give exclusion, permit conservation and
   FIFO fairness; task spawning, JoinHandle and abort behave as in C17. None of these operations
   makes a correct tokio program deadlock or panic under Shuttle."

  Every statement is about ALL op histories of a most-general client over the PURE transitions
  (`Lemmas/TokioMpsc.lean`: `MpscLts.Reach`; `Lemmas/TokioNotify.lean`: `NotifyLts.Reach`,
  `OReach`; the semaphore layer is C18's `SemLts`).

  Two clauses of the property are FALSE on the pinned tree; their full statements are refuted by
  machine-checked witnesses and the true parts are proved as `…_partial`:
  * F4  — `blocking_recv` does not give the slot back (`tmpsc_slot_returned_on_every_receive`);
          the full statement IS a theorem for the repaired code (`fixedF4 := true`);
  * F14 — a `notify_one` delivered to a `Notified` that is dropped unpolled is not passed on
          (`notify_never_lost`).
  A third deviation is recorded by C18 (`C18.try_acquire_zero_panics`): `acquire_many(0)`, legal in
  tokio, panics.
-/
namespace ShuttleModel
namespace C19
open Tokio Tokio.MpscLts Tokio.NotifyLts SemLts

/-! ## mpsc -/

theorem reach_inv {fx : Bool} {b : Nat} {c : Clock} {m : M} {ops : List MOp}
    (h : MpscLts.Reach fx (some b) c m ops) : MInv b m := by
  induction h with
  | init =>
    refine ⟨rfl, Inv.new b true c, ?_, fun _ => rfl⟩
    simp [TMpsc.new, SemState.new]
  | step _ hs ih => exact mstep_inv ih hs

/-- exactly once, in order: while the receiver is alive, what was received followed by what is
buffered is exactly what was pushed (nothing lost, duplicated or reordered) -/
theorem tmpsc_fifo_exactly_once {fx : Bool} {b : Nat} {c : Clock} {m : M} {ops : List MOp}
    (h : MpscLts.Reach fx (some b) c m ops) (hd : m.discarded = []) :
    m.popped ++ m.s.messages = m.pushed :=
  (reach_inv h).hist hd

/-- `send_sem.avail + (permits granted to queued senders) + len + reserved + owed + leaked = bound`:
the buffer never exceeds the bound, and `Channel::send`'s `assert!(len < bound)` never fires for a
sender holding a permit -/
theorem tmpsc_capacity {fx : Bool} {b : Nat} {c : Clock} {m : M} {ops : List MOp}
    (h : MpscLts.Reach fx (some b) c m ops) :
    m.s.sendSem.avail + pend m.s.sendSem.table + m.s.messages.length + m.reserved + m.owed + m.leaked = b ∧
    m.s.messages.length ≤ b ∧ (0 < m.reserved → m.s.messages.length < b) := by
  have hi := (reach_inv h).balance
  exact ⟨hi, by omega, by omega⟩

/-- no `blocking_recv` pop in the history -/
def noBlockingPop (ops : List MOp) : Bool :=
  ops.all (fun o => match o with | .pop .blockingRecv => false | _ => true)

/-- the receiver was not dropped (`drop_receiver` discards the buffer) -/
def noTake (ops : List MOp) : Bool :=
  ops.all (fun o => match o with | .takeMessages => false | _ => true)

/-- `leaked` only grows by a `blocking_recv` pop of the unrepaired code or by `takeMessages` -/
theorem leaked_step {fx : Bool} {fin : Nat → Bool} {m m' : M} {op : MOp} (hs : mstep fx fin m op = some m') :
    m'.leaked = m.leaked ∨ op = .takeMessages ∨ (op = .pop .blockingRecv ∧ fx = false) := by
  cases op with
  | pop kind =>
    simp only [mstep] at hs
    split at hs
    · cases hs
    · cases kind with
      | blockingRecv =>
        cases fx with
        | true => simp only [returnsSlot, if_true] at hs; cases hs; exact Or.inl rfl
        | false => exact Or.inr (Or.inr ⟨rfl, rfl⟩)
      | recv => simp only [returnsSlot, if_true] at hs; cases hs; exact Or.inl rfl
      | tryRecv => simp only [returnsSlot, if_true] at hs; cases hs; exact Or.inl rfl
  | takeMessages => exact Or.inr (Or.inl rfl)
  | sendSem o =>
    simp only [mstep] at hs
    split at hs
    · split at hs
      · cases hs; exact Or.inl rfl
      · cases hs
    · cases hs
  | unreserve t n k =>
    simp only [mstep] at hs
    split at hs
    · split at hs
      · cases hs; exact Or.inl rfl
      · cases hs
    · cases hs
  | push v =>
    simp only [mstep] at hs
    split at hs
    · cases hs
    · split at hs
      · cases hs; exact Or.inl rfl
      · cases hs; exact Or.inl rfl
      · cases hs
  | recvSem o =>
    simp only [mstep] at hs
    split at hs
    · cases hs; exact Or.inl rfl
    · cases hs
  | giveSlot t k =>
    simp only [mstep] at hs
    split at hs
    · split at hs
      · cases hs; exact Or.inl rfl
      · cases hs
    · cases hs
  | cloneSender => simp only [mstep] at hs; cases hs; exact Or.inl rfl
  | dropSender =>
    simp only [mstep] at hs
    split at hs
    · cases hs; exact Or.inl rfl
    · cases hs

theorem leaked_zero {fx : Bool} {b : Nat} {c : Clock} {m : M} {ops : List MOp}
    (h : MpscLts.Reach fx (some b) c m ops) (hnt : noTake ops = true)
    (hnb : fx = true ∨ noBlockingPop ops = true) : m.leaked = 0 := by
  induction h with
  | init => rfl
  | @step m m' ops fin op hr hs ih =>
    simp only [noTake, List.all_cons, Bool.and_eq_true] at hnt
    have hnb' : fx = true ∨ noBlockingPop ops = true := by
      rcases hnb with h | h
      · exact Or.inl h
      · simp only [noBlockingPop, List.all_cons, Bool.and_eq_true] at h
        exact Or.inr h.2
    have ih' := ih hnt.2 hnb'
    rcases leaked_step hs with h | h | h
    · rw [h]; exact ih'
    · subst h; simp at hnt
    · rcases h with ⟨h1, h2⟩
      subst h1
      rcases hnb with h | h
      · rw [h2] at h; cases h
      · simp [noBlockingPop] at h

/-- FULL statement (a slot is given back for every value received by ANY receive method): while the
receiver is alive, every slot is available, granted to a queued sender, occupied by a buffered
message, reserved by a sender about to push, or about to be released by a receive in progress —
none is lost.  It holds for the REPAIRED `blocking_recv`: -/
theorem tmpsc_slot_returned_on_every_receive_fixed {b : Nat} {c : Clock} {m : M} {ops : List MOp}
    (h : MpscLts.Reach true (some b) c m ops) (hnt : noTake ops = true) :
    m.s.sendSem.avail + pend m.s.sendSem.table + m.s.messages.length + m.reserved + m.owed = b := by
  have := (tmpsc_capacity h).1
  have hl := leaked_zero h hnt (Or.inl rfl)
  omega

/-- … and for the tree as it is as long as the values are received by `recv` / `try_recv` -/
theorem tmpsc_slot_returned_on_every_receive_partial {b : Nat} {c : Clock} {m : M} {ops : List MOp}
    (h : MpscLts.Reach false (some b) c m ops) (hnt : noTake ops = true)
    (hnb : noBlockingPop ops = true) :
    m.s.sendSem.avail + pend m.s.sendSem.table + m.s.messages.length + m.reserved + m.owed = b := by
  have := (tmpsc_capacity h).1
  have hl := leaked_zero h hnt (Or.inr hnb)
  omega

/-- the F4 run: `channel(1)`; `try_send(7)` (= acquire a send permit, push); `blocking_recv()` -/
def f4Ops : List MOp := [.sendSem (.tryAcquire 0 1 []), .push 7, .pop .blockingRecv]

def runM (fx : Bool) (m : M) : List MOp → Option M
  | [] => some m
  | op :: ops => match mstep fx (fun _ => false) m op with
    | some m' => runM fx m' ops
    | none => none

theorem runM_reach {fx : Bool} {bound : Option Nat} {c : Clock} {m m' : M} {done : List MOp}
    (hr : MpscLts.Reach fx bound c m done) : ∀ {ops : List MOp}, runM fx m ops = some m' →
    MpscLts.Reach fx bound c m' (ops.reverse ++ done) := by
  intro ops
  induction ops generalizing m done with
  | nil => intro h; simp only [runM] at h; cases h; simpa using hr
  | cons op ops ih =>
    intro h
    simp only [runM] at h
    cases hs : mstep fx (fun _ => false) m op with
    | none => rw [hs] at h; cases h
    | some m1 =>
      rw [hs] at h
      have := ih (MpscLts.Reach.step hr hs) h
      simpa using this

/-- the FULL statement is FALSE on the tree (F4): after `try_send; blocking_recv` on `channel(1)` the
channel is empty, nobody holds or owes a permit, and yet `capacity()` is 0 — the next `send` waits
forever -/
theorem f4_run :
    (runM false { s := TMpsc.new (some 1) [] } f4Ops).map (fun m =>
      (m.s.messages, m.reserved, m.owed, pend m.s.sendSem.table, m.s.sendSem.avail, m.popped)) =
    some ([], 0, 0, 0, 0, [7]) := by decide

theorem tmpsc_slot_returned_on_every_receive_false :
    ∃ (m : M) (ops : List MOp), MpscLts.Reach false (some 1) [] m ops ∧ noTake ops = true ∧
      m.s.messages = [] ∧ m.reserved = 0 ∧ m.owed = 0 ∧ pend m.s.sendSem.table = 0 ∧
      m.s.sendSem.avail = 0 ∧ m.popped = [7] := by
  have hf := f4_run
  cases hrun : runM false { s := TMpsc.new (some 1) [] } f4Ops with
  | none => rw [hrun] at hf; cases hf
  | some m =>
    rw [hrun] at hf
    simp only [Option.map_some, Option.some.injEq, Prod.mk.injEq] at hf
    exact ⟨m, _, runM_reach MpscLts.Reach.init hrun, by decide, hf.1, hf.2.1, hf.2.2.1, hf.2.2.2.1,
      hf.2.2.2.2.1, hf.2.2.2.2.2⟩

/-- the same run with the repaired code leaves the slot owed, and the `release(1)` gives it back -/
example : (runM true { s := TMpsc.new (some 1) [] } (f4Ops ++ [.giveSlot 0 []])).map
    (fun m => (m.s.sendSem.avail, m.owed, m.leaked)) = some (1, 0, 0) := by decide

/-! ## oneshot -/

/-- at most one value is ever delivered, and it is the value that was sent -/
theorem oneshot_at_most_one {o : OS} (h : OReach o) :
    o.delivered.length ≤ 1 ∧ (∀ v ∈ o.delivered, v ∈ o.sent) ∧ o.sent.length ≤ 1 := by
  have hi := oreach_inv h
  have hl : (o.delivered ++ o.core.data.toList).length ≤ 1 := by rw [hi.acct]; exact hi.one
  refine ⟨by simp at hl; omega, ?_, hi.one⟩
  intro v hv
  rw [← hi.acct]
  exact List.mem_append_left _ hv

example : ∃ o, OReach o ∧ o.delivered = [5] :=
  ⟨_, OReach.step (OReach.step OReach.init (op := .send 5) rfl) (op := .recv 1) rfl, rfl⟩

/-! ## watch -/

/-- `changed()` reports a change exactly when the value was stored since the receiver's last look:
if the receiver's version is the channel's version of `k` stores ago, `maybe_changed` answers
`Ok` iff `k > 0`, and afterwards the receiver is up to date; `borrow` reads the value of the last
store -/
theorem watch_latest_and_notified (w : TWatch) (vals : List Nat) :
    let w' := vals.foldl TWatch.store w
    (w'.value = vals.getLast?.getD w.value) ∧
    (w'.version = w.version + 2 * vals.length) ∧
    ((w'.maybeChanged w.version).1 = some .ok ↔ vals ≠ []) ∧
    (vals ≠ [] → (w'.maybeChanged w.version).2 = w'.version) := by
  have key : ∀ (vals : List Nat) (w : TWatch),
      (vals.foldl TWatch.store w).value = vals.getLast?.getD w.value ∧
      (vals.foldl TWatch.store w).version = w.version + 2 * vals.length := by
    intro vals
    induction vals with
    | nil => intro w; simp
    | cons v vs ih =>
      intro w
      have h1 := ih (w.store v)
      simp only [List.foldl_cons]
      refine ⟨?_, ?_⟩
      · rw [h1.1]
        cases vs with
        | nil => simp [TWatch.store]
        | cons a as =>
          cases hl : (a :: as).getLast? with
          | none => simp at hl
          | some x => simp [List.getLast?_cons_cons, hl]
      · rw [h1.2]
        simp only [TWatch.version, TWatch.store, List.length_cons]
        omega
  have hk := key vals w
  refine ⟨hk.1, hk.2, ?_, ?_⟩
  · simp only [TWatch.maybeChanged]
    constructor
    · intro h hv
      subst hv
      simp only [List.foldl_nil, bne_self_eq_false, Bool.false_eq_true, if_false] at h
      by_cases hc : w.closed = true <;> simp [hc] at h
    · intro hv
      have : vals.length > 0 := List.length_pos_iff.mpr hv
      have hne : w.version ≠ (vals.foldl TWatch.store w).version := by rw [hk.2]; omega
      simp [hne]
  · intro hv
    have : vals.length > 0 := List.length_pos_iff.mpr hv
    have hne : w.version ≠ (vals.foldl TWatch.store w).version := by rw [hk.2]; omega
    simp [TWatch.maybeChanged, hne]

example : ((TWatch.new 0 1 []).store 4).value = 4 ∧
    (((TWatch.new 0 1 []).store 4).maybeChanged 0).1 = some .ok := by decide

/-! ## Notify -/

/-- the permit store holds at most one permit: however many `notify_one` calls found no enabled
waiter, they leave the state one of them leaves, and of two waiters that register afterwards only
the first one takes a permit -/
theorem notify_at_most_one_permit (s : TNotify) (a b : Nat) :
    s.notifyOneNone.notifyOneNone = s.notifyOneNone ∧
    ((s.pollInner a).1 = .consumed → ((s.pollInner a).2.pollInner b).1 ≠ .consumed) :=
  ⟨rfl, fun h => pollInner_of_not_pending (pollInner_consumed_pending h)⟩

/-- `notify_one` changes the flag of at most one waiter (the drawn one, which becomes NOTIFIED);
when nobody is enabled it changes none -/
theorem notify_one_wakes_at_most_one (s : TNotify) (id j : Nat) (hj : j ≠ id) :
    (s.notifyOneTake id).flagOf j = s.flagOf j ∧ s.notifyOneNone.flagOf j = s.flagOf j ∧
    (HasCell s id → (s.notifyOneTake id).flagOf id = flagNotified) := by
  refine ⟨?_, rfl, ?_⟩
  · unfold TNotify.notifyOneTake
    rw [flagOf_setFlag_ne _ id j _ hj]
    rfl
  · intro hc
    unfold TNotify.notifyOneTake
    exact flagOf_setFlag_eq _ id _ hc

/-- `notify_waiters` flags ALL current waiters (enabled or not), empties the queue and clears the
stored permit -/
theorem notify_waiters_wakes_all_current (s : TNotify) (hc : ∀ id ∈ s.waiters, HasCell s id) :
    s.notifyWaitersTake.1 = s.waiters ∧ s.notifyWaitersTake.2.waiters = [] ∧
    s.notifyWaitersTake.2.pending = false ∧
    ∀ id ∈ s.waiters, s.notifyWaitersTake.2.flagOf id = flagNotified := by
  unfold TNotify.notifyWaitersTake
  refine ⟨rfl, ?_, ?_, ?_⟩
  · exact (foldl_setFlag_pw s.waiters _).2
  · exact (foldl_setFlag_pw s.waiters _).1
  · intro id hid
    exact (foldl_setFlag_flag s.waiters { s with waiters := [], pending := false } id (hc id hid)).2 (Or.inl hid)

/-- the F14 run: two registered, enabled waiters; `notify_one` draws waiter 0; waiter 0 is dropped
without having been polled -/
def f14Ops : List NOp := [.notified, .notified, .pollInner 0, .pollInner 1, .notifyOne 0, .drop 0]

/-- FULL statement ("never loses a notification": when a `Notified` that received a `notify_one` is
dropped before it observed it, the notification is passed on to another enabled waiter or kept as
the stored permit) is FALSE (F14): after the run waiter 1 is still registered and ENABLED, no permit
is stored — the `notify_one` is gone and `notified().await` of waiter 1 never completes -/
theorem notify_never_lost_false :
    ∃ s, NotifyLts.Reach s ∧ s.waiters = [1] ∧ s.flagOf 1 = flagEnabled ∧ s.pending = false ∧
      s.flagOf 0 = flagNotified := by
  cases hrun : run {} f14Ops with
  | none => exact absurd hrun (by decide)
  | some s =>
    refine ⟨s, run_reach NotifyLts.Reach.init hrun, ?_⟩
    revert hrun
    decide +revert

/-- the true part: a notification is never lost for a waiter that is eventually polled — once
`notify_one` (or `notify_waiters`) flagged waiter `id`, no operation other than dropping `id`
itself takes the flag away, so its next `poll` / `enable` is ready -/
theorem notify_never_lost_partial {s s' : TNotify} {op : NOp} {id : Nat}
    (hid : id < s.nextId) (hcells : ∀ c ∈ s.cells, c.id < s.nextId)
    (hf : s.flagOf id = flagNotified) (hs : nstep s op = some s') (hop : op ≠ .drop id) :
    s'.flagOf id = flagNotified ∧ (s'.pollInner id).1 = .ready := by
  have key : s'.flagOf id = flagNotified := by
    cases op with
    | notified =>
      simp only [nstep] at hs; cases hs
      simp only [TNotify.notified, TNotify.flagOf, TNotify.cell]
      rw [List.find?_append]
      cases hfind : s.cells.find? (·.id == id) with
      | some c => simpa [TNotify.flagOf, TNotify.cell, hfind] using hf
      | none =>
        have : (s.nextId == id) = false := by simpa using (by omega : s.nextId ≠ id)
        simp only [Option.none_or, List.find?_cons, this, List.find?_nil]
        simpa [TNotify.flagOf, TNotify.cell, hfind] using hf
    | pollInner j =>
      have := nstep_pollInner hs
      subst this
      by_cases hj : j = id
      · subst hj; rw [pollInner_self_notified hf]; exact hf
      · rw [pollInner_flag_other s j id hj]; exact hf
    | notifyOne idx =>
      simp only [nstep] at hs
      split at hs
      · cases hs; exact hf
      · split at hs
        · rename_i j _
          cases hs
          by_cases hj : j = id
          · subst hj
            unfold TNotify.notifyOneTake
            by_cases hc : HasCell { s with waiters := s.waiters.erase j, pending := false } j
            · exact flagOf_setFlag_eq _ j _ hc
            · -- no cell: the default cell is unchanged by `setFlag`
              unfold HasCell at hc
              simp only [not_exists] at hc
              have hn : s.cells.find? (·.id == j) = none := by
                cases h : s.cells.find? (·.id == j) with
                | none => rfl
                | some c => exact absurd h (hc c)
              simp [TNotify.flagOf, TNotify.cell, hn, flagNotified, flagInit] at hf
          · unfold TNotify.notifyOneTake
            rw [flagOf_setFlag_ne _ j id _ (Ne.symm hj)]
            exact hf
        · cases hs
    | notifyWaiters =>
      simp only [nstep] at hs; cases hs
      unfold TNotify.notifyWaitersTake
      have hc : HasCell { s with waiters := [], pending := false } id := by
        unfold HasCell
        cases h : s.cells.find? (·.id == id) with
        | some c => exact ⟨c, rfl⟩
        | none => simp [TNotify.flagOf, TNotify.cell, h, flagNotified, flagInit] at hf
      exact (foldl_setFlag_flag s.waiters _ id hc).2 (Or.inr hf)
    | drop j =>
      have hj : j ≠ id := fun h => hop (by rw [h])
      simp only [nstep] at hs
      split at hs
      · rename_i s1 effs hd
        cases hs
        rw [dropNotified_flag_other hj hd]; exact hf
      · cases hs
  exact ⟨key, by rw [pollInner_self_notified key]⟩

/-! ## Mutex, RwLock, Semaphore: corollaries of C18 -/

/-- the three locks are one strictly fair `BatchSemaphore` each (`TMutex.new`, `TRwLock.new`,
`TSem.new`), so C18 applies verbatim -/
theorem locks_are_fair_semaphores (v n maxr : Nat) (c : Clock) :
    Initial 1 (TMutex.new v c).sem ∧ (TMutex.new v c).sem.fair = true ∧
    Initial maxr (TRwLock.new v maxr c).sem ∧ (TRwLock.new v maxr c).sem.fair = true ∧
    Initial n (TSem.new n c).sem ∧ (TSem.new n c).sem.fair = true :=
  ⟨Or.inl ⟨true, c, rfl⟩, rfl, Or.inl ⟨true, c, rfl⟩, rfl, Or.inl ⟨true, c, rfl⟩, rfl⟩

/-- permit conservation (`C18.conservation`) for a client that only gives back what it holds:
the permits held never exceed the initial ones — for the `Mutex` (1 permit) at most one guard
exists, for the `RwLock` a writer (all `maxr` permits) excludes every other guard -/
theorem tokio_locks_exclusion {n : Nat} {s0 : SemState} (h0 : Initial n s0) {g : G} (hr : SemLts.Reach s0 g)
    (hdisc : g.added = 0) :
    heldSum g.held ≤ n ∧
    (∀ t, (t, n) ∈ g.held → 0 < n → ∀ t' k, (t', k) ∈ g.held → 0 < k → (t', k) = (t, n) ∨ False ∨
      heldSum g.held ≥ n + k) := by
  have hcons := C18.conservation h0 hr
  refine ⟨by omega, ?_⟩
  intro t ht hn t' k hk hk0
  by_cases he : (t', k) = (t, n)
  · exact Or.inl he
  · right; right
    -- two distinct entries of a list contribute both their permits
    have : ∀ (l : List (Nat × Nat)), (t, n) ∈ l → (t', k) ∈ l → (t', k) ≠ (t, n) → heldSum l ≥ n + k := by
      intro l
      induction l with
      | nil => intro h; cases h
      | cons x xs ih =>
        intro h1 h2 hne
        obtain ⟨a, m⟩ := x
        simp only [heldSum]
        have mem_le : ∀ (l : List (Nat × Nat)) p q, (p, q) ∈ l → heldSum l ≥ q := by
          intro l
          induction l with
          | nil => intro p q h; cases h
          | cons y ys ihy =>
            intro p q h
            obtain ⟨a', m'⟩ := y
            simp only [heldSum]
            rcases List.mem_cons.mp h with h | h
            · cases h; omega
            · have := ihy p q h; omega
        rcases List.mem_cons.mp h1 with e1 | m1 <;> rcases List.mem_cons.mp h2 with e2 | m2
        · exact absurd (e2.trans e1.symm) hne
        · cases e1; have := mem_le xs _ _ m2; omega
        · cases e2; have := mem_le xs _ _ m1; omega
        · have := ih m1 m2 hne; omega
    exact this g.held ht hk he

/-- so two guards of a tokio `Mutex` never coexist -/
theorem tokio_mutex_exclusion {s0 : SemState} (h0 : Initial 1 s0) {g : G} (hr : SemLts.Reach s0 g)
    (hdisc : g.added = 0) (t t' : Nat) (h1 : (t, 1) ∈ g.held) (h2 : (t', 1) ∈ g.held) :
    (t', 1) = (t, 1) ∨ heldSum g.held ≥ 2 := by
  rcases (tokio_locks_exclusion h0 hr hdisc).2 t h1 (by omega) t' 1 h2 (by omega) with h | h | h
  · exact Or.inl h
  · exact absurd h id
  · exact Or.inr h

/-- FIFO fairness of `Mutex::lock`, `RwLock::read/write`, `Semaphore::acquire*`: C18's `fair_fifo`
— while somebody is queued neither `try_*` nor a fresh acquire succeeds, and a release serves a
prefix of the queue in arrival order -/
theorem tokio_locks_fifo {n : Nat} {s0 : SemState} (h0 : Initial n s0) {g : G} (hr : SemLts.Reach s0 g)
    (fin : Nat → Bool) (hf : g.s.fair = true) (hq : g.s.queue ≠ []) :
    (∀ task k c o, step fin g.s (.tryAcquire task k c) = .ok o → o.out ≠ .tried (.ok ())) ∧
    (∀ task k c o, stepPollNew fin g.s task k c = .ok o → o.out ≠ .polled (.ready true)) :=
  let h := (C18.fair_fifo h0 hr fin).2.1 hf hq
  ⟨h.1, h.2.1⟩

end C19
end ShuttleModel
