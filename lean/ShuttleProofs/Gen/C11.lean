import ShuttleModel.Generated
import ShuttleModel.Sched.Pct
/-! The constant re-extracted from /repo on this run equals the one the PCT model uses. -/
namespace ShuttleProofs.Gen
open ShuttleModel
theorem default_inline_tasks_eq : Generated.DEFAULT_INLINE_TASKS = Pct.DEFAULT_INLINE_TASKS := by decide
end ShuttleProofs.Gen
