import ShuttleModel.Generated
import ShuttleModel.Serialize
/-! Constants re-extracted from /repo on this run equal the ones the C16 model and theorems use.
A changed constant in the Rust source breaks these proofs (and with them the check). -/
namespace ShuttleProofs.Gen
open ShuttleModel

theorem schedule_magic_eq : Generated.SCHEDULE_MAGIC_V2 = SCHEDULE_MAGIC_V2 := by decide
theorem line_width_eq : Generated.LINE_WIDTH = LINE_WIDTH := by decide

end ShuttleProofs.Gen
