import ShuttleModel
/-
  `shuttle_model` — line-protocol driver for the executable model.
    shuttle_model codec <cases.txt>            C16 wire format (same protocol as `vh codec`)
    shuttle_model selftest                     RNG / SipHash test vectors
-/
open ShuttleModel

def pctDecode (s : String) : String :=
  let rec go (cs : List Char) (acc : ByteArray) (fuel : Nat) : ByteArray :=
    match fuel with
    | 0 => acc
    | fuel + 1 =>
      match cs with
      | [] => acc
      | '%' :: a :: b :: rest =>
        match hexVal a, hexVal b with
        | some x, some y => go rest (acc.push (UInt8.ofNat (x * 16 + y))) fuel
        | _, _ => go (a :: b :: rest) (acc.push 37) fuel
      | c :: rest => go rest (c.toString.toUTF8.foldl (fun a b => a.push b) acc) fuel
  let bytes := go s.toList ByteArray.empty (s.length + 1)
  match String.fromUTF8? bytes with
  | some str => str
  | none => "�"

def parseSteps (s : String) : Option (List ScheduleStep) :=
  if s == "-" || s == "" then some []
  else (s.splitOn ",").mapM fun t =>
    if t == "r" then some ScheduleStep.random
    else match t.toList with
      | 't' :: ds => (String.ofList ds).toNat?.map ScheduleStep.task
      | _ => none

def stepsToString (steps : List ScheduleStep) : String :=
  if steps.isEmpty then "-"
  else ",".intercalate (steps.map fun st => match st with
    | .task t => s!"t{t}"
    | .random => "r")

def codecLine (line : String) : String :=
  match line.splitOn " " with
  | ["ser", seed, steps] =>
    match seed.toNat?, parseSteps steps with
    | some sd, some st => "ok " ++ (serializeSchedule { seed := sd, steps := st }).replace "\n" "|"
    | _, _ => "bad-line"
  | ["ser", seed] =>
    match seed.toNat? with
    | some sd => "ok " ++ (serializeSchedule { seed := sd, steps := [] }).replace "\n" "|"
    | none => "bad-line"
  | "de" :: rest =>
    let arg := match rest with | [] => "" | a :: _ => a
    match deserializeSchedule (pctDecode arg) with
    | some sch => s!"some {sch.seed} {stepsToString sch.steps}"
    | none => "none"
  | [""] => ""
  | _ => "bad-line"

def main (args : List String) : IO UInt32 := do
  match args with
  | ["codec", file] =>
    let text ← IO.FS.readFile file
    let out ← IO.getStdout
    let lines := text.splitOn "\n"
    -- `lines()` in Rust drops a trailing empty line
    let lines := if lines.getLast? == some "" then lines.dropLast else lines
    for l in lines do
      out.putStrLn (codecLine l)
    return 0
  | ["selftest"] =>
    let ok := Rng.Vectors.rngSelfTest
    IO.println s!"rngSelfTest {ok}"
    return (if ok then 0 else 1)
  | _ =>
    IO.eprintln "usage: shuttle_model codec <file> | selftest"
    return 2
