import ShuttleModel
def main : IO Unit := IO.println "shuttle_model"
