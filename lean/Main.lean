import ShuttleModel
/-
  `shuttle_model` — line-protocol driver for the executable model.
    shuttle_model codec <cases.txt>            C16 wire format (same protocol as `vh codec`)
    shuttle_model selftest                     RNG / SipHash test vectors
-/
open ShuttleModel

def pctDecode (s : String) : String :=
  let rec go (cs : List Char) (acc : ByteArray) (fuel : Nat) : ByteArray :=
    match fuel with
    | 0 => acc
    | fuel + 1 =>
      match cs with
      | [] => acc
      | '%' :: a :: b :: rest =>
        match hexVal a, hexVal b with
        | some x, some y => go rest (acc.push (UInt8.ofNat (x * 16 + y))) fuel
        | _, _ => go (a :: b :: rest) (acc.push 37) fuel
      | c :: rest => go rest (c.toString.toUTF8.foldl (fun a b => a.push b) acc) fuel
  let bytes := go s.toList ByteArray.empty (s.length + 1)
  match String.fromUTF8? bytes with
  | some str => str
  | none => "�"

def parseSteps (s : String) : Option (List ScheduleStep) :=
  if s == "-" || s == "" then some []
  else (s.splitOn ",").mapM fun t =>
    if t == "r" then some ScheduleStep.random
    else match t.toList with
      | 't' :: ds => (String.ofList ds).toNat?.map ScheduleStep.task
      | _ => none

def stepsToString (steps : List ScheduleStep) : String :=
  if steps.isEmpty then "-"
  else ",".intercalate (steps.map fun st => match st with
    | .task t => s!"t{t}"
    | .random => "r")

def codecLine (line : String) : String :=
  match line.splitOn " " with
  | ["ser", seed, steps] =>
    match seed.toNat?, parseSteps steps with
    | some sd, some st => "ok " ++ (serializeSchedule { seed := sd, steps := st }).replace "\n" "|"
    | _, _ => "bad-line"
  | ["ser", seed] =>
    match seed.toNat? with
    | some sd => "ok " ++ (serializeSchedule { seed := sd, steps := [] }).replace "\n" "|"
    | none => "bad-line"
  | "de" :: rest =>
    let arg := match rest with | [] => "" | a :: _ => a
    match deserializeSchedule (pctDecode arg) with
    | some sch => s!"some {sch.seed} {stepsToString sch.steps}"
    | none => "none"
  | [""] => ""
  | _ => "bad-line"

/-! ### trace mode: replay the implementation's choices on the model and print the model's log -/

structure Script where
  choices : List (Option Nat)
  draws : List Nat

def scripted : Scheduler Script where
  nextTask s _ _ _ := match s.choices with
    | [] => (.panic "script exhausted (the implementation made fewer decisions)", s)
    | c :: cs => (.choose c, { s with choices := cs })
  nextU64 s := match s.draws with
    | [] => (.error "script exhausted (the implementation made fewer draws)", s)
    | d :: ds => (.ok d, { s with draws := ds })

def idsStr (l : List Nat) : String := ",".intercalate (l.map toString)
def optStr : Option Nat → String
  | some n => toString n
  | none => "-"

def evLine : Ev → String
  | .dec off cur y ch => s!"D {idsStr off} {optStr cur} {if y then "y" else "n"} > {optStr ch}"
  | .draw v => s!"R {v}"
  | .obs s => s

def outcomeLine : Outcome → String
  | .ok | .stopped | .abandoned => "E end"
  | .deadlock l => "E deadlock " ++ ",".intercalate (l.map fun (t, d, p) =>
      toString t ++ (if d then ":d" else "") ++ (if p then ":p" else ""))
  | .panic _ msg => s!"E panic {msg}"
  | .stepBoundFail n => s!"E stepbound {n}"
  | .abort msg => s!"E abort {msg}"
  | .schedulingError => "E schedulingerror"
  | .schedPanic msg => s!"E schedpanic {msg}"
  | .outOfFuel => "E model-out-of-fuel"

def toSched (seed : Nat) (steps : List SStep) : Schedule :=
  { seed := seed, steps := steps.map fun s => match s with | .task t => ScheduleStep.task t | .random => .random }

def schedHex (seed : Nat) (steps : List SStep) : String :=
  (serializeSchedule (toSched seed steps)).replace "\n" ""

/-- split the implementation's log of one program into executions: (index, seed, choices, draws) -/
def parseExecs (lines : List String) : List (Nat × Nat × Script) :=
  let flush (cur : Option (Nat × Nat × List (Option Nat) × List Nat)) (acc : List (Nat × Nat × Script)) :=
    match cur with
    | some (i, sd, cs, ds) => (i, sd, { choices := cs.reverse, draws := ds.reverse : Script }) :: acc
    | none => acc
  let (cur, acc) := lines.foldl (fun (st : Option (Nat × Nat × List (Option Nat) × List Nat) × List (Nat × Nat × Script)) l =>
    let (cur, acc) := st
    match l.splitOn " " with
    | ["X", "end"] => (none, flush cur acc)
    | ["X", i, sd] => (some ((i.toNat?).getD 0, (sd.toNat?).getD 0, [], []), flush cur acc)
    | "D" :: rest =>
      match cur with
      | some (i, sd, cs, ds) => (some (i, sd, (rest.getLast?.bind String.toNat?) :: cs, ds), acc)
      | none => st
    | ["R", v] =>
      match cur with
      | some (i, sd, cs, ds) => (some (i, sd, cs, ((v.toNat?).getD 0) :: ds), acc)
      | none => st
    | _ => st) (none, [])
  (flush cur acc).reverse

def traceProgram (ir : IR) (implLines : List String) : List String :=
  let execs := parseExecs implLines
  execs.flatMap fun (i, seed, script) =>
    let r := execute ir.program scripted ir.steps seed script 400000 200000
    let evs := r.st.log.toList.map evLine
    [s!"X {i} {seed}"] ++ evs ++ [outcomeLine (ir.finalOutcome r.outcome r.st.k r.st.u), s!"S {schedHex seed r.st.k.schedule_}"]

/-- split a log file into (name, lines) sections -/
def sections (text : String) : List (String × List String) :=
  let (cur, acc) := (text.splitOn "\n").foldl (fun (st : Option (String × List String) × List (String × List String)) l =>
    let (cur, acc) := st
    if l.startsWith "=== " then
      let acc := match cur with | some (n, ls) => (n, ls.reverse) :: acc | none => acc
      (some ((l.drop 4).trimAscii.toString, []), acc)
    else match cur with
      | some (n, ls) => (some (n, l :: ls), acc)
      | none => st) (none, [])
  let acc := match cur with | some (n, ls) => (n, ls.reverse) :: acc | none => acc
  acc.reverse

def main (args : List String) : IO UInt32 := do
  match args with
  | ["codec", file] =>
    let text ← IO.FS.readFile file
    let out ← IO.getStdout
    let lines := text.splitOn "\n"
    -- `lines()` in Rust drops a trailing empty line
    let lines := if lines.getLast? == some "" then lines.dropLast else lines
    for l in lines do
      out.putStrLn (codecLine l)
    return 0
  | ["trace", progFile, logFile] =>
    let irs := parseBatch (← IO.FS.readFile progFile)
    let secs := sections (← IO.FS.readFile logFile)
    let out ← IO.getStdout
    for ir in irs do
      out.putStrLn s!"=== {ir.name}"
      let impl := match secs.find? (·.1 == ir.name) with | some (_, ls) => ls | none => []
      for l in traceProgram ir impl do
        out.putStrLn l
    return 0
  | ["predict", progFile] =>
    let irs := parseBatch (← IO.FS.readFile progFile)
    let out ← IO.getStdout
    for ir in irs do
      out.putStrLn s!"=== {ir.name}"
      for l in Driver.predictProgram ir do
        out.putStrLn l
    return 0
  | ["enumerate", progFile, limit] =>
    let irs := parseBatch (← IO.FS.readFile progFile)
    let out ← IO.getStdout
    for ir in irs do
      out.putStrLn s!"=== {ir.name}"
      for l in Driver.enumerateProgram ir ((limit.toNat?).getD 1000) do
        out.putStrLn l
    return 0
  | ["ref", progFile, limit] =>
    -- C02: outcome set of the sequentially consistent reference semantics (`ShuttleModel/Ref.lean`)
    let irs := parseBatch (← IO.FS.readFile progFile)
    let out ← IO.getStdout
    for ir in irs do
      out.putStrLn s!"=== {ir.name}"
      for l in Driver.refProgram ir ((limit.toNat?).getD 100000) do
        out.putStrLn l
    return 0
  | ["ref", progFile, limit, opts] =>
    -- opts: comma separated `nospurious` (park never returns without a token), `leaderlast`
    let irs := parseBatch (← IO.FS.readFile progFile)
    let out ← IO.getStdout
    let os := opts.splitOn ","
    let cfg : Ref.Cfg := { spuriousPark := !os.contains "nospurious", leaderLast := os.contains "leaderlast" }
    for ir in irs do
      out.putStrLn s!"=== {ir.name}"
      for l in Driver.refProgram ir ((limit.toNat?).getD 100000) cfg do
        out.putStrLn l
    return 0
  | ["outcomes", progFile, limit] =>
    -- C02: outcome set of the model kernel's exhaustively enumerated choice tree
    let irs := parseBatch (← IO.FS.readFile progFile)
    let out ← IO.getStdout
    for ir in irs do
      out.putStrLn s!"=== {ir.name}"
      for l in Driver.outcomesProgram ir ((limit.toNat?).getD 1000) do
        out.putStrLn l
    return 0
  | ["c02witness"] =>
    -- C02: executable half of `incomplete_witness_mpsc_drop` (see `Driver.c02Witness`)
    let (ls, holds) := Driver.c02Witness
    for l in ls do
      IO.println l
    return (if holds then 0 else 1)
  | "c12" :: specFile :: rest =>
    -- C12: the failure-persistence model's prediction for each spec (one spec per line)
    let fixed := rest.contains "fixed"
    let out ← IO.getStdout
    for l in (← IO.FS.readFile specFile).splitOn "\n" do
      let spec := l.trimAscii.toString
      if spec ≠ "" then
        out.putStrLn (if fixed then Failure.predictSweepFixed spec else Failure.predictSweep spec)
    return 0
  | ["selftest"] =>
    let ok := Rng.Vectors.rngSelfTest
    IO.println s!"rngSelfTest {ok}"
    return (if ok then 0 else 1)
  | _ =>
    IO.eprintln "usage: shuttle_model codec <file> | selftest"
    return 2
