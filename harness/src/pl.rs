//! C20 — the wrapper crates on the real code: `shuttle-parking_lot` (`Mutex`, `RwLock` with
//! upgradable reads, upgrades and downgrades), `shuttle-rand` and `shuttle-lazy_static`.
//! The crates are used through their public `shuttle` feature exactly as client code would.
use crate::interp::{init_clear, init_mark, init_take, lock_std, me, my_k, Guard};
use crate::record::log;
use parking_lot::{Mutex, MutexGuard, RwLock, RwLockReadGuard, RwLockUpgradableReadGuard, RwLockWriteGuard};

pub enum PlObj {
    M(Mutex<u64>),
    Rw(RwLock<u64>),
}

pub fn new_mutex(v: u64) -> PlObj {
    PlObj::M(Mutex::new(v))
}

pub fn new_rwlock(v: u64) -> PlObj {
    PlObj::Rw(RwLock::new(v))
}

/// guards of the parking_lot replacements, lifetimes erased like the std guards in `interp.rs`
pub enum PlGuard {
    M(MutexGuard<'static, u64>),
    R(RwLockReadGuard<'static, u64>),
    W(RwLockWriteGuard<'static, u64>),
    U(RwLockUpgradableReadGuard<'static, u64>),
    /// the slot of a guard that is being converted (upgrade / downgrade consume the guard)
    Hole,
}

impl PlGuard {
    /// `setval` through a guard that gives `&mut` access
    pub fn set(&mut self, v: u64) -> bool {
        match self {
            PlGuard::M(g) => {
                **g = v;
                true
            }
            PlGuard::W(g) => {
                **g = v;
                true
            }
            _ => false,
        }
    }
    fn tag(&self) -> char {
        match self {
            PlGuard::M(_) => 'm',
            PlGuard::R(_) => 'r',
            PlGuard::W(_) => 'w',
            PlGuard::U(_) => 'u',
            PlGuard::Hole => '-',
        }
    }
}

pub fn is_op(name: &str) -> bool {
    name.starts_with("pl_")
}

/// most recent guard of kind `tag` on object `i`
fn find(guards: &[Guard], i: usize, tag: char) -> Option<usize> {
    guards.iter().rposition(|g| matches!(g, Guard::Pl(j, pg) if *j == i && pg.tag() == tag))
}

fn drop_kind(guards: &mut Vec<Guard>, i: usize, tag: char) -> String {
    match find(guards, i, tag) {
        Some(p) => {
            let g = guards.remove(p);
            drop(g);
            "ok".into()
        }
        None => "noguard".into(),
    }
}

/// replace the guard in slot `p` by the result of `f` (the slot keeps its place in the drop order)
fn convert(guards: &mut [Guard], p: usize, f: impl FnOnce(PlGuard) -> PlGuard) -> String {
    let i = match &guards[p] {
        Guard::Pl(i, _) => *i,
        _ => unreachable!(),
    };
    let old = match std::mem::replace(&mut guards[p], Guard::Pl(i, PlGuard::Hole)) {
        Guard::Pl(_, g) => g,
        _ => unreachable!(),
    };
    let new = f(old);
    let v = match &new {
        PlGuard::M(g) => **g,
        PlGuard::R(g) => **g,
        PlGuard::W(g) => **g,
        PlGuard::U(g) => **g,
        PlGuard::Hole => 0,
    };
    guards[p] = Guard::Pl(i, new);
    format!("v:{}", v)
}

pub fn exec(o: &PlObj, i: usize, name: &str, guards: &mut Vec<Guard>) -> String {
    match o {
        PlObj::M(m) => {
            // SAFETY: the object table outlives every task of the execution
            let m: &'static Mutex<u64> = unsafe { std::mem::transmute(m) };
            match name {
                "pl_lock" => {
                    let g = m.lock();
                    let v = *g;
                    guards.push(Guard::Pl(i, PlGuard::M(g)));
                    format!("v:{}", v)
                }
                "pl_try_lock" => match m.try_lock() {
                    Some(g) => {
                        let v = *g;
                        guards.push(Guard::Pl(i, PlGuard::M(g)));
                        format!("v:{}", v)
                    }
                    None => "wouldblock".into(),
                },
                "pl_unlock" => drop_kind(guards, i, 'm'),
                other => panic!("vh: {other} is not defined on a parking_lot mutex"),
            }
        }
        PlObj::Rw(l) => {
            let l: &'static RwLock<u64> = unsafe { std::mem::transmute(l) };
            match name {
                "pl_read" => {
                    let g = l.read();
                    let v = *g;
                    guards.push(Guard::Pl(i, PlGuard::R(g)));
                    format!("v:{}", v)
                }
                "pl_try_read" => match l.try_read() {
                    Some(g) => {
                        let v = *g;
                        guards.push(Guard::Pl(i, PlGuard::R(g)));
                        format!("v:{}", v)
                    }
                    None => "wouldblock".into(),
                },
                "pl_write" => {
                    let g = l.write();
                    let v = *g;
                    guards.push(Guard::Pl(i, PlGuard::W(g)));
                    format!("v:{}", v)
                }
                "pl_try_write" => match l.try_write() {
                    Some(g) => {
                        let v = *g;
                        guards.push(Guard::Pl(i, PlGuard::W(g)));
                        format!("v:{}", v)
                    }
                    None => "wouldblock".into(),
                },
                "pl_upread" => {
                    let g = l.upgradable_read();
                    let v = *g;
                    guards.push(Guard::Pl(i, PlGuard::U(g)));
                    format!("v:{}", v)
                }
                "pl_try_upread" => match l.try_upgradable_read() {
                    Some(g) => {
                        let v = *g;
                        guards.push(Guard::Pl(i, PlGuard::U(g)));
                        format!("v:{}", v)
                    }
                    None => "wouldblock".into(),
                },
                "pl_upgrade" => match find(guards, i, 'u') {
                    None => "noguard".into(),
                    Some(p) => convert(guards, p, |g| match g {
                        PlGuard::U(g) => PlGuard::W(RwLockUpgradableReadGuard::upgrade(g)),
                        _ => unreachable!(),
                    }),
                },
                "pl_try_upgrade" => match find(guards, i, 'u') {
                    None => "noguard".into(),
                    Some(p) => {
                        let mut failed = false;
                        let r = convert(guards, p, |g| match g {
                            PlGuard::U(g) => match RwLockUpgradableReadGuard::try_upgrade(g) {
                                Ok(w) => PlGuard::W(w),
                                Err(u) => {
                                    failed = true;
                                    PlGuard::U(u)
                                }
                            },
                            _ => unreachable!(),
                        });
                        if failed {
                            "wouldblock".into()
                        } else {
                            r
                        }
                    }
                },
                "pl_downgrade" => match find(guards, i, 'w') {
                    None => "noguard".into(),
                    Some(p) => convert(guards, p, |g| match g {
                        PlGuard::W(g) => PlGuard::R(RwLockWriteGuard::downgrade(g)),
                        _ => unreachable!(),
                    }),
                },
                "pl_down_up" => match find(guards, i, 'w') {
                    None => "noguard".into(),
                    Some(p) => convert(guards, p, |g| match g {
                        PlGuard::W(g) => PlGuard::U(RwLockWriteGuard::downgrade_to_upgradable(g)),
                        _ => unreachable!(),
                    }),
                },
                "pl_to_up_read" => match find(guards, i, 'u') {
                    None => "noguard".into(),
                    Some(p) => convert(guards, p, |g| match g {
                        PlGuard::U(g) => PlGuard::R(RwLockUpgradableReadGuard::downgrade(g)),
                        _ => unreachable!(),
                    }),
                },
                "pl_unread" => drop_kind(guards, i, 'r'),
                "pl_unwrite" => drop_kind(guards, i, 'w'),
                "pl_unupread" => drop_kind(guards, i, 'u'),
                other => panic!("vh: {other} is not defined on a parking_lot rwlock"),
            }
        }
    }
}

// ---------------------------------------------------------------- rand wrapper

/// `wrand <kind>`: one entry point of the `shuttle-rand` wrapper per kind; result logged mod 4
pub fn wrand_op(kind: &str) -> String {
    use wrand::rngs::StdRng;
    use wrand::seq::SliceRandom;
    use wrand::{Rng, RngCore, SeedableRng};
    let v: u64 = match kind {
        "u64" => wrand::thread_rng().r#gen::<u64>(),
        "u32" => wrand::thread_rng().r#gen::<u32>() as u64,
        "bool" => wrand::thread_rng().r#gen::<bool>() as u64,
        "range" => wrand::thread_rng().gen_range(0..4u64),
        "random" => wrand::random::<u64>(),
        "std" => StdRng::seed_from_u64(7).r#gen::<u64>(),
        "entropy" => StdRng::from_entropy().next_u64(),
        "seed" => StdRng::from_seed([1u8; 32]).next_u32() as u64,
        "default" => wrand::rngs::ThreadRng::default().next_u64(),
        "fill" => {
            let mut b = [0u8; 12];
            wrand::thread_rng().fill_bytes(&mut b);
            b[0] as u64 + b[8] as u64
        }
        "choose" => *[0u64, 1, 2, 3].choose(&mut wrand::thread_rng()).unwrap(),
        other => panic!("vh: unknown wrand kind {other}"),
    };
    format!("v:{}", v % 4)
}

// ---------------------------------------------------------------- lazy_static wrapper

pub const WLAZY_POOL: usize = 2;
static WLAZY_NAMES: std::sync::Mutex<Vec<String>> = std::sync::Mutex::new(Vec::new());

fn wlazy_init(idx: usize) -> u64 {
    init_mark();
    let name = lock_std(&WLAZY_NAMES)[idx].clone();
    log(format!("O {} {} lazyinit {}", me(), my_k(), name));
    7
}

wlazy_static::lazy_static! {
    static ref WLAZY0: u64 = wlazy_init(0);
    static ref WLAZY1: u64 = wlazy_init(1);
}

/// called by `make_ctx` at the start of every execution
pub fn reset() {
    lock_std(&WLAZY_NAMES).clear();
}

/// `obj z wlazy`: returns the pool index
pub fn wlazy_register(name: &str) -> usize {
    let mut g = lock_std(&WLAZY_NAMES);
    g.push(name.to_string());
    assert!(g.len() <= WLAZY_POOL, "vh: at most {WLAZY_POOL} wlazy objects");
    g.len() - 1
}

/// `wlazy z`: dereference the static declared through the wrapper's `lazy_static!`
pub fn wlazy_op(idx: usize) -> String {
    init_clear();
    let _v: u64 = if idx == 0 { *WLAZY0 } else { *WLAZY1 };
    if init_take() {
        "init".into()
    } else {
        "seen".into()
    }
}
