//! C16 line protocol against the real `serialize_schedule` / `deserialize_schedule`.
//!   ser <seed> <t<id>|r,…|->      → ok <string, '\n' shown as '|'>
//!   de  <percent-encoded string>  → some <seed> <steps> | none | panic <first line of message>
use shuttle_engine::runtime::task::TaskId;
use shuttle_engine::scheduler::serialization::{deserialize_schedule, serialize_schedule};
use shuttle_engine::scheduler::{Schedule, ScheduleStep};
use std::panic::catch_unwind;

pub fn pct_decode(s: &str) -> String {
    let b = s.as_bytes();
    let mut out = Vec::new();
    let mut i = 0;
    while i < b.len() {
        if b[i] == b'%' && i + 2 < b.len() + 1 && i + 3 <= b.len() {
            let h = std::str::from_utf8(&b[i + 1..i + 3]).unwrap_or("00");
            out.push(u8::from_str_radix(h, 16).unwrap_or(b'?'));
            i += 3;
        } else {
            out.push(b[i]);
            i += 1;
        }
    }
    String::from_utf8_lossy(&out).into_owned()
}

fn steps_to_string(s: &Schedule) -> String {
    if s.steps.is_empty() {
        return "-".into();
    }
    s.steps
        .iter()
        .map(|st| match st {
            ScheduleStep::Task(t) => format!("t{}", usize::from(*t)),
            ScheduleStep::Random => "r".to_string(),
        })
        .collect::<Vec<_>>()
        .join(",")
}

pub fn parse_steps(s: &str) -> Vec<ScheduleStep> {
    if s == "-" || s.is_empty() {
        return vec![];
    }
    s.split(',')
        .map(|t| {
            if t == "r" {
                ScheduleStep::Random
            } else {
                ScheduleStep::Task(TaskId::from(t[1..].parse::<usize>().unwrap()))
            }
        })
        .collect()
}

fn panic_msg(e: Box<dyn std::any::Any + Send>) -> String {
    let m = if let Some(s) = e.downcast_ref::<&str>() {
        s.to_string()
    } else if let Some(s) = e.downcast_ref::<String>() {
        s.clone()
    } else {
        "?".into()
    };
    m.lines().next().unwrap_or("").to_string()
}

pub fn codec_line(line: &str) -> String {
    let toks: Vec<&str> = line.split(' ').collect();
    match toks[0] {
        "ser" => {
            let seed: u64 = toks[1].parse().unwrap();
            let steps = parse_steps(toks.get(2).copied().unwrap_or("-"));
            let sch = Schedule { seed, steps };
            match catch_unwind(move || serialize_schedule(&sch)) {
                Ok(s) => format!("ok {}", s.replace('\n', "|")),
                Err(e) => format!("panic {}", panic_msg(e)),
            }
        }
        "de" => {
            let s = pct_decode(toks.get(1).copied().unwrap_or(""));
            match catch_unwind(move || deserialize_schedule(&s)) {
                Ok(Some(sch)) => format!("some {} {}", sch.seed, steps_to_string(&sch)),
                Ok(None) => "none".into(),
                Err(e) => format!("panic {}", panic_msg(e)),
            }
        }
        "" => String::new(),
        _ => "bad-line".into(),
    }
}
