//! The async layer of the IR on the *real* `shuttle::future` API: spawned futures, join / abort /
//! detach, hand-written wakers, `block_on`, the `Acquire` future of `BatchSemaphore`.
//! Mirrors lean/ShuttleModel/Prim/Future.lean + the "Future bodies" section of Lang.lean.
use crate::interp::{exec_op, lock_std, log_op, me, note_body, transfer_handles, Ctx, Handles, Obj, Ss, TaskSt};
use crate::ir::Op;
use crate::record::log;
use shuttle::future::{AbortHandle, JoinHandle};
use shuttle_engine::future::batch_semaphore::Acquire;
use shuttle_engine::runtime::execution::ExecutionState;
use std::cell::{Cell, RefCell};
use std::future::Future;
use std::mem::ManuallyDrop;
use std::pin::Pin;
use std::sync::Arc;
use std::task::{Context, Poll, Waker};

/// `obj w wslot`: a one-shot event implemented by hand (plain std cells: no scheduling points)
pub struct WSlot {
    pub flag: Cell<bool>,
    pub waker: RefCell<Option<Waker>>,
}

impl WSlot {
    pub fn new() -> Self {
        WSlot {
            flag: Cell::new(false),
            waker: RefCell::new(None),
        }
    }
}

/// an entry of the table of `Acquire` futures; `Busy` while some task is inside `poll` of it
pub enum AcqSlot {
    Empty,
    Busy,
    Full(ManuallyDrop<Acquire<'static>>),
}

pub const ACQ_SLOTS: usize = 8;

/// Tables shared by all tasks of one execution. Entries that are still present when the execution
/// ends are leaked (`ManuallyDrop`): their `Drop` impls call into the `ExecutionState`, and the
/// table outlives the execution.
pub struct FutCtx {
    pub handles: std::sync::Mutex<Vec<Option<ManuallyDrop<JoinHandle<()>>>>>,
    pub aborts: std::sync::Mutex<Vec<Option<AbortHandle>>>,
    pub acqs: std::sync::Mutex<Vec<AcqSlot>>,
}

impl FutCtx {
    pub fn new(ntasks: usize) -> Self {
        FutCtx {
            handles: std::sync::Mutex::new((0..ntasks).map(|_| None).collect()),
            aborts: std::sync::Mutex::new((0..ntasks).map(|_| None).collect()),
            acqs: std::sync::Mutex::new((0..ACQ_SLOTS).map(|_| AcqSlot::Empty).collect()),
        }
    }
}

/// Lives inside the async block; observes that the block was dropped before it ran to its end.
pub struct DropGuard {
    k: usize,
    done: Cell<bool>,
}

impl Drop for DropGuard {
    fn drop(&mut self) {
        if self.done.get() || std::thread::panicking() {
            return;
        }
        // futures that die with the execution (cleanup, failure) are not observed
        match ExecutionState::try_with(|s| s.is_finished()) {
            Ok(false) => {}
            _ => return,
        }
        log(format!("O {} {} dropped", me(), self.k));
    }
}

/// what the async block captures; dropped in field order if the block is never polled
pub struct FutInit {
    guard: DropGuard,
    ctx: Arc<Ss<Ctx>>,
    k: usize,
    hs: Handles,
}

/// everything runs on one OS thread
struct SendFut<F>(Pin<Box<F>>);
unsafe impl<F> Send for SendFut<F> {}
impl<F: Future> Future for SendFut<F> {
    type Output = F::Output;
    fn poll(mut self: Pin<&mut Self>, cx: &mut Context<'_>) -> Poll<F::Output> {
        self.0.as_mut().poll(cx)
    }
}

/// the hand-written leaf future of `pend w`
struct PendFut {
    ctx: Arc<Ss<Ctx>>,
    oi: usize,
}

impl Future for PendFut {
    type Output = ();
    fn poll(self: Pin<&mut Self>, cx: &mut Context<'_>) -> Poll<()> {
        let slot = match &self.ctx.0.objs[self.oi] {
            Obj::WSlot(s) => s,
            _ => panic!("vh: not a wslot"),
        };
        if slot.flag.replace(false) {
            Poll::Ready(())
        } else {
            *slot.waker.borrow_mut() = Some(cx.waker().clone());
            Poll::Pending
        }
    }
}

pub fn is_async_op(n: &str) -> bool {
    n == "fjoin" || n == "fyield" || n == "pend" || n == "acq_await" || n == "fpoll"
}

fn wslot_index(c: &Ctx, name: &str) -> usize {
    c.prog.obj_index(name).unwrap_or_else(|| panic!("vh: unknown object {name}"))
}

/// The leaf future of an async op (tokens `toks`), awaited to completion.
fn exec_async<'a>(ctx: &'a Arc<Ss<Ctx>>, toks: &'a [String]) -> Pin<Box<dyn Future<Output = String> + 'a>> {
    Box::pin(async move {
        let c = &ctx.0;
        let name = toks.first().map(|s| s.as_str()).unwrap_or("");
        let num = |i: usize| -> usize { toks.get(i).and_then(|s| s.parse().ok()).unwrap_or(0) };
        match name {
            "fjoin" => {
                let k = num(1);
                let h = lock_std(&c.fut.handles).get_mut(k).and_then(|h| h.take());
                match h {
                    None => "nohandle".into(),
                    // the handle is consumed (and dropped → `detach`) by the `.await`
                    Some(h) => match ManuallyDrop::into_inner(h).await {
                        Ok(()) => "ok".into(),
                        Err(_) => "cancelled".into(),
                    },
                }
            }
            "fpoll" => {
                // one `JoinHandle::poll` with the current task's waker; Ready drops the handle, Pending puts it back
                let k = num(1);
                let h = lock_std(&c.fut.handles).get_mut(k).and_then(|h| h.take());
                match h {
                    None => "nohandle".into(),
                    Some(h) => {
                        let mut h = ManuallyDrop::into_inner(h);
                        let r = std::future::poll_fn(|cx| Poll::Ready(Pin::new(&mut h).poll(cx))).await;
                        match r {
                            Poll::Ready(Ok(())) => "ready:ok".into(),
                            Poll::Ready(Err(_)) => "ready:cancelled".into(),
                            Poll::Pending => {
                                lock_std(&c.fut.handles)[k] = Some(ManuallyDrop::new(h));
                                "pending".into()
                            }
                        }
                    }
                }
            }
            "fyield" => {
                shuttle::future::yield_now().await;
                "ok".into()
            }
            "pend" => {
                let oi = wslot_index(c, toks.get(1).map(|s| s.as_str()).unwrap_or(""));
                PendFut { ctx: ctx.clone(), oi }.await;
                "ok".into()
            }
            "acq_await" => {
                let h = num(1);
                let a = {
                    let mut g = lock_std(&c.fut.acqs);
                    match g.get_mut(h) {
                        Some(slot) if matches!(slot, AcqSlot::Full(_)) => {
                            match std::mem::replace(slot, AcqSlot::Empty) {
                                AcqSlot::Full(a) => Some(ManuallyDrop::into_inner(a)),
                                _ => unreachable!(),
                            }
                        }
                        _ => None,
                    }
                };
                match a {
                    None => "nohandle".into(),
                    Some(a) => match a.await {
                        Ok(()) => "ok".into(),
                        Err(_) => "closed".into(),
                    },
                }
            }
            "block_on" => block_on_op(ctx, &toks[1..]),
            other => panic!("vh: not an async op: {other}"),
        }
    })
}

/// `future::block_on(leaf)`
pub fn block_on_op(ctx: &Arc<Ss<Ctx>>, toks: &[String]) -> String {
    shuttle::future::block_on(exec_async(ctx, toks))
}

/// The async block handed to `future::spawn` for body `k`.
async fn run_future(init: FutInit) {
    let FutInit { guard: g0, ctx, k, hs } = init;
    let prog = ctx.0.prog.clone();
    let ops = &prog.tasks[k].ops;
    note_body(k);
    let mut st = TaskSt::new(k, hs);
    // declared after `st`: dropped before it when the block is dropped at an await
    let guard = g0;
    let mut pc = 0;
    while pc < ops.len() {
        let op = &ops[pc];
        if op.name == "if" {
            if st.last == op.arg(0) {
                pc += op.num(2) as usize;
            }
            pc += 1;
            continue;
        }
        let res = if op.name == "pend_then" {
            // `pend_then w <sync op…>`: a hand-written leaf future whose `poll`, when the slot is not ready, stores the
            // waker and then performs a (possibly blocking) synchronous operation before it returns `Pending` — the
            // task is `Blocked` in the middle of a poll, with its waker already published
            let oi = wslot_index(&ctx.0, op.arg(0));
            let inner = Op { name: op.arg(1).to_string(), args: op.args[2.min(op.args.len())..].to_vec() };
            let stref = &mut st;
            std::future::poll_fn(|cx| {
                let slot = match &ctx.0.objs[oi] {
                    Obj::WSlot(s) => s,
                    _ => panic!("vh: not a wslot"),
                };
                if slot.flag.replace(false) {
                    Poll::Ready(())
                } else {
                    *slot.waker.borrow_mut() = Some(cx.waker().clone());
                    let _r = exec_op(&ctx, stref, &inner, pc, None);
                    if std::env::var("VH_DEBUG").is_ok() {
                        eprintln!("vh: pend_then poll -> Pending (inner {} = {})", inner.name, _r);
                    }
                    Poll::Pending
                }
            })
            .await;
            "ok".to_string()
        } else if is_async_op(&op.name) {
            let mut toks = vec![op.name.clone()];
            toks.extend(op.args.iter().cloned());
            exec_async(&ctx, &toks).await
        } else {
            exec_op(&ctx, &mut st, op, pc, None)
        };
        log_op(&prog, &mut st, pc, res);
        pc += 1;
    }
    st.finish();
    log(format!("O {} {} end", me(), k));
    guard.done.set(true);
}

/// The ops of the async layer that are plain calls (usable from threads and from future bodies).
pub fn exec_fut_op(ctx: &Arc<Ss<Ctx>>, st: &mut TaskSt, op: &Op, pc: usize) -> Option<String> {
    let c = &ctx.0;
    let r: String = match op.name.as_str() {
        "fspawn" => {
            let k = op.num(0) as usize;
            if !c.prog.tasks[k].future {
                panic!("vh: fspawn of a thread body {k}");
            }
            if lock_std(&c.fut.aborts)[k].is_some() {
                return Some("already".into());
            }
            let init = FutInit {
                guard: DropGuard { k, done: Cell::new(false) },
                ctx: ctx.clone(),
                k,
                hs: transfer_handles(c, st, pc, k),
            };
            let h = shuttle::future::spawn(SendFut(Box::pin(run_future(init))));
            lock_std(&c.fut.aborts)[k] = Some(h.abort_handle());
            lock_std(&c.fut.handles)[k] = Some(ManuallyDrop::new(h));
            "ok".into()
        }
        "fabort" => {
            let k = op.num(0) as usize;
            let a = lock_std(&c.fut.aborts).get(k).and_then(|a| a.clone());
            match a {
                None => "nohandle".into(),
                Some(a) => {
                    a.abort();
                    "ok".into()
                }
            }
        }
        "fdetach" => {
            let k = op.num(0) as usize;
            let h = lock_std(&c.fut.handles).get_mut(k).and_then(|h| h.take());
            match h {
                None => "nohandle".into(),
                Some(h) => {
                    drop(ManuallyDrop::into_inner(h));
                    "ok".into()
                }
            }
        }
        "fis_finished" => {
            let k = op.num(0) as usize;
            let a = lock_std(&c.fut.aborts).get(k).and_then(|a| a.clone());
            match a {
                None => "nohandle".into(),
                Some(a) => format!("{}", a.is_finished()),
            }
        }
        "wake" | "wake_only" => {
            let slot = match &c.objs[wslot_index(c, op.arg(0))] {
                Obj::WSlot(s) => s,
                _ => panic!("vh: not a wslot"),
            };
            if op.name == "wake" {
                slot.flag.set(true);
                let w = slot.waker.borrow_mut().take();
                if let Some(w) = w {
                    w.wake();
                }
            } else {
                let w = slot.waker.borrow().clone();
                if let Some(w) = w {
                    w.wake_by_ref();
                }
            }
            "ok".into()
        }
        "acq_new" => {
            let h = op.num(0) as usize;
            let s = match &c.objs[wslot_index(c, op.arg(1))] {
                Obj::Sem(s) => s,
                _ => panic!("vh: not a sem"),
            };
            // SAFETY: the object table outlives every task of the execution
            let s: &'static shuttle_engine::future::batch_semaphore::BatchSemaphore = unsafe { std::mem::transmute(s) };
            let empty = matches!(lock_std(&c.fut.acqs)[h], AcqSlot::Empty);
            if empty {
                let a = s.acquire(op.num(2) as usize);
                lock_std(&c.fut.acqs)[h] = AcqSlot::Full(ManuallyDrop::new(a));
                "ok".into()
            } else {
                "busy".into()
            }
        }
        "acq_poll" => {
            let h = op.num(0) as usize;
            let a = {
                let mut g = lock_std(&c.fut.acqs);
                if matches!(g[h], AcqSlot::Full(_)) {
                    match std::mem::replace(&mut g[h], AcqSlot::Busy) {
                        AcqSlot::Full(a) => Some(ManuallyDrop::into_inner(a)),
                        _ => unreachable!(),
                    }
                } else {
                    None
                }
            };
            match a {
                None => "nohandle".into(),
                Some(mut a) => {
                    let waker = ExecutionState::with(|state| state.current_mut().waker());
                    let cx = &mut Context::from_waker(&waker);
                    match Pin::new(&mut a).poll(cx) {
                        Poll::Ready(r) => {
                            drop(a);
                            lock_std(&c.fut.acqs)[h] = AcqSlot::Empty;
                            match r {
                                Ok(()) => "ready:ok".into(),
                                Err(_) => "ready:closed".into(),
                            }
                        }
                        Poll::Pending => {
                            lock_std(&c.fut.acqs)[h] = AcqSlot::Full(ManuallyDrop::new(a));
                            "pending".into()
                        }
                    }
                }
            }
        }
        "acq_drop" => {
            let h = op.num(0) as usize;
            let a = {
                let mut g = lock_std(&c.fut.acqs);
                if matches!(g[h], AcqSlot::Full(_)) {
                    match std::mem::replace(&mut g[h], AcqSlot::Empty) {
                        AcqSlot::Full(a) => Some(ManuallyDrop::into_inner(a)),
                        _ => unreachable!(),
                    }
                } else {
                    None
                }
            };
            match a {
                None => "nohandle".into(),
                Some(a) => {
                    drop(a);
                    "ok".into()
                }
            }
        }
        "block_on" => block_on_op(ctx, &op.args),
        "fjoin_block" => {
            let toks = vec!["fjoin".to_string(), op.arg(0).to_string()];
            block_on_op(ctx, &toks)
        }
        "fpoll" => {
            let toks = vec!["fpoll".to_string(), op.arg(0).to_string()];
            block_on_op(ctx, &toks)
        }
        "fjoin" | "fyield" | "pend" | "acq_await" => {
            panic!("vh: async op {} outside a future (task {})", op.name, st.k)
        }
        _ => return None,
    };
    Some(r)
}
