mod codec;
mod fut;
mod interp;
mod ir;
mod pl;
mod record;
mod tokio;

use ir::{Program, Steps};
use record::{log, take_log, Recorder};
use shuttle::scheduler::{
    DfsScheduler, PctScheduler, RandomScheduler, ReplayScheduler, RoundRobinScheduler, UrwRandomScheduler,
};
use shuttle::{Config, FailurePersistence, MaxSteps, Runner};
use shuttle_engine::scheduler::Scheduler;
use std::io::Write;
use std::panic::{catch_unwind, AssertUnwindSafe};
use std::sync::Arc;

fn config_for(p: &Program) -> Config {
    let mut c = Config::new();
    c.failure_persistence = FailurePersistence::None;
    c.max_steps = match p.steps {
        Steps::None => MaxSteps::None,
        Steps::Fail(n) => MaxSteps::FailAfter(n),
        Steps::Cont(n) => MaxSteps::ContinueAfter(n),
    };
    c.silence_warnings = true;
    c.max_time = p.time_ms.map(std::time::Duration::from_millis);
    c
}

/// failure line: the first line of the panic payload, canonicalised by tools/corr.py
pub fn canon_failure(msg: &str) -> String {
    format!("E fail {}", msg.lines().next().unwrap_or(""))
}

fn payload_to_string(e: &Box<dyn std::any::Any + Send>) -> String {
    if let Some(s) = e.downcast_ref::<&str>() {
        s.to_string()
    } else if let Some(s) = e.downcast_ref::<String>() {
        s.clone()
    } else {
        "<non-string payload>".to_string()
    }
}

fn run_with<S: Scheduler + 'static>(p: &Arc<Program>, sched: S) {
    let mut rec = Recorder::new(sched);
    rec.stop_at = p.stop_at;
    let runner = Runner::new(rec, config_for(p));
    let p2 = p.clone();
    let r = catch_unwind(AssertUnwindSafe(move || runner.run(move || interp::main_body(p2.clone()))));
    match r {
        Ok(n) => log(format!("N {}", n)),
        Err(e) => {
            let msg = payload_to_string(&e);
            log(canon_failure(&msg));
            log(format!("S {}", record::schedule_hex()));
            log("N fail".to_string());
        }
    }
}

pub fn run_program(p: &Arc<Program>) -> Vec<String> {
    let _ = take_log();
    interp::LIVE.store(0, std::sync::atomic::Ordering::SeqCst);
    let parts: Vec<&str> = p.run.split(':').collect();
    let num = |i: usize| -> u64 { parts.get(i).and_then(|s| s.parse().ok()).unwrap_or(0) };
    match parts[0] {
        "rr" => run_with(p, RoundRobinScheduler::new(num(1).max(1) as usize)),
        "random" => run_with(p, RandomScheduler::new_from_seed(num(1), num(2).max(1) as usize)),
        "pct" => run_with(
            p,
            PctScheduler::new_from_seed(num(1), num(2).max(1) as usize, num(3).max(1) as usize),
        ),
        "urw" => run_with(p, UrwRandomScheduler::new_from_seed(num(1), num(2).max(1) as usize)),
        "dfs" => {
            let max = parts.get(1).and_then(|s| s.parse::<usize>().ok());
            run_with(p, DfsScheduler::new(max, true))
        }
        "replay" => {
            let hex = parts.get(1).copied().unwrap_or("");
            let r = catch_unwind(|| ReplayScheduler::new_from_encoded(hex));
            match r {
                Ok(s) => run_with(p, s),
                Err(_) => log("E badschedule".to_string()),
            }
        }
        other => log(format!("E badrun {}", other)),
    }
    take_log()
}

fn main() {
    // keep panics quiet: every panic is caught and reported as an `E` line
    // (every panic that STARTS is announced with a `P panic` line: a panic that is later swallowed, or whose
    // unwinding never completes, is then visible in the log; the comparison with the model ignores `P` lines)
    let verbose = std::env::var("VH_BACKTRACE").is_ok();
    std::panic::set_hook(Box::new(move |info| {
        if verbose {
            eprintln!("vh: {info}\n{}", std::backtrace::Backtrace::force_capture());
        }
        record::log("P panic".to_string())
    }));
    std::env::remove_var("SHUTTLE_RANDOM_SEED");
    let args: Vec<String> = std::env::args().collect();
    let cmd = args.get(1).map(|s| s.as_str()).unwrap_or("");
    let stdout = std::io::stdout();
    let mut out = std::io::BufWriter::new(stdout.lock());
    match cmd {
        "run" => {
            let text = std::fs::read_to_string(&args[2]).expect("vh: cannot read batch file");
            let progs = ir::parse_batch(&text);
            // Every program runs on a fresh OS thread: an execution that ends while a task is suspended
            // in the middle of unwinding leaves the std panic count of its OS thread raised for good
            // (`std::thread::panicking()` stays true), which would leak into the next program.
            let same_thread = std::env::var("VH_SAME_THREAD").is_ok();
            for p in progs {
                let p = Arc::new(p);
                writeln!(out, "=== {}", p.name).unwrap();
                let lines = if same_thread {
                    run_program(&p)
                } else {
                    let p2 = p.clone();
                    std::thread::Builder::new()
                        .stack_size(64 << 20)
                        .spawn(move || run_program(&p2))
                        .unwrap()
                        .join()
                        .unwrap_or_else(|_| vec!["E harness-thread-panicked".to_string()])
                };
                for l in lines {
                    writeln!(out, "{}", l).unwrap();
                }
                out.flush().unwrap();
            }
        }
        "codec" => {
            let text = std::fs::read_to_string(&args[2]).expect("vh: cannot read codec file");
            for line in text.lines() {
                writeln!(out, "{}", codec::codec_line(line)).unwrap();
            }
        }
        _ => {
            eprintln!("usage: vh run <batch.vp> | vh codec <cases.txt>");
            std::process::exit(2);
        }
    }
}
