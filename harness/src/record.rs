//! Global line log + the recording pass-through `Scheduler` wrapper (asserts the C08 contract on
//! every call it forwards).
use shuttle_engine::runtime::execution::CurrentSchedule;
use shuttle_engine::runtime::task::{Task, TaskId};
use shuttle_engine::scheduler::serialization::serialize_schedule;
use shuttle_engine::scheduler::{Schedule, Scheduler};
use std::sync::Mutex;

pub static LOG: Mutex<Vec<String>> = Mutex::new(Vec::new());
/// C08 contract violations seen by the recorder (reported as `V` lines)
pub static CONTRACT: Mutex<Vec<String>> = Mutex::new(Vec::new());

pub fn log(s: String) {
    // never panic here: we may be called during unwinding
    match LOG.lock() {
        Ok(mut g) => g.push(s),
        Err(p) => p.into_inner().push(s),
    }
}

pub fn take_log() -> Vec<String> {
    match LOG.lock() {
        Ok(mut g) => std::mem::take(&mut *g),
        Err(p) => std::mem::take(&mut *p.into_inner()),
    }
}

pub fn schedule_hex() -> String {
    let s = CurrentSchedule::get_schedule();
    serialize_schedule(&s).replace('\n', "")
}

pub fn schedule_len() -> usize {
    CurrentSchedule::len()
}

fn violation(s: String) {
    log(format!("V {}", s));
    if let Ok(mut g) = CONTRACT.lock() {
        g.push(s);
    }
}

/// State shared with the body so the contract `chosen_runs_next` can be cross-checked.
pub static LAST_CHOICE: Mutex<Option<usize>> = Mutex::new(None);
pub static YIELD_REQUESTED: Mutex<bool> = Mutex::new(false);

pub struct Recorder<S: Scheduler> {
    pub inner: S,
    pub execs: usize,
    last_returned: Option<usize>,
    stopped: bool,
    /// `config stop=N`: answer "no task" at the N-th decision (0-based) of every execution
    pub stop_at: Option<usize>,
    decisions: usize,
}

impl<S: Scheduler> Recorder<S> {
    pub fn new(inner: S) -> Self {
        Self {
            inner,
            execs: 0,
            last_returned: None,
            stopped: false,
            stop_at: None,
            decisions: 0,
        }
    }
}

pub fn end_of_execution_lines() {
    log("E end".to_string());
    log(format!("S {}", schedule_hex()));
}

impl<S: Scheduler> Scheduler for Recorder<S> {
    fn new_execution(&mut self) -> Option<Schedule> {
        if self.execs > 0 {
            // the previous execution ended without failure: its schedule is still in CURRENT_SCHEDULE
            end_of_execution_lines();
        }
        let r = self.inner.new_execution();
        self.decisions = 0;
        match &r {
            Some(s) => {
                log(format!("X {} {}", self.execs, s.seed));
                if !s.steps.is_empty() {
                    violation("new_execution returned a non-empty schedule".into());
                }
                self.execs += 1;
                self.last_returned = None;
                self.stopped = false;
                *LAST_CHOICE.lock().unwrap() = None;
            }
            None => log("X end".to_string()),
        }
        r
    }

    fn next_task(&mut self, runnable: &[&Task], current: Option<TaskId>, is_yielding: bool) -> Option<TaskId> {
        let ids: Vec<usize> = runnable.iter().map(|t| usize::from(t.id())).collect();
        // ---- C08 contract, checked on every real call
        if ids.is_empty() {
            violation("offered list empty".into());
        }
        if !ids.windows(2).all(|w| w[0] < w[1]) {
            violation(format!("offered list not strictly ascending: {:?}", ids));
        }
        if self.stopped {
            violation("next_task called after the scheduler returned None".into());
        }
        let cur = current.map(usize::from);
        if cur != self.last_returned {
            violation(format!(
                "current={:?} but the task returned by the previous decision was {:?}",
                cur, self.last_returned
            ));
        }
        let r = if self.stop_at == Some(self.decisions) {
            None
        } else {
            self.inner.next_task(runnable, current, is_yielding)
        };
        self.decisions += 1;
        let ru = r.map(usize::from);
        if let Some(c) = ru {
            if !ids.contains(&c) {
                violation(format!("inner scheduler chose {} not in offered {:?}", c, ids));
            }
        } else {
            self.stopped = true;
        }
        self.last_returned = ru;
        *LAST_CHOICE.lock().unwrap() = ru;
        log(format!(
            "D {} {} {} > {}",
            ids.iter().map(|i| i.to_string()).collect::<Vec<_>>().join(","),
            cur.map(|c| c.to_string()).unwrap_or_else(|| "-".into()),
            if is_yielding { "y" } else { "n" },
            ru.map(|c| c.to_string()).unwrap_or_else(|| "-".into())
        ));
        r
    }

    fn next_u64(&mut self) -> u64 {
        let v = self.inner.next_u64();
        log(format!("R {}", v));
        v
    }
}
