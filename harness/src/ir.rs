//! The program IR shared with the Lean driver (DESIGN.md Appendix A). Line oriented text.
//!
//! ```text
//! === <name>
//! config steps=none|fail:N|cont:N [clocks=0|1]
//! obj <name> <kind> <args…>
//! task <k> thread|future
//!   <op> <operands…>
//! end
//! run rr:ITERS | random:SEED:ITERS | pct:SEED:DEPTH:ITERS | dfs[:MAX] | urw:SEED:ITERS | replay:<hex>
//! ```

#[derive(Clone, Debug)]
pub struct Op {
    pub name: String,
    pub args: Vec<String>,
}

impl Op {
    pub fn arg(&self, i: usize) -> &str {
        self.args.get(i).map(|s| s.as_str()).unwrap_or("")
    }
    pub fn num(&self, i: usize) -> u64 {
        self.arg(i).parse::<u64>().unwrap_or(0)
    }
}

#[derive(Clone, Debug)]
pub struct ObjDecl {
    pub name: String,
    pub kind: String,
    pub args: Vec<String>,
}

#[derive(Clone, Debug)]
pub struct TaskDecl {
    pub future: bool,
    pub ops: Vec<Op>,
}

#[derive(Clone, Debug, PartialEq)]
pub enum Steps {
    None,
    Fail(usize),
    Cont(usize),
}

#[derive(Clone, Debug)]
pub struct Program {
    pub name: String,
    pub steps: Steps,
    pub clocks: bool,
    /// `Config::max_time` in milliseconds (config time=MS)
    pub time_ms: Option<u64>,
    /// `config stop=N`: the scheduler answers "no task" at decision N of every execution
    pub stop_at: Option<usize>,
    pub objs: Vec<ObjDecl>,
    pub tasks: Vec<TaskDecl>,
    pub run: String,
    pub text: String,
}

impl Program {
    pub fn obj_index(&self, name: &str) -> Option<usize> {
        self.objs.iter().position(|o| o.name == name)
    }
}

pub fn parse_batch(text: &str) -> Vec<Program> {
    let mut out = Vec::new();
    let mut cur: Option<Program> = None;
    let mut cur_task: Option<(usize, TaskDecl)> = None;
    for raw in text.lines() {
        let line = raw.split('#').next().unwrap().trim();
        if line.is_empty() {
            continue;
        }
        if let Some(name) = line.strip_prefix("=== ") {
            if let Some(p) = cur.take() {
                out.push(p);
            }
            cur = Some(Program {
                name: name.trim().to_string(),
                steps: Steps::None,
                clocks: true,
                time_ms: None,
                stop_at: None,
                objs: vec![],
                tasks: vec![],
                run: "rr:1".into(),
                text: String::new(),
            });
            continue;
        }
        let p = match cur.as_mut() {
            Some(p) => p,
            None => continue,
        };
        p.text.push_str(line);
        p.text.push('\n');
        let toks: Vec<&str> = line.split_whitespace().collect();
        if let Some((_, t)) = cur_task.as_mut() {
            if toks[0] == "end" {
                let (k, t) = cur_task.take().unwrap();
                while p.tasks.len() <= k {
                    p.tasks.push(TaskDecl { future: false, ops: vec![] });
                }
                p.tasks[k] = t;
            } else {
                t.ops.push(Op {
                    name: toks[0].to_string(),
                    args: toks[1..].iter().map(|s| s.to_string()).collect(),
                });
            }
            continue;
        }
        match toks[0] {
            "config" => {
                for kv in &toks[1..] {
                    if let Some(v) = kv.strip_prefix("steps=") {
                        p.steps = if v == "none" {
                            Steps::None
                        } else if let Some(n) = v.strip_prefix("fail:") {
                            Steps::Fail(n.parse().unwrap())
                        } else if let Some(n) = v.strip_prefix("cont:") {
                            Steps::Cont(n.parse().unwrap())
                        } else {
                            Steps::None
                        };
                    } else if let Some(v) = kv.strip_prefix("time=") {
                        p.time_ms = v.parse().ok();
                    } else if let Some(v) = kv.strip_prefix("stop=") {
                        p.stop_at = v.parse().ok();
                    } else if let Some(v) = kv.strip_prefix("clocks=") {
                        p.clocks = v != "0";
                    }
                }
            }
            "obj" => p.objs.push(ObjDecl {
                name: toks[1].to_string(),
                kind: toks[2].to_string(),
                args: toks[3..].iter().map(|s| s.to_string()).collect(),
            }),
            "task" => {
                let k: usize = toks[1].parse().unwrap();
                cur_task = Some((
                    k,
                    TaskDecl {
                        future: toks.get(2) == Some(&"future"),
                        ops: vec![],
                    },
                ));
            }
            "run" => p.run = toks[1].to_string(),
            _ => {}
        }
    }
    if let Some(p) = cur.take() {
        out.push(p);
    }
    out
}
