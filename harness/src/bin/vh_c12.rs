//! vh_c12 — differential harness for property C12 (failure reporting / schedule persistence / replay).
//!
//!   vh_c12 child  <spec>            run the sequence of Shuttle runs `<spec>` in THIS process
//!   vh_c12 replay <item> <index>    replay one emitted schedule (env VH_C12_SCHED = string | VH_C12_SCHED_FILE = path)
//!   vh_c12 parent <spec>            run `child <spec>` as a subprocess, attribute emissions, replay, print canonical lines
//!   vh_c12 sweep  <seed> <count>    `parent` on `count` pseudo-random specs (length 1..4), lines prefixed by `spec=<spec> `
//!
//! spec  := item (',' item)*
//! item  := persist ':' body ['+' k] ['@' t]
//! persist := none | print | file
//! body  := panic_main | panic_thread | panic_future | panic_lock | deadlock | stepfail | stepcont | pass
//! k     := number of extra `yield_now()` steps the main task performs first (changes the schedule length)
//! t     := OS thread the run is executed on (0 = the process's main thread, default; t>=1 = persistent worker t)
//!
//! canonical line (parent / sweep):
//!   run <i> persist=<p> kind=<k> raised=<class> emitted=<stderr:n,file:n> replay=<same|differs|n/a> len=<n>
//! (`len` = number of schedule steps recorded when the run failed; for pass/stepcont the final number.)
use shuttle::scheduler::{ReplayScheduler, RoundRobinScheduler};
use shuttle::{Config, FailurePersistence, MaxSteps, Runner};
use shuttle_engine::runtime::task::{Task, TaskId};
use shuttle_engine::scheduler::{Schedule, Scheduler};
use std::any::Any;
use std::collections::BTreeSet;
use std::io::Write;
use std::panic::{catch_unwind, AssertUnwindSafe};
use std::path::{Path, PathBuf};
use std::process::{Command, Stdio};
use std::sync::atomic::{AtomicUsize, Ordering};
use std::sync::{mpsc, Arc};

const MARK: &str = "@@VH_C12";
const STEP_BASE: usize = 5;

// ---------------------------------------------------------------------------------------------
// spec
// ---------------------------------------------------------------------------------------------

#[derive(Clone, Copy, Debug, PartialEq, Eq)]
enum Persist {
    None,
    Print,
    File,
}

#[derive(Clone, Copy, Debug, PartialEq, Eq)]
enum Body {
    PanicMain,
    PanicThread,
    PanicFuture,
    PanicLock,
    Deadlock,
    StepFail,
    StepCont,
    Pass,
}

const BODIES: [Body; 8] = [
    Body::PanicMain,
    Body::PanicThread,
    Body::PanicFuture,
    Body::PanicLock,
    Body::Deadlock,
    Body::StepFail,
    Body::StepCont,
    Body::Pass,
];

#[derive(Clone, Copy, Debug)]
struct Item {
    persist: Persist,
    body: Body,
    k: usize,
    thread: usize,
}

impl Persist {
    fn name(self) -> &'static str {
        match self {
            Persist::None => "none",
            Persist::Print => "print",
            Persist::File => "file",
        }
    }
}

impl Body {
    fn name(self) -> &'static str {
        match self {
            Body::PanicMain => "panic_main",
            Body::PanicThread => "panic_thread",
            Body::PanicFuture => "panic_future",
            Body::PanicLock => "panic_lock",
            Body::Deadlock => "deadlock",
            Body::StepFail => "stepfail",
            Body::StepCont => "stepcont",
            Body::Pass => "pass",
        }
    }
    /// the model's `FailKind`
    fn kind(self) -> &'static str {
        match self {
            Body::PanicMain | Body::PanicThread | Body::PanicFuture | Body::PanicLock => "taskPanic",
            Body::Deadlock => "deadlock",
            Body::StepFail => "stepBoundFail",
            Body::StepCont => "stepBoundContinue",
            Body::Pass => "pass",
        }
    }
}

fn parse_item(s: &str) -> Result<Item, String> {
    let (p, rest) = s.split_once(':').ok_or_else(|| format!("item `{s}`: missing ':'"))?;
    let persist = match p {
        "none" => Persist::None,
        "print" => Persist::Print,
        "file" => Persist::File,
        _ => return Err(format!("item `{s}`: unknown persistence `{p}`")),
    };
    let (rest, thread) = match rest.split_once('@') {
        Some((a, t)) => (a, t.parse::<usize>().map_err(|e| format!("item `{s}`: thread: {e}"))?),
        None => (rest, 0),
    };
    let (b, k) = match rest.split_once('+') {
        Some((a, k)) => (a, k.parse::<usize>().map_err(|e| format!("item `{s}`: k: {e}"))?),
        None => (rest, 0),
    };
    let body = BODIES
        .iter()
        .copied()
        .find(|x| x.name() == b)
        .ok_or_else(|| format!("item `{s}`: unknown body `{b}`"))?;
    Ok(Item { persist, body, k, thread })
}

fn parse_spec(s: &str) -> Result<Vec<Item>, String> {
    s.split(',').filter(|x| !x.is_empty()).map(parse_item).collect()
}

fn item_string(it: &Item) -> String {
    let mut s = format!("{}:{}", it.persist.name(), it.body.name());
    if it.k != 0 {
        s.push_str(&format!("+{}", it.k));
    }
    if it.thread != 0 {
        s.push_str(&format!("@{}", it.thread));
    }
    s
}

// ---------------------------------------------------------------------------------------------
// bodies
// ---------------------------------------------------------------------------------------------

/// The payload every panicking body raises: typed (not a string), carries the run index, so that
/// "the run fails by re-raising THAT task's own payload" is checked by identity of type and value.
#[derive(Debug, PartialEq, Eq)]
struct VhPayload(usize);

fn max_steps_for(it: &Item) -> MaxSteps {
    match it.body {
        Body::StepFail => MaxSteps::FailAfter(STEP_BASE + it.k),
        Body::StepCont => MaxSteps::ContinueAfter(STEP_BASE + it.k),
        _ => MaxSteps::FailAfter(10_000),
    }
}

fn run_body(body: Body, k: usize, idx: usize) {
    use shuttle::sync::Mutex;
    use shuttle::thread;
    for _ in 0..k {
        thread::yield_now();
    }
    match body {
        Body::PanicMain => std::panic::panic_any(VhPayload(idx)),
        Body::PanicThread => {
            let h = thread::spawn(move || {
                thread::yield_now();
                std::panic::panic_any(VhPayload(idx));
            });
            let _ = h.join();
        }
        Body::PanicFuture => {
            let h = shuttle::future::spawn(async move {
                shuttle::future::yield_now().await;
                if idx != usize::MAX {
                    std::panic::panic_any(VhPayload(idx));
                }
                0usize
            });
            let _ = shuttle::future::block_on(h);
        }
        Body::PanicLock => {
            let m = Arc::new(Mutex::new(0usize));
            let n = Arc::new(Mutex::new(0usize));
            let m2 = Arc::clone(&m);
            // a second task that ends up queued on `m` while the main task panics holding it
            let _h = thread::spawn(move || {
                *m2.lock().unwrap() += 1;
            });
            let _g1 = m.lock().unwrap();
            let _g2 = n.lock().unwrap();
            thread::yield_now();
            std::panic::panic_any(VhPayload(idx));
        }
        Body::Deadlock => {
            let a = Arc::new(Mutex::new(0usize));
            let b = Arc::new(Mutex::new(0usize));
            let (a1, b1) = (Arc::clone(&a), Arc::clone(&b));
            let (a2, b2) = (Arc::clone(&a), Arc::clone(&b));
            let t1 = thread::spawn(move || {
                let _x = a1.lock().unwrap();
                thread::yield_now();
                let _y = b1.lock().unwrap();
            });
            let t2 = thread::spawn(move || {
                let _y = b2.lock().unwrap();
                thread::yield_now();
                let _x = a2.lock().unwrap();
            });
            let _ = t1.join();
            let _ = t2.join();
        }
        Body::StepFail | Body::StepCont => loop {
            thread::yield_now();
        },
        Body::Pass => {
            let m = Arc::new(Mutex::new(0usize));
            let m2 = Arc::clone(&m);
            let h = thread::spawn(move || {
                *m2.lock().unwrap() += 1;
            });
            *m.lock().unwrap() += 1;
            h.join().unwrap();
        }
    }
}

/// Scheduler wrapper counting the schedule steps (`Some` task choices + random draws), i.e. the
/// value `CurrentSchedule::len()` has when the run fails.
struct Counting<S> {
    inner: S,
    count: Arc<AtomicUsize>,
}

impl<S: Scheduler> Scheduler for Counting<S> {
    fn new_execution(&mut self) -> Option<Schedule> {
        let r = self.inner.new_execution();
        if r.is_some() {
            self.count.store(0, Ordering::SeqCst);
        }
        r
    }
    fn next_task(&mut self, runnable: &[&Task], current: Option<TaskId>, is_yielding: bool) -> Option<TaskId> {
        let r = self.inner.next_task(runnable, current, is_yielding);
        if r.is_some() {
            self.count.fetch_add(1, Ordering::SeqCst);
        }
        r
    }
    fn next_u64(&mut self) -> u64 {
        self.count.fetch_add(1, Ordering::SeqCst);
        self.inner.next_u64()
    }
}

fn classify(r: &Result<(), Box<dyn Any + Send>>, idx: usize) -> String {
    match r {
        Ok(()) => "none".to_string(),
        Err(p) => {
            if let Some(v) = p.downcast_ref::<VhPayload>() {
                if v.0 == idx {
                    "payload".to_string()
                } else {
                    format!("foreign-payload-{}", v.0)
                }
            } else {
                let msg = p
                    .downcast_ref::<String>()
                    .cloned()
                    .or_else(|| p.downcast_ref::<&'static str>().map(|s| s.to_string()));
                match msg {
                    Some(m) if m.starts_with("deadlock! blocked tasks: [") => "deadlock".to_string(),
                    Some(m) if m.starts_with("exceeded max_steps bound ") => {
                        let n: String = m["exceeded max_steps bound ".len()..]
                            .chars()
                            .take_while(|c| c.is_ascii_digit())
                            .collect();
                        format!("stepbound-{n}")
                    }
                    Some(m) => format!("other[{}]", m.lines().next().unwrap_or("").replace(' ', "_")),
                    None => "other[non-string]".to_string(),
                }
            }
        }
    }
}

/// what the property text says must be raised
fn expected_raised(it: &Item) -> String {
    match it.body {
        Body::PanicMain | Body::PanicThread | Body::PanicFuture | Body::PanicLock => "payload".into(),
        Body::Deadlock => "deadlock".into(),
        Body::StepFail => format!("stepbound-{}", STEP_BASE + it.k),
        Body::StepCont | Body::Pass => "none".into(),
    }
}

fn one_run<S: Scheduler + 'static>(sched: S, config: Config, body: Body, k: usize, idx: usize) -> (String, usize) {
    let count = Arc::new(AtomicUsize::new(0));
    let sched = Counting {
        inner: sched,
        count: Arc::clone(&count),
    };
    let r = catch_unwind(AssertUnwindSafe(|| {
        let runner = Runner::new(sched, config);
        runner.run(move || run_body(body, k, idx));
    }));
    (classify(&r, idx), count.load(Ordering::SeqCst))
}

// ---------------------------------------------------------------------------------------------
// child
// ---------------------------------------------------------------------------------------------

fn list_dir(dir: &Path) -> BTreeSet<String> {
    let mut s = BTreeSet::new();
    if let Ok(rd) = std::fs::read_dir(dir) {
        for e in rd.flatten() {
            s.insert(e.file_name().to_string_lossy().to_string());
        }
    }
    s
}

type Job = Box<dyn FnOnce() + Send + 'static>;

struct Workers {
    txs: std::collections::BTreeMap<usize, mpsc::Sender<Job>>,
}

impl Workers {
    fn run_on(&mut self, t: usize, job: Job) {
        if t == 0 {
            job();
            return;
        }
        let tx = self.txs.entry(t).or_insert_with(|| {
            let (tx, rx) = mpsc::channel::<Job>();
            std::thread::Builder::new()
                .name(format!("vh-worker-{t}"))
                .spawn(move || {
                    while let Ok(j) = rx.recv() {
                        j();
                    }
                })
                .unwrap();
            tx
        });
        let (dtx, drx) = mpsc::channel::<()>();
        tx.send(Box::new(move || {
            job();
            let _ = dtx.send(());
        }))
        .unwrap();
        drx.recv().unwrap();
    }
}

fn child(spec: &str) -> i32 {
    let items = match parse_spec(spec) {
        Ok(v) => v,
        Err(e) => {
            eprintln!("{e}");
            return 2;
        }
    };
    let dir = PathBuf::from(std::env::var("VH_C12_DIR").expect("VH_C12_DIR not set"));
    // Silence the default "thread panicked at" message.  Installed BEFORE the first Shuttle run, so
    // Shuttle's once-installed hook wraps this one as its `original_hook`.
    std::panic::set_hook(Box::new(|_| {}));
    let mut workers = Workers {
        txs: Default::default(),
    };
    for (i, it) in items.iter().enumerate() {
        let it = *it;
        let dir = dir.clone();
        workers.run_on(
            it.thread,
            Box::new(move || {
                let before = list_dir(&dir);
                eprintln!("{MARK} BEGIN {i}");
                let _ = std::io::stderr().flush();
                let mut config = Config::new();
                config.failure_persistence = match it.persist {
                    Persist::None => FailurePersistence::None,
                    Persist::Print => FailurePersistence::Print,
                    Persist::File => FailurePersistence::File(Some(dir.clone())),
                };
                config.max_steps = max_steps_for(&it);
                config.silence_warnings = true;
                let (raised, len) = one_run(RoundRobinScheduler::new(1), config, it.body, it.k, i);
                eprintln!("{MARK} END {i}");
                let _ = std::io::stderr().flush();
                let after = list_dir(&dir);
                let new: Vec<String> = after.difference(&before).cloned().collect();
                println!("run {i} raised={raised} len={len} newfiles={}", new.join(";"));
                let _ = std::io::stdout().flush();
            }),
        );
    }
    0
}

fn replay_child(item: &str, idx: usize) -> i32 {
    let it = match parse_item(item) {
        Ok(v) => v,
        Err(e) => {
            eprintln!("{e}");
            return 2;
        }
    };
    std::panic::set_hook(Box::new(|_| {}));
    let sched = if let Ok(path) = std::env::var("VH_C12_SCHED_FILE") {
        match catch_unwind(|| ReplayScheduler::new_from_file(path)) {
            Ok(Ok(s)) => s,
            Ok(Err(e)) => {
                println!("replay raised=unreadable[{e}] len=0");
                return 0;
            }
            Err(_) => {
                println!("replay raised=undecodable len=0");
                return 0;
            }
        }
    } else {
        let s = std::env::var("VH_C12_SCHED").expect("VH_C12_SCHED or VH_C12_SCHED_FILE");
        match catch_unwind(|| ReplayScheduler::new_from_encoded(&s)) {
            Ok(s) => s,
            Err(_) => {
                println!("replay raised=undecodable len=0");
                return 0;
            }
        }
    };
    // `shuttle::replay` would use the default config; the failure may depend on `max_steps`, so
    // replay under the original run's bound.  Persistence off: nothing to attribute here.
    let mut config = Config::new();
    config.failure_persistence = FailurePersistence::None;
    config.max_steps = max_steps_for(&it);
    config.silence_warnings = true;
    let (raised, len) = one_run(sched, config, it.body, it.k, idx);
    println!("replay raised={raised} len={len}");
    0
}

// ---------------------------------------------------------------------------------------------
// parent
// ---------------------------------------------------------------------------------------------

fn fresh_dir(tag: &str) -> PathBuf {
    static N: AtomicUsize = AtomicUsize::new(0);
    let base = if Path::new("/verif/work").is_dir() {
        PathBuf::from("/verif/work")
    } else {
        std::env::temp_dir()
    };
    let d = base.join(format!(
        "vh_c12_{}_{}_{}",
        std::process::id(),
        N.fetch_add(1, Ordering::SeqCst),
        tag
    ));
    std::fs::create_dir_all(&d).expect("create temp dir");
    d
}

/// extract the schedule strings printed by `persist_failure` in one stderr block
fn stderr_schedules(block: &[&str]) -> Vec<String> {
    let mut out = Vec::new();
    let mut i = 0;
    while i < block.len() {
        if block[i] == "failing schedule:" && i + 1 < block.len() && block[i + 1] == "\"" {
            let mut j = i + 2;
            let mut lines = Vec::new();
            while j < block.len() && block[j] != "\"" {
                lines.push(block[j]);
                j += 1;
            }
            out.push(lines.join("\n"));
            i = j + 1;
        } else {
            i += 1;
        }
    }
    out
}

fn field<'a>(line: &'a str, key: &str) -> Option<&'a str> {
    line.split(' ').find_map(|w| w.strip_prefix(key).and_then(|r| r.strip_prefix('=')))
}

fn run_replay(exe: &Path, it: &Item, idx: usize, sched: Result<&str, &Path>) -> String {
    let mut cmd = Command::new(exe);
    cmd.arg("replay").arg(item_string(it)).arg(idx.to_string());
    cmd.env_remove("VH_C12_SCHED").env_remove("VH_C12_SCHED_FILE");
    match sched {
        Ok(s) => cmd.env("VH_C12_SCHED", s),
        Err(p) => cmd.env("VH_C12_SCHED_FILE", p),
    };
    cmd.stderr(Stdio::null());
    match cmd.output() {
        Ok(o) => {
            let so = String::from_utf8_lossy(&o.stdout).to_string();
            match so.lines().find(|l| l.starts_with("replay ")) {
                Some(l) => field(l, "raised").unwrap_or("?").to_string(),
                None => format!("crashed[{}]", o.status),
            }
        }
        Err(e) => format!("spawn-failed[{e}]"),
    }
}

fn parent(spec: &str) -> Result<Vec<String>, String> {
    let items = parse_spec(spec)?;
    let exe = std::env::current_exe().map_err(|e| e.to_string())?;
    let dir = fresh_dir("d");
    let out = Command::new(&exe)
        .arg("child")
        .arg(spec)
        .env("VH_C12_DIR", &dir)
        .stdin(Stdio::null())
        .output()
        .map_err(|e| e.to_string())?;
    let so = String::from_utf8_lossy(&out.stdout).to_string();
    let se = String::from_utf8_lossy(&out.stderr).to_string();
    let se_lines: Vec<&str> = se.lines().collect();
    let mut lines = Vec::new();
    for (i, it) in items.iter().enumerate() {
        let head = format!("run {i} persist={} kind={}", it.persist.name(), it.body.kind());
        let child_line = so.lines().find(|l| l.starts_with(&format!("run {i} ")));
        let Some(cl) = child_line else {
            lines.push(format!(
                "{head} raised=crashed[{}] emitted=stderr:?,file:? replay=n/a len=?",
                out.status.to_string().replace(' ', "_")
            ));
            continue;
        };
        let raised = field(cl, "raised").unwrap_or("?");
        let len = field(cl, "len").unwrap_or("?");
        let newfiles: Vec<&str> = field(cl, "newfiles")
            .unwrap_or("")
            .split(';')
            .filter(|s| !s.is_empty())
            .collect();
        let b = se_lines.iter().position(|l| *l == format!("{MARK} BEGIN {i}"));
        let e = se_lines.iter().position(|l| *l == format!("{MARK} END {i}"));
        let block: &[&str] = match (b, e) {
            (Some(b), Some(e)) if b < e => &se_lines[b + 1..e],
            _ => &[],
        };
        let scheds = stderr_schedules(block);
        // every emission must replay to the same failure class
        let mut verdicts = Vec::new();
        for s in &scheds {
            verdicts.push(run_replay(&exe, it, i, Ok(s)));
        }
        for f in &newfiles {
            verdicts.push(run_replay(&exe, it, i, Err(&dir.join(f))));
        }
        let replay = if verdicts.is_empty() {
            "n/a"
        } else if verdicts.iter().all(|v| v == raised) {
            "same"
        } else {
            "differs"
        };
        lines.push(format!(
            "{head} raised={raised} emitted=stderr:{},file:{} replay={replay} len={len}",
            scheds.len(),
            newfiles.len()
        ));
        if std::env::var("VH_C12_VERBOSE").is_ok() {
            eprintln!("# run {i} expected_raised={} replays={verdicts:?} block={block:?}", expected_raised(it));
        }
    }
    let _ = std::fs::remove_dir_all(&dir);
    Ok(lines)
}

// ---------------------------------------------------------------------------------------------
// sweep
// ---------------------------------------------------------------------------------------------

struct SplitMix(u64);
impl SplitMix {
    fn next(&mut self) -> u64 {
        self.0 = self.0.wrapping_add(0x9E37_79B9_7F4A_7C15);
        let mut z = self.0;
        z = (z ^ (z >> 30)).wrapping_mul(0xBF58_476D_1CE4_E5B9);
        z = (z ^ (z >> 27)).wrapping_mul(0x94D0_49BB_1331_11EB);
        z ^ (z >> 31)
    }
    fn below(&mut self, n: u64) -> u64 {
        self.next() % n
    }
}

fn random_spec(rng: &mut SplitMix) -> String {
    let n = 1 + rng.below(4) as usize;
    let mut items = Vec::new();
    for _ in 0..n {
        let persist = [Persist::None, Persist::Print, Persist::File][rng.below(3) as usize];
        // failing bodies a little more often than passing ones
        let body = BODIES[rng.below(BODIES.len() as u64) as usize];
        let k = [0, 0, 1, 2][rng.below(4) as usize];
        let thread = [0, 0, 0, 1][rng.below(4) as usize];
        items.push(item_string(&Item { persist, body, k, thread }));
    }
    items.join(",")
}

fn main() {
    let args: Vec<String> = std::env::args().collect();
    let code = match args.get(1).map(|s| s.as_str()) {
        Some("child") if args.len() == 3 => child(&args[2]),
        Some("replay") if args.len() == 4 => replay_child(&args[2], args[3].parse().expect("index")),
        Some("parent") if args.len() == 3 => match parent(&args[2]) {
            Ok(lines) => {
                for l in lines {
                    println!("{l}");
                }
                0
            }
            Err(e) => {
                eprintln!("{e}");
                2
            }
        },
        Some("sweep") if args.len() == 4 => {
            let seed: u64 = args[2].parse().expect("seed");
            let count: usize = args[3].parse().expect("count");
            let mut rng = SplitMix(seed);
            let mut code = 0;
            for _ in 0..count {
                let spec = random_spec(&mut rng);
                match parent(&spec) {
                    Ok(lines) => {
                        for l in lines {
                            println!("spec={spec} {l}");
                        }
                    }
                    Err(e) => {
                        eprintln!("spec={spec}: {e}");
                        code = 2;
                    }
                }
            }
            code
        }
        _ => {
            eprintln!("usage: vh_c12 child <spec> | replay <item> <index> | parent <spec> | sweep <seed> <count>");
            2
        }
    };
    std::process::exit(code);
}
