//! C20 differential harness: deterministic HashMap/HashSet (wrappers/collections/deterministic_collections)
//! and the DashMap/DashSet shim (wrappers/dashmap/dashmap_impl).
//!
//! Modes (all output on stdout, one record per line, no timing/addresses, so two runs of the same
//! command line must produce byte-identical output):
//!   hashers               `<constructor> <hash_one(1u64)> <hash_one(0xdeadbeefu64)> <hash_one("abc")>` for every way
//!                         of obtaining a deterministic HashMap/HashSet
//!   orders                `<constructor> <iteration order>` for a fixed 40-key content built through the paths
//!                         that can carry a foreign hasher (deserialisation, set operators) next to a reference
//!   vectors               SipHash-1-3 test vectors from the real std hasher (used to validate the Lean model)
//!   history <seed> <n>    n random op histories on the deterministic map/set vs a BTreeMap/BTreeSet reference
//!   dash <seed> <n>       n random DashMap/DashSet workloads under Shuttle's RandomScheduler, log replayed
//!                         sequentially on a plain map
use deterministic_collections::{HashMap as DMap, HashSet as DSet};
use shuttle::scheduler::RandomScheduler;
use shuttle::{Config, FailurePersistence, Runner};
use shuttle_dashmap_impl::{DashMap, DashSet, Entry, TryResult};
use std::collections::{BTreeMap, BTreeSet, HashMap as StdMap, HashSet as StdSet};
use std::hash::{BuildHasher, Hasher, RandomState};
use std::panic::{catch_unwind, AssertUnwindSafe};
use std::sync::{Arc, Mutex as StdMutex};

// ───────────────────────── inline PRNG (splitmix64) ─────────────────────────

struct Rng(u64);
impl Rng {
    fn new(seed: u64, stream: u64) -> Self {
        let mut r = Rng(seed ^ stream.wrapping_mul(0x9E37_79B9_7F4A_7C15) ^ 0xC20C_0115);
        r.next();
        r
    }
    fn next(&mut self) -> u64 {
        self.0 = self.0.wrapping_add(0x9E37_79B9_7F4A_7C15);
        let mut z = self.0;
        z = (z ^ (z >> 30)).wrapping_mul(0xBF58_476D_1CE4_E5B9);
        z = (z ^ (z >> 27)).wrapping_mul(0x94D0_49BB_1331_11EB);
        z ^ (z >> 31)
    }
    fn below(&mut self, n: u64) -> u64 {
        self.next() % n
    }
}

fn fnv(acc: &mut u64, s: &str) {
    for b in s.bytes() {
        *acc ^= b as u64;
        *acc = acc.wrapping_mul(0x0000_0100_0000_01B3);
    }
    *acc ^= 0x0a;
    *acc = acc.wrapping_mul(0x0000_0100_0000_01B3);
}
const FNV0: u64 = 0xcbf2_9ce4_8422_2325;

// ───────────────────────── mode: hashers ─────────────────────────

fn line(name: &str, s: &RandomState) {
    println!(
        "{} {:016x} {:016x} {:016x}",
        name,
        s.hash_one(1u64),
        s.hash_one(0xdead_beefu64),
        s.hash_one("abc")
    );
}

fn sample_map() -> DMap<u64, u64> {
    let mut m = DMap::new();
    for k in 0..12u64 {
        m.insert(k * 7 + 1, k);
    }
    m
}
fn sample_set(lo: u64, hi: u64) -> DSet<u64> {
    let mut s = DSet::new();
    for k in lo..hi {
        s.insert(k);
    }
    s
}

fn mode_hashers() {
    // ---- HashMap ----
    line("map.new", DMap::<u64, u64>::new().hasher());
    line("map.with_capacity_0", DMap::<u64, u64>::with_capacity(0).hasher());
    line("map.with_capacity_100", DMap::<u64, u64>::with_capacity(100).hasher());
    line("map.default", <DMap<u64, u64> as Default>::default().hasher());
    line("map.from_iter", DMap::<u64, u64>::from_iter((0..9u64).map(|k| (k, k))).hasher());
    line("map.from_iter_empty", DMap::<u64, u64>::from_iter(std::iter::empty()).hasher());
    line("map.collect", (0..9u64).map(|k| (k, k)).collect::<DMap<u64, u64>>().hasher());
    {
        let std: StdMap<u64, u64> = (0..9u64).map(|k| (k, k)).collect();
        line("map.from_std", DMap::from(std).hasher());
        let std: StdMap<u64, u64> = StdMap::new();
        line("map.from_std_empty", DMap::from(std).hasher());
        let std: StdMap<u64, u64> = (0..9u64).map(|k| (k, k)).collect();
        let d: DMap<u64, u64> = std.into();
        line("map.std_into", d.hasher());
    }
    line("map.from_array", DMap::from([(1u64, 2u64), (3, 4)]).hasher());
    {
        let d: DMap<u64, u64> = [(1u64, 2u64), (3, 4)].into();
        line("map.array_into", d.hasher());
    }
    line("map.clone", sample_map().clone().hasher());
    {
        let mut d = DMap::<u64, u64>::new();
        d.clone_from(&sample_map());
        line("map.clone_from", d.hasher());
    }
    {
        let mut d = DMap::<u64, u64>::new();
        d.extend((0..300u64).map(|k| (k, k)));
        line("map.extend", d.hasher());
        let other = sample_map();
        let mut d = DMap::<u64, u64>::new();
        d.extend(other.iter());
        line("map.extend_ref", d.hasher());
    }
    line("map.into_iter_collect", sample_map().into_iter().collect::<DMap<u64, u64>>().hasher());
    {
        let mut d = sample_map();
        let drained: DMap<u64, u64> = d.drain().collect();
        line("map.drain_collect", drained.hasher());
        line("map.after_drain", d.hasher());
    }
    {
        let mut d = sample_map();
        d.clear();
        line("map.after_clear", d.hasher());
        let mut d = sample_map();
        d.retain(|k, _| k % 2 == 0);
        line("map.after_retain", d.hasher());
        let mut d = sample_map();
        d.shrink_to_fit();
        line("map.after_shrink_to_fit", d.hasher());
        let mut d = sample_map();
        d.reserve(10_000);
        line("map.after_reserve", d.hasher());
        let mut d = sample_map();
        for k in 0..200u64 {
            d.remove(&k);
        }
        for k in 0..2000u64 {
            d.insert(k, k);
        }
        line("map.after_rehash_growth", d.hasher());
    }
    {
        let mut d = DMap::<u64, u64>::new();
        *d.entry(5).or_insert(0) += 1;
        d.entry(5).and_modify(|v| *v += 1).or_default();
        d.entry(6).or_insert_with(|| 9);
        line("map.entry_api", d.hasher());
    }
    {
        let mut d = sample_map();
        let taken = std::mem::take(&mut d);
        line("map.mem_take_taken", taken.hasher());
        line("map.mem_take_left", d.hasher());
    }
    {
        let std: StdMap<u64, u64> = sample_map().into();
        let back: DMap<u64, u64> = std.into();
        line("map.std_roundtrip", back.hasher());
    }
    line(
        "map.into_keys_zip_collect",
        sample_map().into_keys().map(|k| (k, 0u64)).collect::<DMap<u64, u64>>().hasher(),
    );
    {
        let json = serde_json::to_string(&sample_map()).unwrap();
        let a: DMap<u64, u64> = serde_json::from_str(&json).unwrap();
        let b: DMap<u64, u64> = serde_json::from_str(&json).unwrap();
        line("map.deserialize_json#1", a.hasher());
        line("map.deserialize_json#2", b.hasher());
        let e: DMap<u64, u64> = serde_json::from_str("{}").unwrap();
        line("map.deserialize_json_empty", e.hasher());
        let v = serde_json::to_value(&sample_map()).unwrap();
        let c: DMap<u64, u64> = serde_json::from_value(v).unwrap();
        line("map.deserialize_value", c.hasher());
        // a map nested inside another deserialised structure
        let nested: Vec<DMap<u64, u64>> = serde_json::from_str(&format!("[{json}]")).unwrap();
        line("map.deserialize_nested", nested[0].hasher());
        // deserialise, then clone / extend the result: the foreign hasher is inherited
        line("map.deserialize_then_clone", a.clone().hasher());
    }

    // ---- HashSet ----
    line("set.new", DSet::<u64>::new().hasher());
    line("set.with_capacity_0", DSet::<u64>::with_capacity(0).hasher());
    line("set.with_capacity_100", DSet::<u64>::with_capacity(100).hasher());
    line("set.default", <DSet<u64> as Default>::default().hasher());
    line("set.from_iter", DSet::<u64>::from_iter(0..9u64).hasher());
    line("set.from_iter_empty", DSet::<u64>::from_iter(std::iter::empty()).hasher());
    line("set.collect", (0..9u64).collect::<DSet<u64>>().hasher());
    {
        let std: StdSet<u64> = (0..9u64).collect();
        line("set.from_std", DSet::from(std).hasher());
        let std: StdSet<u64> = StdSet::new();
        line("set.from_std_empty", DSet::from(std).hasher());
        let std: StdSet<u64> = (0..9u64).collect();
        let d: DSet<u64> = std.into();
        line("set.std_into", d.hasher());
    }
    line("set.from_array", DSet::from([1u64, 2, 3]).hasher());
    {
        let d: DSet<u64> = [1u64, 2, 3].into();
        line("set.array_into", d.hasher());
    }
    line("set.clone", sample_set(0, 9).clone().hasher());
    {
        let mut d = DSet::<u64>::new();
        d.clone_from(&sample_set(0, 9));
        line("set.clone_from", d.hasher());
    }
    {
        let mut d = DSet::<u64>::new();
        d.extend(0..300u64);
        line("set.extend", d.hasher());
        let other = sample_set(0, 9);
        let mut d = DSet::<u64>::new();
        d.extend(other.iter());
        line("set.extend_ref", d.hasher());
    }
    line("set.into_iter_collect", sample_set(0, 9).into_iter().collect::<DSet<u64>>().hasher());
    {
        let mut d = sample_set(0, 9);
        let drained: DSet<u64> = d.drain().collect();
        line("set.drain_collect", drained.hasher());
        line("set.after_drain", d.hasher());
        let mut d = sample_set(0, 9);
        d.clear();
        line("set.after_clear", d.hasher());
        let mut d = sample_set(0, 9);
        d.retain(|k| k % 2 == 0);
        line("set.after_retain", d.hasher());
        let mut d = sample_set(0, 9);
        d.shrink_to_fit();
        line("set.after_shrink_to_fit", d.hasher());
        let mut d = sample_set(0, 9);
        d.reserve(10_000);
        line("set.after_reserve", d.hasher());
    }
    {
        let mut d = sample_set(0, 9);
        let taken = std::mem::take(&mut d);
        line("set.mem_take_taken", taken.hasher());
        line("set.mem_take_left", d.hasher());
    }
    {
        let std: StdSet<u64> = sample_set(0, 9).into();
        let back: DSet<u64> = std.into();
        line("set.std_roundtrip", back.hasher());
    }
    {
        let a = sample_set(0, 9);
        let b = sample_set(5, 14);
        // method forms (through Deref), collected into the deterministic set: go through FromIterator
        line("set.union_collect", a.union(&b).copied().collect::<DSet<u64>>().hasher());
        line("set.intersection_collect", a.intersection(&b).copied().collect::<DSet<u64>>().hasher());
        line("set.difference_collect", a.difference(&b).copied().collect::<DSet<u64>>().hasher());
        line(
            "set.symmetric_difference_collect",
            a.symmetric_difference(&b).copied().collect::<DSet<u64>>().hasher(),
        );
        // operator forms
        line("set.bitor", (&a | &b).hasher());
        line("set.bitand", (&a & &b).hasher());
        line("set.bitxor", (&a ^ &b).hasher());
        line("set.sub", (&a - &b).hasher());
        let e1 = DSet::<u64>::new();
        let e2 = DSet::<u64>::new();
        line("set.bitor_empty", (&e1 | &e2).hasher());
        line("set.bitand_empty", (&e1 & &e2).hasher());
        line("set.bitxor_empty", (&e1 ^ &e2).hasher());
        line("set.sub_empty", (&e1 - &e2).hasher());
        // an operator result that is then cloned / extended keeps whatever hasher it got
        line("set.bitor_then_clone", (&a | &b).clone().hasher());
    }
    {
        let json = serde_json::to_string(&sample_set(0, 9)).unwrap();
        let a: DSet<u64> = serde_json::from_str(&json).unwrap();
        let b: DSet<u64> = serde_json::from_str(&json).unwrap();
        line("set.deserialize_json#1", a.hasher());
        line("set.deserialize_json#2", b.hasher());
        let e: DSet<u64> = serde_json::from_str("[]").unwrap();
        line("set.deserialize_json_empty", e.hasher());
        let v = serde_json::to_value(&sample_set(0, 9)).unwrap();
        let c: DSet<u64> = serde_json::from_value(v).unwrap();
        line("set.deserialize_value", c.hasher());
        line("set.deserialize_then_clone", a.clone().hasher());
    }
}

// ───────────────────────── mode: orders ─────────────────────────

fn join<T: std::fmt::Display>(it: impl Iterator<Item = T>) -> String {
    let v: Vec<String> = it.map(|x| x.to_string()).collect();
    v.join(",")
}

fn mode_orders() {
    // 40 keys, inserted in a fixed order
    let keys: Vec<u64> = (0..40u64).map(|i| (i * 2_654_435_761) % 1000).collect();
    let m: DMap<u64, u64> = keys.iter().map(|k| (*k, *k)).collect();
    println!("ref.map.from_iter {}", join(m.keys()));
    let m2: DMap<u64, u64> = keys.iter().map(|k| (*k, *k)).collect();
    println!("map.from_iter_again {}", join(m2.keys()));
    println!("map.clone {}", join(m.clone().keys()));
    // JSON text lists the entries in `m`'s iteration order; a fixed-hasher deserialisation is
    // therefore a function of that text alone.
    let json = serde_json::to_string(&m).unwrap();
    let a: DMap<u64, u64> = serde_json::from_str(&json).unwrap();
    let b: DMap<u64, u64> = serde_json::from_str(&json).unwrap();
    println!("map.deserialize_json#1 {}", join(a.keys()));
    println!("map.deserialize_json#2 {}", join(b.keys()));

    // NOT a defect of the wrapper, but worth knowing: converting a std map (random hasher) re-inserts the
    // entries in the std map's (random) iteration order, and hashbrown's layout depends on insertion order,
    // so the *iteration order* of the result is not reproducible although its hasher is the fixed one.
    let stdm: StdMap<u64, u64> = keys.iter().map(|k| (*k, *k)).collect();
    println!("note.map.from_std {}", join(DMap::from(stdm).keys()));

    let s: DSet<u64> = keys.iter().copied().collect();
    println!("ref.set.from_iter {}", join(s.iter()));
    let json = serde_json::to_string(&s).unwrap();
    let a: DSet<u64> = serde_json::from_str(&json).unwrap();
    let b: DSet<u64> = serde_json::from_str(&json).unwrap();
    println!("set.deserialize_json#1 {}", join(a.iter()));
    println!("set.deserialize_json#2 {}", join(b.iter()));

    let x: DSet<u64> = keys[..30].iter().copied().collect();
    let y: DSet<u64> = keys[15..].iter().copied().collect();
    println!("ref.set.union_collect {}", join(x.union(&y).copied().collect::<DSet<u64>>().iter()));
    println!("set.bitor#1 {}", join((&x | &y).iter()));
    println!("set.bitor#2 {}", join((&x | &y).iter()));
    println!(
        "ref.set.intersection_collect {}",
        join(x.intersection(&y).copied().collect::<DSet<u64>>().iter())
    );
    println!("set.bitand#1 {}", join((&x & &y).iter()));
    println!("set.bitand#2 {}", join((&x & &y).iter()));
    println!(
        "ref.set.symmetric_difference_collect {}",
        join(x.symmetric_difference(&y).copied().collect::<DSet<u64>>().iter())
    );
    println!("set.bitxor#1 {}", join((&x ^ &y).iter()));
    println!("set.bitxor#2 {}", join((&x ^ &y).iter()));
    println!(
        "ref.set.difference_collect {}",
        join(x.difference(&y).copied().collect::<DSet<u64>>().iter())
    );
    println!("set.sub#1 {}", join((&x - &y).iter()));
    println!("set.sub#2 {}", join((&x - &y).iter()));
}

// ───────────────────────── mode: vectors ─────────────────────────

/// A std `RandomState` with chosen keys, obtained exactly the way the wrapper crate obtains its fixed one.
fn state_with_keys(k0: u64, k1: u64) -> RandomState {
    unsafe { std::mem::transmute::<(u64, u64), RandomState>((k0, k1)) }
}

fn hex(b: &[u8]) -> String {
    let mut s = String::new();
    for x in b {
        s.push_str(&format!("{:02x}", x));
    }
    if s.is_empty() {
        s.push('-');
    }
    s
}

fn mode_vectors() {
    let fixed = DMap::<u64, u64>::new();
    let keysets: [(u64, u64); 4] = [
        (0, 0),
        (0x0706_0504_0302_0100, 0x0f0e_0d0c_0b0a_0908),
        (u64::MAX, 1),
        (0x0123_4567_89ab_cdef, 0xfedc_ba98_7654_3210),
    ];
    // sanity: transmute((0,0)) is the wrapper's state
    assert_eq!(fixed.hasher().hash_one(12345u64), state_with_keys(0, 0).hash_one(12345u64));
    let xs: [u64; 9] = [0, 1, 2, 0xff, 0xdead_beef, 0x0102_0304_0506_0708, u64::MAX, 1 << 63, 0x8000_0000_0000_0001];
    for (k0, k1) in keysets {
        let st = state_with_keys(k0, k1);
        for x in xs {
            println!("u64 {:x} {:x} {:x} {:x}", k0, k1, x, st.hash_one(x));
        }
        println!("usize {:x} {:x} {:x} {:x}", k0, k1, 77usize, st.hash_one(77usize));
        println!("u32 {:x} {:x} {:x} {:x}", k0, k1, 0xcafe_f00du32, st.hash_one(0xcafe_f00du32));
        println!("u8 {:x} {:x} {:x} {:x}", k0, k1, 0xabu8, st.hash_one(0xabu8));
        let text = "The quick brown fox jumps over the lazy dog";
        for n in [0usize, 1, 3, 6, 7, 8, 9, 15, 16, 17, 23, 43] {
            let s = &text[..n];
            println!("str {:x} {:x} {} {:x}", k0, k1, hex(s.as_bytes()), st.hash_one(s));
            let mut h = st.build_hasher();
            h.write(s.as_bytes());
            println!("raw {:x} {:x} {} {:x}", k0, k1, hex(s.as_bytes()), h.finish());
        }
        println!("slice {:x} {:x} {} {:x}", k0, k1, hex(b"abcde"), st.hash_one(&b"abcde"[..]));
        println!("string {:x} {:x} {} {:x}", k0, k1, hex(b"abc"), st.hash_one(String::from("abc")));
        println!("pair {:x} {:x} {:x},{:x} {:x}", k0, k1, 3u64, 4u64, st.hash_one((3u64, 4u64)));
        // split writes == one write (streaming)
        let mut h = st.build_hasher();
        h.write(&text.as_bytes()[..5]);
        h.write(&text.as_bytes()[5..20]);
        println!("raw {:x} {:x} {} {:x}", k0, k1, hex(&text.as_bytes()[..20]), h.finish());
    }
    // the crate also re-exports siphasher's SipHasher13 as `DefaultHasher`: same function
    let mut h = deterministic_collections::DefaultHasher::new_with_keys(0, 0);
    h.write(b"abc");
    h.write_u8(0xff);
    println!("reexport-str 0 0 {} {:x}", hex(b"abc"), h.finish());
}

// ───────────────────────── mode: history ─────────────────────────

fn history_map(rng: &mut Rng, idx: u64) {
    let kr = [8u64, 64, 512, 4096][rng.below(4) as usize];
    let nops = 20 + rng.below(400);
    let mut d: DMap<u64, u64> = DMap::new();
    let mut d2: DMap<u64, u64> = Default::default();
    let mut r: BTreeMap<u64, u64> = BTreeMap::new();
    let (mut dd, mut dr) = (FNV0, FNV0);
    for _ in 0..nops {
        let w = rng.below(100);
        let k = rng.below(kr);
        let v = rng.below(1000);
        if w < 40 {
            fnv(&mut dd, &format!("ins {:?}", d.insert(k, v)));
            d2.insert(k, v);
            fnv(&mut dr, &format!("ins {:?}", r.insert(k, v)));
        } else if w < 58 {
            fnv(&mut dd, &format!("rem {:?}", d.remove(&k)));
            d2.remove(&k);
            fnv(&mut dr, &format!("rem {:?}", r.remove(&k)));
        } else if w < 66 {
            fnv(&mut dd, &format!("get {:?}", d.get(&k)));
            fnv(&mut dr, &format!("get {:?}", r.get(&k)));
        } else if w < 70 {
            fnv(&mut dd, &format!("has {:?}", d.contains_key(&k)));
            fnv(&mut dr, &format!("has {:?}", r.contains_key(&k)));
        } else if w < 73 {
            fnv(&mut dd, &format!("len {} {}", d.len(), d.is_empty()));
            fnv(&mut dr, &format!("len {} {}", r.len(), r.is_empty()));
        } else if w < 74 {
            d.clear();
            d2.clear();
            r.clear();
        } else if w < 79 {
            let n = 1 + rng.below(200);
            let batch: Vec<(u64, u64)> = (0..n).map(|_| (rng.below(kr), rng.below(1000))).collect();
            d.extend(batch.iter().copied());
            d2.extend(batch.iter().copied());
            r.extend(batch.iter().copied());
        } else if w < 83 {
            let m = 2 + rng.below(5);
            let c = rng.below(m);
            d.retain(|k, _| k % m != c);
            d2.retain(|k, _| k % m != c);
            r.retain(|k, _| k % m != c);
        } else if w < 90 {
            let x = *d.entry(k).and_modify(|e| *e = e.wrapping_add(1)).or_insert(v);
            d2.entry(k).and_modify(|e| *e = e.wrapping_add(1)).or_insert(v);
            let y = *r.entry(k).and_modify(|e| *e = e.wrapping_add(1)).or_insert(v);
            fnv(&mut dd, &format!("ent {x}"));
            fnv(&mut dr, &format!("ent {y}"));
        } else if w < 92 {
            let n = rng.below(500) as usize;
            d.reserve(n);
            d2.reserve(n);
        } else if w < 94 {
            d.shrink_to_fit();
            d2.shrink_to_fit();
        } else if w < 96 {
            fnv(&mut dd, &format!("re {:?}", d.remove_entry(&k)));
            d2.remove_entry(&k);
            fnv(&mut dr, &format!("re {:?}", r.remove_entry(&k)));
        } else if w < 98 {
            if let Some(x) = d.get_mut(&k) {
                *x = x.wrapping_mul(3);
            }
            if let Some(x) = d2.get_mut(&k) {
                *x = x.wrapping_mul(3);
            }
            if let Some(x) = r.get_mut(&k) {
                *x = x.wrapping_mul(3);
            }
        } else {
            // drain everything and re-insert the even keys in drain order
            let dv: Vec<(u64, u64)> = d.drain().collect();
            let dv2: Vec<(u64, u64)> = d2.drain().collect();
            let mut sorted = dv.clone();
            sorted.sort();
            fnv(&mut dd, &format!("drain {:?}", sorted));
            let rv: Vec<(u64, u64)> = std::mem::take(&mut r).into_iter().collect();
            fnv(&mut dr, &format!("drain {:?}", rv));
            d.extend(dv.iter().copied().filter(|(k, _)| k % 2 == 0));
            d2.extend(dv2.iter().copied().filter(|(k, _)| k % 2 == 0));
            r.extend(rv.iter().copied().filter(|(k, _)| k % 2 == 0));
        }
    }
    let mut fin: Vec<(u64, u64)> = d.iter().map(|(k, v)| (*k, *v)).collect();
    fin.sort();
    let rfin: Vec<(u64, u64)> = r.iter().map(|(k, v)| (*k, *v)).collect();
    let inst2 = d.keys().eq(d2.keys()) && d.values().eq(d2.values());
    let cl = d.clone();
    let clone_same = d.keys().eq(cl.keys());
    println!(
        "H {} kind=map ops={} digest={:016x} ref={:016x} final={} inst2={} clone={} len={} order={}",
        idx,
        nops,
        dd,
        dr,
        if fin == rfin { "same" } else { "DIFF" },
        if inst2 { "same" } else { "DIFF" },
        if clone_same { "same" } else { "DIFF" },
        d.len(),
        join(d.keys())
    );
}

fn history_set(rng: &mut Rng, idx: u64) {
    let kr = [8u64, 64, 512][rng.below(3) as usize];
    let nops = 20 + rng.below(300);
    let key = |n: u64| format!("key-{n}");
    let mut d: DSet<String> = DSet::new();
    let mut d2: DSet<String> = DSet::with_capacity(0);
    let mut r: BTreeSet<String> = BTreeSet::new();
    let (mut dd, mut dr) = (FNV0, FNV0);
    for _ in 0..nops {
        let w = rng.below(100);
        let k = key(rng.below(kr));
        if w < 45 {
            fnv(&mut dd, &format!("ins {:?}", d.insert(k.clone())));
            d2.insert(k.clone());
            fnv(&mut dr, &format!("ins {:?}", r.insert(k)));
        } else if w < 65 {
            fnv(&mut dd, &format!("rem {:?}", d.remove(&k)));
            d2.remove(&k);
            fnv(&mut dr, &format!("rem {:?}", r.remove(&k)));
        } else if w < 75 {
            fnv(&mut dd, &format!("has {:?} {:?}", d.contains(&k), d.get(&k)));
            fnv(&mut dr, &format!("has {:?} {:?}", r.contains(&k), r.get(&k)));
        } else if w < 79 {
            fnv(&mut dd, &format!("len {} {}", d.len(), d.is_empty()));
            fnv(&mut dr, &format!("len {} {}", r.len(), r.is_empty()));
        } else if w < 80 {
            d.clear();
            d2.clear();
            r.clear();
        } else if w < 87 {
            let n = 1 + rng.below(150);
            let batch: Vec<String> = (0..n).map(|_| key(rng.below(kr))).collect();
            d.extend(batch.iter().cloned());
            d2.extend(batch.iter().cloned());
            r.extend(batch.iter().cloned());
        } else if w < 92 {
            let m = 2 + rng.below(5) as usize;
            let c = rng.below(m as u64) as usize;
            d.retain(|k| k.len() % m != c);
            d2.retain(|k| k.len() % m != c);
            r.retain(|k| k.len() % m != c);
        } else if w < 96 {
            fnv(&mut dd, &format!("take {:?}", d.take(&k)));
            d2.take(&k);
            fnv(&mut dr, &format!("take {:?}", r.take(&k)));
        } else {
            // set algebra through the iterator (method) forms against a fixed-hasher operand
            let other: DSet<String> = (0..kr / 2).map(key).collect();
            let rother: BTreeSet<String> = (0..kr / 2).map(key).collect();
            let mut a: Vec<String> = d.intersection(&other).cloned().collect();
            a.sort();
            let b: Vec<String> = r.intersection(&rother).cloned().collect();
            fnv(&mut dd, &format!("and {:?} {} {}", a, d.is_subset(&other), d.is_disjoint(&other)));
            fnv(&mut dr, &format!("and {:?} {} {}", b, r.is_subset(&rother), r.is_disjoint(&rother)));
        }
    }
    let mut fin: Vec<String> = d.iter().cloned().collect();
    fin.sort();
    let rfin: Vec<String> = r.iter().cloned().collect();
    println!(
        "H {} kind=set ops={} digest={:016x} ref={:016x} final={} inst2={} clone={} len={} order={}",
        idx,
        nops,
        dd,
        dr,
        if fin == rfin { "same" } else { "DIFF" },
        if d.iter().eq(d2.iter()) { "same" } else { "DIFF" },
        if d.iter().eq(d.clone().iter()) { "same" } else { "DIFF" },
        d.len(),
        join(d.iter())
    );
}

fn mode_history(seed: u64, n: u64) {
    for i in 0..n {
        let mut rng = Rng::new(seed, i);
        if i % 3 == 2 {
            history_set(&mut rng, i);
        } else {
            history_map(&mut rng, i);
        }
    }
}

// ───────────────────────── mode: dash ─────────────────────────

#[derive(Clone, Debug)]
enum DOp {
    Insert(u64, u64),
    Get(u64),
    GetHold(u64),
    GetMut(u64, u64),
    GetMutHold(u64, u64),
    TryGet(u64),
    TryGetMut(u64, u64),
    Remove(u64),
    RemoveIf(u64, u64),
    RemoveIfMut(u64, u64),
    Contains(u64),
    Len,
    IsEmpty,
    Clear,
    Retain(u64, u64),
    Alter(u64, u64),
    AlterAll(u64),
    View(u64),
    EntryOrInsert(u64, u64),
    EntryModifyOrInsert(u64, u64, u64),
    EntryRemove(u64),
    EntryReplaceWith(u64, u64),
    TryEntry(u64, u64),
    Iter,
    IterMut(u64),
    ShrinkToFit,
}

const KR: u64 = 5;

fn gen_dop(rng: &mut Rng) -> DOp {
    let k = rng.below(KR);
    let v = rng.below(100);
    match rng.below(34) {
        0..=5 => DOp::Insert(k, v),
        6..=7 => DOp::Get(k),
        8 => DOp::GetHold(k),
        9 => DOp::GetMut(k, v),
        10 => DOp::GetMutHold(k, v),
        11..=12 => DOp::TryGet(k),
        13 => DOp::TryGetMut(k, v),
        14..=16 => DOp::Remove(k),
        17 => DOp::RemoveIf(k, v % 2),
        18 => DOp::RemoveIfMut(k, v),
        19 => DOp::Contains(k),
        20 => DOp::Len,
        21 => DOp::IsEmpty,
        22 => {
            if v < 30 {
                DOp::Clear
            } else {
                DOp::Len
            }
        }
        23 => DOp::Retain(2 + v % 3, v % 2),
        24 => DOp::Alter(k, v),
        25 => DOp::AlterAll(v),
        26 => DOp::View(k),
        27 => DOp::EntryOrInsert(k, v),
        28 => DOp::EntryModifyOrInsert(k, v, v + 1),
        29 => DOp::EntryRemove(k),
        30 => DOp::EntryReplaceWith(k, v),
        31 => DOp::TryEntry(k, v),
        32 => DOp::Iter,
        _ => {
            if v < 50 {
                DOp::IterMut(v)
            } else {
                DOp::ShrinkToFit
            }
        }
    }
}

/// Run one op on the real DashMap. No Shuttle scheduling point may occur between the internal lock release
/// and the return of this function (Shuttle's `BatchSemaphore::release` switches *before* releasing, never
/// after), so pushing the returned string onto the log right after the call records ops in lock order.
fn exec_dash(m: &DashMap<u64, u64>, op: &DOp) -> String {
    match *op {
        DOp::Insert(k, v) => format!("{:?}", m.insert(k, v)),
        DOp::Get(k) => format!("{:?}", m.get(&k).map(|r| (*r.key(), *r.value()))),
        DOp::GetHold(k) => {
            let g = m.get(&k);
            let s = format!("{:?}", g.as_ref().map(|r| (*r.key(), *r.value())));
            if g.is_some() {
                // only yield while a guard is actually held: on `None` the lock is already released and a
                // yield here would let other ops complete (and be logged) before this one is logged
                shuttle::thread::yield_now();
            }
            // still the same under the read lock
            let s2 = format!("{:?}", g.as_ref().map(|r| (*r.key(), **r)));
            assert_eq!(s, s2, "value changed under a held read guard");
            drop(g);
            s
        }
        DOp::GetMut(k, a) => match m.get_mut(&k) {
            Some(mut g) => {
                let old = *g.value();
                *g.value_mut() = old.wrapping_add(a);
                format!("Some({old})")
            }
            None => "None".into(),
        },
        DOp::GetMutHold(k, a) => match m.get_mut(&k) {
            Some(mut g) => {
                let old = *g;
                shuttle::thread::yield_now();
                assert_eq!(old, *g, "value changed under a held write guard");
                *g = old.wrapping_add(a);
                format!("Some({old})")
            }
            None => "None".into(),
        },
        DOp::TryGet(k) => match m.try_get(&k) {
            TryResult::Present(r) => format!("Present({})", *r),
            TryResult::Absent => "Absent".into(),
            TryResult::Locked => "Locked".into(),
        },
        DOp::TryGetMut(k, a) => match m.try_get_mut(&k) {
            TryResult::Present(mut r) => {
                let old = *r;
                *r = old.wrapping_add(a);
                format!("Present({old})")
            }
            TryResult::Absent => "Absent".into(),
            TryResult::Locked => "Locked".into(),
        },
        DOp::Remove(k) => format!("{:?}", m.remove(&k)),
        DOp::RemoveIf(k, p) => format!("{:?}", m.remove_if(&k, |_, v| *v % 2 == p)),
        DOp::RemoveIfMut(k, a) => format!(
            "{:?}",
            m.remove_if_mut(&k, |_, v| {
                *v = v.wrapping_add(a);
                *v % 2 == 0
            })
        ),
        DOp::Contains(k) => format!("{}", m.contains_key(&k)),
        DOp::Len => format!("{}", m.len()),
        DOp::IsEmpty => format!("{}", m.is_empty()),
        DOp::Clear => {
            m.clear();
            "()".into()
        }
        DOp::Retain(md, c) => {
            m.retain(|k, _| k % md != c);
            "()".into()
        }
        DOp::Alter(k, a) => {
            m.alter(&k, |_, v| v.wrapping_add(a));
            "()".into()
        }
        DOp::AlterAll(a) => {
            m.alter_all(|k, v| v.wrapping_add(a).wrapping_add(*k));
            "()".into()
        }
        DOp::View(k) => format!("{:?}", m.view(&k, |k, v| k + v)),
        DOp::EntryOrInsert(k, v) => format!("{}", *m.entry(k).or_insert(v)),
        DOp::EntryModifyOrInsert(k, a, v) => {
            format!("{}", *m.entry(k).and_modify(|x| *x = x.wrapping_add(a)).or_insert(v))
        }
        DOp::EntryRemove(k) => match m.entry(k) {
            Entry::Occupied(e) => format!("Some({:?})", e.remove_entry()),
            Entry::Vacant(e) => format!("Vacant({})", e.into_key()),
        },
        DOp::EntryReplaceWith(k, a) => match m.entry(k) {
            Entry::Occupied(e) => {
                let e2 = e.replace_entry_with(|_, v| if v % 2 == 0 { Some(v.wrapping_add(a)) } else { None });
                match e2 {
                    Entry::Occupied(o) => format!("Occ({})", *o.get()),
                    Entry::Vacant(_) => "Gone".into(),
                }
            }
            Entry::Vacant(e) => {
                let o = e.insert_entry(a);
                format!("New({})", *o.get())
            }
        },
        DOp::TryEntry(k, v) => match m.try_entry(k) {
            None => "Locked".into(),
            Some(e) => format!("{}", *e.or_insert(v)),
        },
        DOp::Iter => {
            let mut v: Vec<(u64, u64)> = m.iter().map(|r| (*r.key(), *r.value())).collect();
            v.sort();
            format!("{:?}", v)
        }
        DOp::IterMut(a) => {
            let mut n = 0;
            for mut r in m.iter_mut() {
                *r = r.wrapping_add(a);
                n += 1;
            }
            format!("{n}")
        }
        DOp::ShrinkToFit => {
            m.shrink_to_fit();
            "()".into()
        }
    }
}

/// The same op table on a plain sequential map. `logged` is only consulted for the `try_*` ops, whose
/// `Locked` outcome is a property of the lock, not of the map: a logged `Locked` is replayed as a no-op.
fn exec_ref(m: &mut BTreeMap<u64, u64>, op: &DOp, logged: &str) -> String {
    match *op {
        DOp::Insert(k, v) => format!("{:?}", m.insert(k, v)),
        DOp::Get(k) | DOp::GetHold(k) => format!("{:?}", m.get_key_value(&k).map(|(k, v)| (*k, *v))),
        DOp::GetMut(k, a) | DOp::GetMutHold(k, a) => match m.get_mut(&k) {
            Some(v) => {
                let old = *v;
                *v = old.wrapping_add(a);
                format!("Some({old})")
            }
            None => "None".into(),
        },
        DOp::TryGet(k) => {
            if logged == "Locked" {
                return "Locked".into();
            }
            match m.get(&k) {
                Some(v) => format!("Present({v})"),
                None => "Absent".into(),
            }
        }
        DOp::TryGetMut(k, a) => {
            if logged == "Locked" {
                return "Locked".into();
            }
            match m.get_mut(&k) {
                Some(v) => {
                    let old = *v;
                    *v = old.wrapping_add(a);
                    format!("Present({old})")
                }
                None => "Absent".into(),
            }
        }
        DOp::Remove(k) => format!("{:?}", m.remove_entry(&k)),
        DOp::RemoveIf(k, p) => {
            if m.get(&k).is_some_and(|v| *v % 2 == p) {
                format!("{:?}", m.remove_entry(&k))
            } else {
                "None".into()
            }
        }
        DOp::RemoveIfMut(k, a) => match m.get_mut(&k) {
            Some(v) => {
                *v = v.wrapping_add(a);
                if *v % 2 == 0 {
                    format!("{:?}", m.remove_entry(&k))
                } else {
                    "None".into()
                }
            }
            None => "None".into(),
        },
        DOp::Contains(k) => format!("{}", m.contains_key(&k)),
        DOp::Len => format!("{}", m.len()),
        DOp::IsEmpty => format!("{}", m.is_empty()),
        DOp::Clear => {
            m.clear();
            "()".into()
        }
        DOp::Retain(md, c) => {
            m.retain(|k, _| k % md != c);
            "()".into()
        }
        DOp::Alter(k, a) => {
            if let Some(v) = m.get_mut(&k) {
                *v = v.wrapping_add(a);
            }
            "()".into()
        }
        DOp::AlterAll(a) => {
            for (k, v) in m.iter_mut() {
                *v = v.wrapping_add(a).wrapping_add(*k);
            }
            "()".into()
        }
        DOp::View(k) => format!("{:?}", m.get(&k).map(|v| k + v)),
        DOp::EntryOrInsert(k, v) => format!("{}", *m.entry(k).or_insert(v)),
        DOp::EntryModifyOrInsert(k, a, v) => {
            format!("{}", *m.entry(k).and_modify(|x| *x = x.wrapping_add(a)).or_insert(v))
        }
        DOp::EntryRemove(k) => match m.remove_entry(&k) {
            Some(e) => format!("Some({:?})", e),
            None => format!("Vacant({k})"),
        },
        DOp::EntryReplaceWith(k, a) => match m.get(&k).copied() {
            Some(v) => {
                if v % 2 == 0 {
                    m.insert(k, v.wrapping_add(a));
                    format!("Occ({})", v.wrapping_add(a))
                } else {
                    m.remove(&k);
                    "Gone".into()
                }
            }
            None => {
                m.insert(k, a);
                format!("New({a})")
            }
        },
        DOp::TryEntry(k, v) => {
            if logged == "Locked" {
                return "Locked".into();
            }
            format!("{}", *m.entry(k).or_insert(v))
        }
        DOp::Iter => format!("{:?}", m.iter().map(|(k, v)| (*k, *v)).collect::<Vec<_>>()),
        DOp::IterMut(a) => {
            for (_, v) in m.iter_mut() {
                *v = v.wrapping_add(a);
            }
            format!("{}", m.len())
        }
        DOp::ShrinkToFit => "()".into(),
    }
}

#[derive(Clone, Debug)]
enum SOp {
    Insert(u64),
    Remove(u64),
    RemoveIf(u64, u64),
    Get(u64),
    GetHold(u64),
    Contains(u64),
    Len,
    IsEmpty,
    Clear,
    Retain(u64, u64),
    Iter,
}

fn gen_sop(rng: &mut Rng) -> SOp {
    let k = rng.below(KR);
    let v = rng.below(100);
    match rng.below(16) {
        0..=4 => SOp::Insert(k),
        5..=7 => SOp::Remove(k),
        8 => SOp::RemoveIf(k, v % 2),
        9 => SOp::Get(k),
        10 => SOp::GetHold(k),
        11 => SOp::Contains(k),
        12 => SOp::Len,
        13 => {
            if v < 30 {
                SOp::Clear
            } else {
                SOp::IsEmpty
            }
        }
        14 => SOp::Retain(2 + v % 3, v % 2),
        _ => SOp::Iter,
    }
}

fn exec_dset(s: &DashSet<u64>, op: &SOp) -> String {
    match *op {
        SOp::Insert(k) => format!("{}", s.insert(k)),
        SOp::Remove(k) => format!("{:?}", s.remove(&k)),
        SOp::RemoveIf(k, p) => format!("{:?}", s.remove_if(&k, |k| k % 2 == p)),
        SOp::Get(k) => format!("{:?}", s.get(&k).map(|r| *r.key())),
        SOp::GetHold(k) => {
            let g = s.get(&k);
            let r = format!("{:?}", g.as_ref().map(|r| **r));
            if g.is_some() {
                shuttle::thread::yield_now();
            }
            drop(g);
            r
        }
        SOp::Contains(k) => format!("{}", s.contains(&k)),
        SOp::Len => format!("{}", s.len()),
        SOp::IsEmpty => format!("{}", s.is_empty()),
        SOp::Clear => {
            s.clear();
            "()".into()
        }
        SOp::Retain(md, c) => {
            s.retain(|k| k % md != c);
            "()".into()
        }
        SOp::Iter => {
            let mut v: Vec<u64> = s.iter().map(|r| *r.key()).collect();
            v.sort();
            format!("{:?}", v)
        }
    }
}

fn exec_rset(s: &mut BTreeSet<u64>, op: &SOp) -> String {
    match *op {
        SOp::Insert(k) => format!("{}", s.insert(k)),
        SOp::Remove(k) => format!("{:?}", s.take(&k)),
        SOp::RemoveIf(k, p) => {
            if k % 2 == p {
                format!("{:?}", s.take(&k))
            } else {
                "None".into()
            }
        }
        SOp::Get(k) | SOp::GetHold(k) => format!("{:?}", s.get(&k).copied()),
        SOp::Contains(k) => format!("{}", s.contains(&k)),
        SOp::Len => format!("{}", s.len()),
        SOp::IsEmpty => format!("{}", s.is_empty()),
        SOp::Clear => {
            s.clear();
            "()".into()
        }
        SOp::Retain(md, c) => {
            s.retain(|k| k % md != c);
            "()".into()
        }
        SOp::Iter => format!("{:?}", s.iter().copied().collect::<Vec<_>>()),
    }
}

#[derive(Default)]
struct Stats {
    execs: u64,
    ok: u64,
    locked: u64,
    logdigest: u64,
    first_bad: Option<String>,
    last_order: String,
}

fn dash_config() -> Config {
    let mut c = Config::new();
    c.failure_persistence = FailurePersistence::None;
    c.silence_warnings = true;
    c
}

const DASH_ITERS: usize = 40;

fn dash_map_workload(seed: u64, i: u64, rng: &mut Rng) {
    let nthreads = 2 + rng.below(2) as usize;
    let per: Vec<Vec<DOp>> = (0..nthreads)
        .map(|_| {
            let n = 3 + rng.below(6);
            (0..n).map(|_| gen_dop(rng)).collect()
        })
        .collect();
    let init: Vec<(u64, u64)> = (0..rng.below(4)).map(|_| (rng.below(KR), rng.below(100))).collect();
    let ctor = rng.below(3);
    let stats = Arc::new(StdMutex::new(Stats { logdigest: FNV0, ..Default::default() }));
    let per = Arc::new(per);
    let init = Arc::new(init);
    let st = stats.clone();
    let (p2, i2) = (per.clone(), init.clone());
    let runner = Runner::new(RandomScheduler::new_from_seed(seed.wrapping_add(i), DASH_ITERS), dash_config());
    let res = catch_unwind(AssertUnwindSafe(move || {
        runner.run(move || {
            let m: DashMap<u64, u64> = match ctor {
                0 => i2.iter().copied().collect(),
                1 => {
                    let m = DashMap::new();
                    for (k, v) in i2.iter() {
                        m.insert(*k, *v);
                    }
                    m
                }
                _ => {
                    let mut m = DashMap::with_capacity(16);
                    m.extend(i2.iter().copied());
                    m.clone()
                }
            };
            let m = Arc::new(m);
            let log: Arc<StdMutex<Vec<(usize, DOp, String)>>> = Arc::new(StdMutex::new(Vec::new()));
            let mut hs = Vec::new();
            for t in 1..p2.len() {
                let (m, log, p) = (m.clone(), log.clone(), p2.clone());
                hs.push(shuttle::thread::spawn(move || {
                    for op in &p[t] {
                        let r = exec_dash(&m, op);
                        log.lock().unwrap().push((t, op.clone(), r));
                    }
                }));
            }
            for op in &p2[0] {
                let r = exec_dash(&m, op);
                log.lock().unwrap().push((0, op.clone(), r));
            }
            for h in hs {
                h.join().unwrap();
            }
            // final contents and raw iteration order
            let order: Vec<u64> = m.iter().map(|r| *r.key()).collect();
            let mut fin: Vec<(u64, u64)> = m.iter().map(|r| (*r.key(), *r.value())).collect();
            fin.sort();
            // sequential replay of the log on a plain map
            let mut plain: BTreeMap<u64, u64> = BTreeMap::new();
            for (k, v) in i2.iter() {
                plain.insert(*k, *v);
            }
            let log = log.lock().unwrap();
            let mut bad = None;
            let mut s = st.lock().unwrap();
            for (idx, (t, op, r)) in log.iter().enumerate() {
                let rr = exec_ref(&mut plain, op, r);
                fnv(&mut s.logdigest, &format!("{t} {:?} {r}", op));
                if r == "Locked" {
                    s.locked += 1;
                }
                if rr != *r && bad.is_none() {
                    bad = Some(format!("step {idx} thread {t} op {:?}: real={r} replay={rr}", op));
                }
            }
            let pfin: Vec<(u64, u64)> = plain.iter().map(|(k, v)| (*k, *v)).collect();
            if pfin != fin && bad.is_none() {
                bad = Some(format!("final contents: real={:?} replay={:?}", fin, pfin));
            }
            let total: usize = p2.iter().map(|v| v.len()).sum();
            if log.len() != total && bad.is_none() {
                bad = Some(format!("log has {} entries, expected {}", log.len(), total));
            }
            s.execs += 1;
            if bad.is_none() {
                s.ok += 1;
            } else if s.first_bad.is_none() {
                s.first_bad = bad;
            }
            s.last_order = join(order.iter());
        })
    }));
    let s = stats.lock().unwrap();
    let status = match (&res, &s.first_bad) {
        (Err(e), _) => format!("PANIC {}", payload(e).lines().next().unwrap_or("").replace(' ', "_")),
        (Ok(_), Some(b)) => format!("MISMATCH {}", b.replace(' ', "_")),
        (Ok(_), None) => "ok".to_string(),
    };
    println!(
        "D {} kind=map threads={} ops={} execs={} replay_ok={} locked={} logdigest={:016x} lastorder={} status={}",
        i,
        nthreads,
        per.iter().map(|v| v.len()).sum::<usize>(),
        s.execs,
        s.ok,
        s.locked,
        s.logdigest,
        if s.last_order.is_empty() { "-" } else { &s.last_order },
        status
    );
}

fn dash_set_workload(seed: u64, i: u64, rng: &mut Rng) {
    let nthreads = 2 + rng.below(2) as usize;
    let per: Vec<Vec<SOp>> = (0..nthreads)
        .map(|_| {
            let n = 3 + rng.below(6);
            (0..n).map(|_| gen_sop(rng)).collect()
        })
        .collect();
    let init: Vec<u64> = (0..rng.below(4)).map(|_| rng.below(KR)).collect();
    let ctor = rng.below(3);
    let stats = Arc::new(StdMutex::new(Stats { logdigest: FNV0, ..Default::default() }));
    let per = Arc::new(per);
    let init = Arc::new(init);
    let st = stats.clone();
    let (p2, i2) = (per.clone(), init.clone());
    let runner = Runner::new(RandomScheduler::new_from_seed(seed.wrapping_add(i), DASH_ITERS), dash_config());
    let res = catch_unwind(AssertUnwindSafe(move || {
        runner.run(move || {
            let s: DashSet<u64> = match ctor {
                0 => i2.iter().copied().collect(),
                1 => {
                    let s = DashSet::new();
                    for k in i2.iter() {
                        s.insert(*k);
                    }
                    s
                }
                _ => {
                    let mut s = DashSet::with_capacity(16);
                    s.extend(i2.iter().copied());
                    s.clone()
                }
            };
            let s = Arc::new(s);
            let log: Arc<StdMutex<Vec<(usize, SOp, String)>>> = Arc::new(StdMutex::new(Vec::new()));
            let mut hs = Vec::new();
            for t in 1..p2.len() {
                let (s, log, p) = (s.clone(), log.clone(), p2.clone());
                hs.push(shuttle::thread::spawn(move || {
                    for op in &p[t] {
                        let r = exec_dset(&s, op);
                        log.lock().unwrap().push((t, op.clone(), r));
                    }
                }));
            }
            for op in &p2[0] {
                let r = exec_dset(&s, op);
                log.lock().unwrap().push((0, op.clone(), r));
            }
            for h in hs {
                h.join().unwrap();
            }
            let order: Vec<u64> = s.iter().map(|r| *r.key()).collect();
            let mut fin = order.clone();
            fin.sort();
            let mut plain: BTreeSet<u64> = i2.iter().copied().collect();
            let log = log.lock().unwrap();
            let mut bad = None;
            let mut stt = st.lock().unwrap();
            for (idx, (t, op, r)) in log.iter().enumerate() {
                let rr = exec_rset(&mut plain, op);
                fnv(&mut stt.logdigest, &format!("{t} {:?} {r}", op));
                if rr != *r && bad.is_none() {
                    bad = Some(format!("step {idx} thread {t} op {:?}: real={r} replay={rr}", op));
                }
            }
            let pfin: Vec<u64> = plain.iter().copied().collect();
            if pfin != fin && bad.is_none() {
                bad = Some(format!("final contents: real={:?} replay={:?}", fin, pfin));
            }
            stt.execs += 1;
            if bad.is_none() {
                stt.ok += 1;
            } else if stt.first_bad.is_none() {
                stt.first_bad = bad;
            }
            stt.last_order = join(order.iter());
        })
    }));
    let s = stats.lock().unwrap();
    let status = match (&res, &s.first_bad) {
        (Err(e), _) => format!("PANIC {}", payload(e).lines().next().unwrap_or("").replace(' ', "_")),
        (Ok(_), Some(b)) => format!("MISMATCH {}", b.replace(' ', "_")),
        (Ok(_), None) => "ok".to_string(),
    };
    println!(
        "D {} kind=set threads={} ops={} execs={} replay_ok={} locked={} logdigest={:016x} lastorder={} status={}",
        i,
        nthreads,
        per.iter().map(|v| v.len()).sum::<usize>(),
        s.execs,
        s.ok,
        s.locked,
        s.logdigest,
        if s.last_order.is_empty() { "-" } else { &s.last_order },
        status
    );
}

fn payload(e: &Box<dyn std::any::Any + Send>) -> String {
    if let Some(s) = e.downcast_ref::<&str>() {
        s.to_string()
    } else if let Some(s) = e.downcast_ref::<String>() {
        s.clone()
    } else {
        "<non-string payload>".to_string()
    }
}

fn mode_dash(seed: u64, n: u64) {
    // keep panic messages of failing executions off stderr noise-free but visible
    for i in 0..n {
        let mut rng = Rng::new(seed ^ 0xDA5B, i);
        if i % 3 == 2 {
            dash_set_workload(seed, i, &mut rng);
        } else {
            dash_map_workload(seed, i, &mut rng);
        }
    }
}

// ───────────────────────── main ─────────────────────────

fn main() {
    let args: Vec<String> = std::env::args().collect();
    let num = |i: usize, d: u64| -> u64 { args.get(i).and_then(|s| s.parse().ok()).unwrap_or(d) };
    match args.get(1).map(|s| s.as_str()) {
        Some("hashers") => mode_hashers(),
        Some("orders") => mode_orders(),
        Some("vectors") => mode_vectors(),
        Some("history") => mode_history(num(2, 1), num(3, 20)),
        Some("dash") => mode_dash(num(2, 1), num(3, 20)),
        _ => {
            eprintln!("usage: vh_c20coll hashers | orders | vectors | history <seed> <n> | dash <seed> <n>");
            std::process::exit(2);
        }
    }
}
