//! Interpreter of IR programs on the *real* Shuttle primitives.
use crate::ir::*;
use crate::record::log;
use shuttle::lazy_static::Lazy;
use shuttle::sync::atomic::{
    AtomicBool, AtomicI16, AtomicI32, AtomicI64, AtomicI8, AtomicIsize, AtomicU16, AtomicU32, AtomicU64, AtomicU8,
    AtomicUsize, Ordering,
};
use shuttle::sync::mpsc::{channel, sync_channel, Receiver, Sender, SyncSender, TryRecvError, TrySendError};
use shuttle::sync::{Barrier, Condvar, Mutex, MutexGuard, Once, RwLock, RwLockReadGuard, RwLockWriteGuard};
use shuttle::thread::{self, JoinHandle, LocalKey, Scope, Thread};
use shuttle_engine::future::batch_semaphore::{BatchSemaphore, Fairness, TryAcquireError};
use shuttle_engine::runtime::execution::ExecutionState;
use std::sync::Arc;

/// wrapper to move non-Send things between Shuttle tasks (everything runs on one OS thread)
pub struct Ss<T>(pub T);
unsafe impl<T> Send for Ss<T> {}
unsafe impl<T> Sync for Ss<T> {}

pub enum Obj {
    Atomic(Atom),
    Mutex(Mutex<u64>),
    RwLock(RwLock<u64>),
    Sem(BatchSemaphore),
    /// channels have no shared object: the endpoints live in the tasks that own them
    Chan,
    Condvar(Condvar),
    Barrier(Barrier),
    Once(Once, std::cell::Cell<u64>),
    /// index into the pool of `thread_local!` keys
    Tls(usize),
    /// index into the pool of `Lazy` statics
    Lazy(usize),
    /// a hand-written waker slot (async layer, fut.rs)
    WSlot(crate::fut::WSlot),
    /// parking_lot replacements (src/pl.rs)
    Pl(crate::pl::PlObj),
    /// index into the pool of statics declared through the lazy_static wrapper's macro
    WLazy(usize),
    /// a tokio-wrapper object (src/tokio.rs); leaked at the end of the execution
    Tokio(std::mem::ManuallyDrop<crate::tokio::TObj>),
}


/// an atomic of any of the integer widths (or bool); operands are `u64` literals cast with `as`
pub enum Atom {
    U8(AtomicU8),
    U16(AtomicU16),
    U32(AtomicU32),
    U64(AtomicU64),
    Usize(AtomicUsize),
    I8(AtomicI8),
    I16(AtomicI16),
    I32(AtomicI32),
    I64(AtomicI64),
    Isize(AtomicIsize),
    Bool(AtomicBool),
}

fn atom_new(ty: &str, init: u64) -> Atom {
    match ty {
        "u8" => Atom::U8(AtomicU8::new(init as u8)),
        "u16" => Atom::U16(AtomicU16::new(init as u16)),
        "u32" => Atom::U32(AtomicU32::new(init as u32)),
        "usize" => Atom::Usize(AtomicUsize::new(init as usize)),
        "i8" => Atom::I8(AtomicI8::new(init as i8)),
        "i16" => Atom::I16(AtomicI16::new(init as i16)),
        "i32" => Atom::I32(AtomicI32::new(init as i32)),
        "i64" => Atom::I64(AtomicI64::new(init as i64)),
        "isize" => Atom::Isize(AtomicIsize::new(init as isize)),
        "bool" => Atom::Bool(AtomicBool::new(init & 1 == 1)),
        _ => Atom::U64(AtomicU64::new(init)),
    }
}

fn atom_op(a: &Atom, name: &str, v: u64, w: u64) -> String {
    let sc = Ordering::SeqCst;
    macro_rules! int_ops {
        ($a:expr, $t:ty) => {{
            let a = $a;
            let v = v as $t;
            let w = w as $t;
            match name {
                "aload" => format!("v:{}", a.load(sc)),
                "astore" => {
                    a.store(v, sc);
                    "ok".into()
                }
                "aswap" => format!("v:{}", a.swap(v, sc)),
                "aadd" => format!("v:{}", a.fetch_add(v, sc)),
                "asub" => format!("v:{}", a.fetch_sub(v, sc)),
                "aand" => format!("v:{}", a.fetch_and(v, sc)),
                "aor" => format!("v:{}", a.fetch_or(v, sc)),
                "axor" => format!("v:{}", a.fetch_xor(v, sc)),
                "anand" => format!("v:{}", a.fetch_nand(v, sc)),
                "amax" => format!("v:{}", a.fetch_max(v, sc)),
                "amin" => format!("v:{}", a.fetch_min(v, sc)),
                "acas" => match a.compare_exchange(v, w, sc, sc) {
                    Ok(x) => format!("ok:{}", x),
                    Err(x) => format!("err:{}", x),
                },
                _ => unreachable!(),
            }
        }};
    }
    match a {
        Atom::U8(a) => int_ops!(a, u8),
        Atom::U16(a) => int_ops!(a, u16),
        Atom::U32(a) => int_ops!(a, u32),
        Atom::U64(a) => int_ops!(a, u64),
        Atom::Usize(a) => int_ops!(a, usize),
        Atom::I8(a) => int_ops!(a, i8),
        Atom::I16(a) => int_ops!(a, i16),
        Atom::I32(a) => int_ops!(a, i32),
        Atom::I64(a) => int_ops!(a, i64),
        Atom::Isize(a) => int_ops!(a, isize),
        Atom::Bool(a) => {
            let v = v & 1 == 1;
            let w = w & 1 == 1;
            match name {
                "aload" => format!("v:{}", a.load(sc)),
                "astore" => {
                    a.store(v, sc);
                    "ok".into()
                }
                "aswap" => format!("v:{}", a.swap(v, sc)),
                "aand" => format!("v:{}", a.fetch_and(v, sc)),
                "aor" => format!("v:{}", a.fetch_or(v, sc)),
                "axor" => format!("v:{}", a.fetch_xor(v, sc)),
                "anand" => format!("v:{}", a.fetch_nand(v, sc)),
                "acas" => match a.compare_exchange(v, w, sc, sc) {
                    Ok(x) => format!("ok:{}", x),
                    Err(x) => format!("err:{}", x),
                },
                other => panic!("vh: {other} is not defined on AtomicBool"),
            }
        }
    }
}

pub struct Ctx {
    pub prog: Arc<Program>,
    pub objs: Vec<Obj>,
    pub handles: std::sync::Mutex<Vec<Option<JoinHandle<()>>>>,
    pub threads: std::sync::Mutex<Vec<Option<Thread>>>,
    /// async layer: join / abort handles of spawned futures, the table of `Acquire` futures
    pub fut: crate::fut::FutCtx,
}

pub(crate) enum Guard {
    M(usize, MutexGuard<'static, u64>),
    R(usize, RwLockReadGuard<'static, u64>),
    W(usize, RwLockWriteGuard<'static, u64>),
    Pl(usize, crate::pl::PlGuard),
}

pub enum Tx {
    A(Sender<u64>),
    S(SyncSender<u64>),
}

impl Tx {
    fn clone_tx(&self) -> Tx {
        match self {
            Tx::A(s) => Tx::A(s.clone()),
            Tx::S(s) => Tx::S(s.clone()),
        }
    }
}

/// the channel endpoints a task owns, indexed by object index
pub struct Handles {
    tx: Vec<Option<Tx>>,
    rx: Vec<Option<Receiver<u64>>>,
    /// lives in the closure / async block of the task from its spawn until the task starts (or is dropped unstarted)
    #[allow(dead_code)]
    token: Token,
}

impl Handles {
    fn empty(n: usize) -> Self {
        Handles {
            tx: (0..n).map(|_| None).collect(),
            rx: (0..n).map(|_| None).collect(),
            token: Token::new(),
        }
    }
}

/// C14: a value with an observable destructor owned by every spawned closure.  `LIVE` counts the tokens that exist; the
/// destructor also writes a label on the main task, the way a debugging guard would.  At the start of every execution no
/// token of an earlier execution may be alive and the main task may carry no such label (`main_body` logs an `L` line
/// otherwise).
pub static LIVE: std::sync::atomic::AtomicIsize = std::sync::atomic::AtomicIsize::new(0);

#[derive(Clone, Debug)]
pub struct VhTornDown;

pub struct Token;

impl Token {
    fn new() -> Self {
        LIVE.fetch_add(1, std::sync::atomic::Ordering::SeqCst);
        Token
    }
}

impl Drop for Token {
    fn drop(&mut self) {
        LIVE.fetch_sub(1, std::sync::atomic::Ordering::SeqCst);
        shuttle::current::set_label_for_task(shuttle::current::TaskId::from(0usize), VhTornDown);
    }
}

// NOTE the field order is the drop order when a panic unwinds through `run_task`
pub struct TaskSt {
    pub(crate) k: usize,
    pub(crate) last: String,
    guards: Vec<Guard>,
    tx: Vec<Option<Tx>>,
    rx: Vec<Option<Receiver<u64>>>,
}

impl TaskSt {
    pub(crate) fn new(k: usize, hs: Handles) -> Self {
        TaskSt {
            k,
            last: String::new(),
            guards: Vec::new(),
            tx: hs.tx,
            rx: hs.rx,
        }
    }

    /// the end of a body that ran to completion (same as the tail of `run_task`)
    pub(crate) fn finish(&mut self) {
        // guards are dropped in reverse order of acquisition, as Rust would
        while let Some(g) = self.guards.pop() {
            let oi = match &g {
                Guard::M(i, _) | Guard::R(i, _) | Guard::W(i, _) | Guard::Pl(i, _) => *i,
            };
            drop(g);
            // make the implicit unlock visible to the monitors
            log(format!("O {} {} drop {}", me(), self.k, oi));
        }
        // then the remaining channel endpoints: per channel in declaration order, sender then receiver
        for i in 0..self.tx.len() {
            drop(self.tx[i].take());
            drop(self.rx[i].take());
        }
    }
}

/// remember which body the current task runs (see `TID_K`)
pub(crate) fn note_body(k: usize) {
    lock_std(&TID_K).push((me(), k));
}

// ---------------------------------------------------------------- thread-locals and lazy statics
// Real `shuttle::thread_local!` / `Lazy` statics are needed; a fixed pool is configured per program.

#[derive(Clone)]
enum TlsKind {
    None,
    Log,
    /// pool index and name of the key touched by the destructor
    Touch(usize, String),
    /// object index of the mutex locked by the destructor
    Lock(usize),
}

const TLS_POOL: usize = 4;
const LAZY_POOL: usize = 2;
static TLS_CFG: std::sync::Mutex<Vec<(String, TlsKind)>> = std::sync::Mutex::new(Vec::new());
static LAZY_NAMES: std::sync::Mutex<Vec<String>> = std::sync::Mutex::new(Vec::new());
/// task id -> body index (initializers and destructors run deep inside Shuttle calls, possibly after
/// other tasks ran, so they look their body up by task id)
static TID_K: std::sync::Mutex<Vec<(usize, usize)>> = std::sync::Mutex::new(Vec::new());
/// task ids whose last `try_with` / `Lazy::get` ran the initializer
static INIT_BY: std::sync::Mutex<Vec<usize>> = std::sync::Mutex::new(Vec::new());

pub(crate) fn my_k() -> usize {
    let t = me();
    lock_std(&TID_K).iter().rev().find(|p| p.0 == t).map(|p| p.1).unwrap_or(0)
}

pub(crate) fn init_mark() {
    let t = me();
    let mut g = lock_std(&INIT_BY);
    if !g.contains(&t) {
        g.push(t);
    }
}

pub(crate) fn init_clear() {
    let t = me();
    lock_std(&INIT_BY).retain(|x| *x != t);
}

pub(crate) fn init_take() -> bool {
    let t = me();
    let mut g = lock_std(&INIT_BY);
    let r = g.contains(&t);
    g.retain(|x| *x != t);
    r
}
/// the object table of the current execution, for destructors
static CUR_CTX: std::sync::Mutex<Option<Arc<Ss<Ctx>>>> = std::sync::Mutex::new(None);

pub(crate) fn lock_std<T>(m: &std::sync::Mutex<T>) -> std::sync::MutexGuard<'_, T> {
    match m.lock() {
        Ok(g) => g,
        Err(p) => p.into_inner(),
    }
}

pub struct TlsVal {
    idx: usize,
    k: usize,
}

fn tls_init(idx: usize) -> TlsVal {
    init_mark();
    TlsVal { idx, k: my_k() }
}

shuttle::thread_local! {
    static TLS0: TlsVal = tls_init(0);
    static TLS1: TlsVal = tls_init(1);
    static TLS2: TlsVal = tls_init(2);
    static TLS3: TlsVal = tls_init(3);
}

fn tls_key(idx: usize) -> &'static LocalKey<TlsVal> {
    match idx {
        0 => &TLS0,
        1 => &TLS1,
        2 => &TLS2,
        _ => &TLS3,
    }
}

/// `LocalKey::try_with` on pool key `idx` by body `k`
fn tls_try_with(idx: usize, _k: usize) -> &'static str {
    init_clear();
    match tls_key(idx).try_with(|_| ()) {
        Ok(()) => {
            if init_take() {
                "init"
            } else {
                "seen"
            }
        }
        Err(_) => "destroyed",
    }
}

impl Drop for TlsVal {
    fn drop(&mut self) {
        // only the destructor runs of `thread_fn`'s pop loop are observed: values that die with
        // the execution (failure, early stop, cleanup) are dropped in `HashMap` order
        // (when the execution state is dropped by a failure, `EXECUTION_STATE` is no longer set)
        match ExecutionState::try_with(|s| s.is_finished()) {
            Ok(false) => {}
            _ => return,
        }
        let (name, kind) = lock_std(&TLS_CFG)[self.idx].clone();
        match kind {
            TlsKind::None => {}
            TlsKind::Log => log(format!("O {} {} dtor {}", me(), self.k, name)),
            TlsKind::Touch(u, uname) => {
                log(format!("O {} {} dtor {}", me(), self.k, name));
                let r = tls_try_with(u, self.k);
                log(format!("O {} {} touch {} {}", me(), self.k, uname, r));
            }
            TlsKind::Lock(mi) => {
                log(format!("O {} {} dtor {}", me(), self.k, name));
                let ctx = lock_std(&CUR_CTX).clone();
                if let Some(ctx) = ctx {
                    if let Obj::Mutex(m) = &ctx.0.objs[mi] {
                        let g = match m.lock() {
                            Ok(g) => g,
                            Err(p) => p.into_inner(),
                        };
                        drop(g);
                    }
                }
            }
        }
    }
}

fn lazy_init(idx: usize) -> u64 {
    init_mark();
    let name = lock_std(&LAZY_NAMES)[idx].clone();
    log(format!("O {} {} lazyinit {}", me(), my_k(), name));
    7
}
fn lazy_init0() -> u64 {
    lazy_init(0)
}
fn lazy_init1() -> u64 {
    lazy_init(1)
}
static LAZY0: Lazy<u64> = Lazy::new(lazy_init0);
static LAZY1: Lazy<u64> = Lazy::new(lazy_init1);

pub(crate) fn me() -> usize {
    usize::from(shuttle::current::me())
}

fn clock_str() -> String {
    let c = shuttle::current::clock();
    let mut v: Vec<u32> = c.iter().copied().collect();
    while v.last() == Some(&0) {
        v.pop();
    }
    v.iter().map(|x| x.to_string()).collect::<Vec<_>>().join(",")
}

pub fn make_ctx(prog: Arc<Program>) -> (Arc<Ss<Ctx>>, Handles) {
    let mut objs = Vec::new();
    let mut hs = Handles::empty(prog.objs.len());
    let mut tls_cfg: Vec<(String, TlsKind)> = Vec::new();
    let mut lazy_names: Vec<String> = Vec::new();
    crate::pl::reset();
    let tls_names: Vec<&str> = prog.objs.iter().filter(|o| o.kind == "tls").map(|o| o.name.as_str()).collect();
    for (i, o) in prog.objs.iter().enumerate() {
        let a0 = o.args.first().map(|s| s.as_str()).unwrap_or("");
        objs.push(match o.kind.as_str() {
            "atomic" => Obj::Atomic(atom_new(
                o.args.get(1).map(|s| s.as_str()).unwrap_or("u64"),
                a0.parse().unwrap_or(0),
            )),
            "mutex" => Obj::Mutex(Mutex::new(a0.parse().unwrap_or(0))),
            "rwlock" => Obj::RwLock(RwLock::new(a0.parse().unwrap_or(0))),
            "sem" => {
                let fair = o.args.get(1).map(|s| s.as_str()) == Some("fair");
                let f = if fair { Fairness::StrictlyFair } else { Fairness::Unfair };
                // `obj s sem N fair|unfair const`: the const constructor (what a `static` semaphore uses) — identity,
                // object id and the permit clocks are then initialised lazily by the first operation
                if o.args.get(2).map(|s| s.as_str()) == Some("const") {
                    Obj::Sem(BatchSemaphore::const_new(a0.parse().unwrap_or(0), f))
                } else {
                    Obj::Sem(BatchSemaphore::new(a0.parse().unwrap_or(0), f))
                }
            }
            "chan" => {
                if a0 == "unb" || a0.is_empty() {
                    let (tx, rx) = channel::<u64>();
                    hs.tx[i] = Some(Tx::A(tx));
                    hs.rx[i] = Some(rx);
                } else {
                    let bound: usize = if a0 == "rdv" {
                        0
                    } else {
                        a0.strip_prefix("cap:").and_then(|s| s.parse().ok()).unwrap_or(1)
                    };
                    let (tx, rx) = sync_channel::<u64>(bound);
                    hs.tx[i] = Some(Tx::S(tx));
                    hs.rx[i] = Some(rx);
                }
                Obj::Chan
            }
            "condvar" => Obj::Condvar(Condvar::new()),
            "barrier" => Obj::Barrier(Barrier::new(a0.parse().unwrap_or(0))),
            "once" => Obj::Once(Once::new(), std::cell::Cell::new(0)),
            "tls" => {
                let kind = if a0 == "log" {
                    TlsKind::Log
                } else if let Some(u) = a0.strip_prefix("touch:") {
                    let ui = tls_names.iter().position(|n| *n == u).unwrap_or_else(|| panic!("vh: unknown tls {u}"));
                    TlsKind::Touch(ui, u.to_string())
                } else if let Some(m) = a0.strip_prefix("lock:") {
                    TlsKind::Lock(prog.obj_index(m).unwrap_or_else(|| panic!("vh: unknown mutex {m}")))
                } else {
                    TlsKind::None
                };
                tls_cfg.push((o.name.clone(), kind));
                assert!(tls_cfg.len() <= TLS_POOL, "vh: at most {TLS_POOL} tls objects");
                Obj::Tls(tls_cfg.len() - 1)
            }
            "wslot" => Obj::WSlot(crate::fut::WSlot::new()),
            "lazy" => {
                lazy_names.push(o.name.clone());
                assert!(lazy_names.len() <= LAZY_POOL, "vh: at most {LAZY_POOL} lazy objects");
                Obj::Lazy(lazy_names.len() - 1)
            }
            "plmutex" => Obj::Pl(crate::pl::new_mutex(a0.parse().unwrap_or(0))),
            "plrwlock" => Obj::Pl(crate::pl::new_rwlock(a0.parse().unwrap_or(0))),
            "wlazy" => Obj::WLazy(crate::pl::wlazy_register(&o.name)),
            k if crate::tokio::is_kind(k) => Obj::Tokio(std::mem::ManuallyDrop::new(crate::tokio::make(o))),
            k => panic!("vh: unknown object kind {k}"),
        });
    }
    *lock_std(&TLS_CFG) = tls_cfg;
    lock_std(&TID_K).clear();
    lock_std(&INIT_BY).clear();
    *lock_std(&LAZY_NAMES) = lazy_names;
    let n = prog.tasks.len();
    let ctx = Arc::new(Ss(Ctx {
        prog,
        objs,
        handles: std::sync::Mutex::new((0..n).map(|_| None).collect()),
        threads: std::sync::Mutex::new((0..n).map(|_| None).collect()),
        fut: crate::fut::FutCtx::new(n),
    }));
    // destructors need the object table after the last task closure has released it
    *lock_std(&CUR_CTX) = Some(ctx.clone());
    (ctx, hs)
}

/// The closure handed to `Runner::run` (task 0).
pub fn main_body(prog: Arc<Program>) {
    // C14: the world at the start of an execution — nothing created by an earlier execution is alive, no label is left
    let live = LIVE.load(std::sync::atomic::Ordering::SeqCst);
    let label = shuttle::current::get_label_for_task::<VhTornDown>(shuttle::current::me()).is_some();
    if live != 0 || label {
        log(format!("L live={} label={}", live, label as u8));
    }
    let (ctx, hs) = make_ctx(prog);
    ctx.0.threads.lock().unwrap()[0] = Some(thread::current());
    run_task(ctx, 0, hs);
}

fn obj<'a>(ctx: &'a Ctx, name: &str) -> (usize, &'a Obj) {
    let i = ctx.prog.obj_index(name).unwrap_or_else(|| panic!("vh: unknown object {name}"));
    (i, &ctx.objs[i])
}

pub(crate) fn log_op(prog: &Program, st: &mut TaskSt, pc: usize, res: String) {
    log(format!("O {} {} {} {}", me(), st.k, pc, res));
    if prog.clocks {
        log(format!("C {} {} {}", me(), pc, clock_str()));
    }
    st.last = res;
}

pub fn run_task(ctx: Arc<Ss<Ctx>>, k: usize, hs: Handles) {
    let prog = ctx.0.prog.clone();
    let ops = &prog.tasks[k].ops;
    lock_std(&TID_K).push((me(), k));
    let mut st = TaskSt {
        k,
        last: String::new(),
        guards: Vec::new(),
        tx: hs.tx,
        rx: hs.rx,
    };
    run_ops(&ctx, &mut st, ops, 0, None);
    st.finish();
    log(format!("O {} {} end", me(), k));
}

/// Runs `ops[pc..]`. Inside the closure of a `thread::scope` (`scope` is `Some`) it stops at
/// `scope_end` and returns that index; otherwise it runs to the end.
fn run_ops<'scope, 'env>(
    ctx: &Arc<Ss<Ctx>>,
    st: &mut TaskSt,
    ops: &[Op],
    mut pc: usize,
    scope: Option<&'scope Scope<'scope, 'env>>,
) -> usize {
    let prog = ctx.0.prog.clone();
    while pc < ops.len() {
        let op = &ops[pc];
        if op.name == "if" {
            // if <value> skip <n>
            if st.last == op.arg(0) {
                pc += op.num(2) as usize;
            }
            pc += 1;
            continue;
        }
        if op.name == "scope_end" && scope.is_some() {
            // the closure returns; `thread::scope` then waits for the scoped threads
            return pc;
        }
        if op.name == "scope_begin" {
            let begin = pc;
            let end = thread::scope(|s| {
                log_op(&prog, st, begin, "ok".into());
                run_ops(ctx, st, ops, begin + 1, Some(s))
            });
            if end < ops.len() {
                log_op(&prog, st, end, "ok".into());
                pc = end + 1;
            } else {
                pc = end;
            }
            continue;
        }
        let res = exec_op(ctx, st, op, pc, scope);
        log_op(&prog, st, pc, res);
        pc += 1;
    }
    pc
}

fn is_tx_op(n: &str) -> bool {
    n == "send" || n == "try_send" || n == "drop_tx"
}
fn is_rx_op(n: &str) -> bool {
    n == "recv" || n == "try_recv" || n == "drop_rx"
}
fn ops_use(ops: &[Op], pred: fn(&str) -> bool, cname: &str) -> bool {
    // (`pend_then w <op> <chan> …` uses the channel of its inner operation)
    ops.iter()
        .any(|o| (pred(&o.name) && o.arg(0) == cname) || (o.name == "pend_then" && pred(o.arg(1)) && o.arg(2) == cname))
}

/// The handle ownership rule, applied before a spawn of body `child` by the op at `pc`.
pub(crate) fn transfer_handles(c: &Ctx, st: &mut TaskSt, pc: usize, child: usize) -> Handles {
    let prog = &c.prog;
    let mut h = Handles::empty(prog.objs.len());
    let child_ops = &prog.tasks[child].ops;
    let my_rest = &prog.tasks[st.k].ops[(pc + 1).min(prog.tasks[st.k].ops.len())..];
    for (i, o) in prog.objs.iter().enumerate() {
        if o.kind != "chan" {
            continue;
        }
        if st.tx[i].is_some() && ops_use(child_ops, is_tx_op, &o.name) {
            h.tx[i] = Some(st.tx[i].as_ref().unwrap().clone_tx());
        }
        if st.rx[i].is_some() && ops_use(child_ops, is_rx_op, &o.name) && !ops_use(my_rest, is_rx_op, &o.name) {
            h.rx[i] = st.rx[i].take();
        }
    }
    h
}

pub(crate) fn exec_op<'scope, 'env>(
    ctx: &Arc<Ss<Ctx>>,
    st: &mut TaskSt,
    op: &Op,
    pc: usize,
    scope: Option<&'scope Scope<'scope, 'env>>,
) -> String {
    let c = &ctx.0;
    match op.name.as_str() {
        "spawn" => {
            let k = op.num(0) as usize;
            let ctx2 = ctx.clone();
            let hs = Ss(transfer_handles(c, st, pc, k));
            let h = thread::spawn(move || {
                let hs = hs;
                run_task(ctx2, k, hs.0)
            });
            c.threads.lock().unwrap()[k] = Some(h.thread().clone());
            c.handles.lock().unwrap()[k] = Some(h);
            "ok".into()
        }
        "join" => {
            let k = op.num(0) as usize;
            let h = c.handles.lock().unwrap()[k].take();
            match h {
                Some(h) => {
                    h.join().unwrap();
                    "ok".into()
                }
                None => "nohandle".into(),
            }
        }
        "yield" => {
            thread::yield_now();
            "ok".into()
        }
        "sleep" => {
            thread::sleep(std::time::Duration::from_millis(1));
            "ok".into()
        }
        "rand" => {
            use shuttle::rand::Rng;
            let v: u64 = shuttle::rand::thread_rng().gen();
            format!("v:{}", v % 4)
        }
        "park" => {
            thread::park();
            "ok".into()
        }
        "unpark" => {
            let k = op.num(0) as usize;
            let t = c.threads.lock().unwrap()[k].clone();
            match t {
                Some(t) => {
                    t.unpark();
                    "ok".into()
                }
                None => "nohandle".into(),
            }
        }
        "ctx" => format!("v:{}", shuttle::current::context_switches()),
        "reset_steps" => {
            shuttle::current::reset_step_count();
            "ok".into()
        }
        "panic" => {
            // announce first, so that a swallowed panic is visible in the log
            log(format!("O {} {} panicking", me(), st.k));
            panic!("vp-panic")
        }
        "obs" => "ok".into(),
        // wall-clock time passes (no Shuttle effect): for the time-limit check of C13
        "spin" => {
            std::thread::sleep(std::time::Duration::from_millis(op.num(0)));
            "ok".into()
        }
        // ---- atomics
        "aload" | "astore" | "aswap" | "aadd" | "asub" | "aand" | "aor" | "axor" | "anand" | "amax" | "amin"
        | "acas" => {
            let (_, o) = obj(c, op.arg(0));
            let a = match o {
                Obj::Atomic(a) => a,
                _ => panic!("vh: not an atomic"),
            };
            atom_op(a, op.name.as_str(), op.num(1), op.num(2))
        }
        // ---- mutex
        "lock" | "trylock" => {
            let (i, o) = obj(c, op.arg(0));
            let m = match o {
                Obj::Mutex(m) => m,
                _ => panic!("vh: not a mutex"),
            };
            // SAFETY: the object table outlives every task of the execution
            let m: &'static Mutex<u64> = unsafe { std::mem::transmute(m) };
            if op.name == "lock" {
                match m.lock() {
                    Ok(g) => {
                        let v = *g;
                        st.guards.push(Guard::M(i, g));
                        format!("v:{}", v)
                    }
                    Err(p) => {
                        let g = p.into_inner();
                        let v = *g;
                        st.guards.push(Guard::M(i, g));
                        format!("poisoned:{}", v)
                    }
                }
            } else {
                match m.try_lock() {
                    Ok(g) => {
                        let v = *g;
                        st.guards.push(Guard::M(i, g));
                        format!("v:{}", v)
                    }
                    Err(std::sync::TryLockError::WouldBlock) => "wouldblock".into(),
                    Err(std::sync::TryLockError::Poisoned(p)) => {
                        let g = p.into_inner();
                        let v = *g;
                        st.guards.push(Guard::M(i, g));
                        format!("poisoned:{}", v)
                    }
                }
            }
        }
        "read" | "write" | "tryread" | "trywrite" => {
            let (i, o) = obj(c, op.arg(0));
            let l = match o {
                Obj::RwLock(l) => l,
                _ => panic!("vh: not a rwlock"),
            };
            let l: &'static RwLock<u64> = unsafe { std::mem::transmute(l) };
            use std::sync::TryLockError;
            match op.name.as_str() {
                "read" => {
                    let (g, tag) = match l.read() {
                        Ok(g) => (g, "v"),
                        Err(p) => (p.into_inner(), "poisoned"),
                    };
                    let v = *g;
                    st.guards.push(Guard::R(i, g));
                    format!("{}:{}", tag, v)
                }
                "write" => {
                    let (g, tag) = match l.write() {
                        Ok(g) => (g, "v"),
                        Err(p) => (p.into_inner(), "poisoned"),
                    };
                    let v = *g;
                    st.guards.push(Guard::W(i, g));
                    format!("{}:{}", tag, v)
                }
                "tryread" => match l.try_read() {
                    Ok(g) => {
                        let v = *g;
                        st.guards.push(Guard::R(i, g));
                        format!("v:{}", v)
                    }
                    Err(TryLockError::Poisoned(p)) => {
                        let g = p.into_inner();
                        let v = *g;
                        st.guards.push(Guard::R(i, g));
                        format!("poisoned:{}", v)
                    }
                    Err(TryLockError::WouldBlock) => "wouldblock".into(),
                },
                _ => match l.try_write() {
                    Ok(g) => {
                        let v = *g;
                        st.guards.push(Guard::W(i, g));
                        format!("v:{}", v)
                    }
                    Err(TryLockError::Poisoned(p)) => {
                        let g = p.into_inner();
                        let v = *g;
                        st.guards.push(Guard::W(i, g));
                        format!("poisoned:{}", v)
                    }
                    Err(TryLockError::WouldBlock) => "wouldblock".into(),
                },
            }
        }
        // set the protected value through the most recent guard on that object
        "setval" => {
            let (i, _) = obj(c, op.arg(0));
            let v = op.num(1);
            for g in st.guards.iter_mut().rev() {
                match g {
                    Guard::M(j, g) if *j == i => {
                        **g = v;
                        return "ok".into();
                    }
                    Guard::W(j, g) if *j == i => {
                        **g = v;
                        return "ok".into();
                    }
                    Guard::Pl(j, g) if *j == i => {
                        if g.set(v) {
                            return "ok".into();
                        }
                    }
                    _ => {}
                }
            }
            "noguard".into()
        }
        // drop the most recent guard on that object
        "unlock" | "unread" | "unwrite" => {
            let (i, _) = obj(c, op.arg(0));
            let pos = st.guards.iter().rposition(|g| match g {
                Guard::M(j, _) => *j == i && op.name == "unlock",
                Guard::R(j, _) => *j == i && op.name == "unread",
                Guard::W(j, _) => *j == i && op.name == "unwrite",
                Guard::Pl(..) => false,
            });
            match pos {
                Some(p) => {
                    let g = st.guards.remove(p);
                    drop(g);
                    "ok".into()
                }
                None => "noguard".into(),
            }
        }
        // ---- BatchSemaphore used directly
        "acquire" | "try_acquire" | "release" | "close" | "avail" => {
            let (_, o) = obj(c, op.arg(0));
            let s = match o {
                Obj::Sem(s) => s,
                _ => panic!("vh: not a sem"),
            };
            let n = op.num(1) as usize;
            match op.name.as_str() {
                "acquire" => match s.acquire_blocking(n) {
                    Ok(()) => "ok".into(),
                    Err(_) => "closed".into(),
                },
                "try_acquire" => match s.try_acquire(n) {
                    Ok(()) => "ok".into(),
                    Err(TryAcquireError::NoPermits) => "nopermits".into(),
                    Err(TryAcquireError::Closed) => "closed".into(),
                },
                "release" => {
                    s.release(n);
                    "ok".into()
                }
                "close" => {
                    s.close();
                    "ok".into()
                }
                _ => format!("v:{}", s.available_permits()),
            }
        }
        // ---- mpsc channels
        "send" | "try_send" => {
            let (i, _) = obj(c, op.arg(0));
            let v = op.num(1);
            match &st.tx[i] {
                None => "nosender".into(),
                Some(Tx::A(s)) => match s.send(v) {
                    Ok(()) => "ok".into(),
                    Err(_) => "err:disconnected".into(),
                },
                Some(Tx::S(s)) => {
                    if op.name == "send" {
                        match s.send(v) {
                            Ok(()) => "ok".into(),
                            Err(_) => "err:disconnected".into(),
                        }
                    } else {
                        match s.try_send(v) {
                            Ok(()) => "ok".into(),
                            Err(TrySendError::Full(_)) => "err:full".into(),
                            Err(TrySendError::Disconnected(_)) => "err:disconnected".into(),
                        }
                    }
                }
            }
        }
        "recv" | "try_recv" => {
            let (i, _) = obj(c, op.arg(0));
            match &st.rx[i] {
                None => "norecv".into(),
                Some(r) => {
                    if op.name == "recv" {
                        match r.recv() {
                            Ok(v) => format!("v:{}", v),
                            Err(_) => "err:disconnected".into(),
                        }
                    } else {
                        match r.try_recv() {
                            Ok(v) => format!("v:{}", v),
                            Err(TryRecvError::Empty) => "err:empty".into(),
                            Err(TryRecvError::Disconnected) => "err:disconnected".into(),
                        }
                    }
                }
            }
        }
        "drop_tx" => {
            let (i, _) = obj(c, op.arg(0));
            match st.tx[i].take() {
                None => "nosender".into(),
                Some(t) => {
                    drop(t);
                    "ok".into()
                }
            }
        }
        "drop_rx" => {
            let (i, _) = obj(c, op.arg(0));
            match st.rx[i].take() {
                None => "norecv".into(),
                Some(r) => {
                    drop(r);
                    "ok".into()
                }
            }
        }
        // ---- condvar
        "wait" => {
            let (_, o) = obj(c, op.arg(0));
            let cv = match o {
                Obj::Condvar(cv) => cv,
                _ => panic!("vh: not a condvar"),
            };
            let (mi, _) = obj(c, op.arg(1));
            let pos = st.guards.iter().rposition(|g| matches!(g, Guard::M(j, _) if *j == mi));
            match pos {
                None => "noguard".into(),
                Some(p) => {
                    let g = match st.guards.remove(p) {
                        Guard::M(_, g) => g,
                        _ => unreachable!(),
                    };
                    match cv.wait(g) {
                        Ok(g) => {
                            let v = *g;
                            st.guards.push(Guard::M(mi, g));
                            format!("v:{}", v)
                        }
                        Err(p) => {
                            let g = p.into_inner();
                            let v = *g;
                            st.guards.push(Guard::M(mi, g));
                            format!("poisoned:{}", v)
                        }
                    }
                }
            }
        }
        "wait_while" => {
            let (_, o) = obj(c, op.arg(0));
            let cv = match o {
                Obj::Condvar(cv) => cv,
                _ => panic!("vh: not a condvar"),
            };
            let (mi, _) = obj(c, op.arg(1));
            let stop = op.num(2);
            let pos = st.guards.iter().rposition(|g| matches!(g, Guard::M(j, _) if *j == mi));
            match pos {
                None => "noguard".into(),
                Some(p) => {
                    let g = match st.guards.remove(p) {
                        Guard::M(_, g) => g,
                        _ => unreachable!(),
                    };
                    match cv.wait_while(g, |x| *x == stop) {
                        Ok(g) => {
                            let v = *g;
                            st.guards.push(Guard::M(mi, g));
                            format!("v:{}", v)
                        }
                        Err(p) => {
                            let g = p.into_inner();
                            let v = *g;
                            st.guards.push(Guard::M(mi, g));
                            format!("poisoned:{}", v)
                        }
                    }
                }
            }
        }
        "notify_one" | "notify_all" => {
            let (_, o) = obj(c, op.arg(0));
            let cv = match o {
                Obj::Condvar(cv) => cv,
                _ => panic!("vh: not a condvar"),
            };
            if op.name == "notify_one" {
                cv.notify_one();
            } else {
                cv.notify_all();
            }
            "ok".into()
        }
        // ---- barrier
        "bwait" => {
            let (_, o) = obj(c, op.arg(0));
            let b = match o {
                Obj::Barrier(b) => b,
                _ => panic!("vh: not a barrier"),
            };
            if b.wait().is_leader() {
                "leader".into()
            } else {
                "follower".into()
            }
        }
        // ---- once
        "call_once" | "is_completed" | "once_val" => {
            let (_, o) = obj(c, op.arg(0));
            let (once, cell) = match o {
                Obj::Once(once, cell) => (once, cell),
                _ => panic!("vh: not a once"),
            };
            match op.name.as_str() {
                "call_once" => {
                    let mut ran = false;
                    let k = st.k;
                    once.call_once(|| {
                        ran = true;
                        log(format!("O {} {} init {}", me(), k, op.arg(0)));
                        cell.set(op.num(1));
                    });
                    if ran {
                        "ran".into()
                    } else {
                        "skipped".into()
                    }
                }
                "is_completed" => format!("{}", once.is_completed()),
                _ => format!("v:{}", cell.get()),
            }
        }
        // ---- lazy_static
        "lazy_get" => {
            let (_, o) = obj(c, op.arg(0));
            let idx = match o {
                Obj::Lazy(i) => *i,
                _ => panic!("vh: not a lazy"),
            };
            init_clear();
            let _v: u64 = if idx == 0 { *LAZY0.get() } else { *LAZY1.get() };
            if init_take() {
                "init".into()
            } else {
                "seen".into()
            }
        }
        // ---- thread-locals
        "tls_with" => {
            let (_, o) = obj(c, op.arg(0));
            let idx = match o {
                Obj::Tls(i) => *i,
                _ => panic!("vh: not a tls"),
            };
            tls_try_with(idx, st.k).into()
        }
        // ---- thread::scope (scope_begin / scope_end inside a scope are handled by run_ops)
        "scope_spawn" => match scope {
            None => "noscope".into(),
            Some(s) => {
                let k = op.num(0) as usize;
                let ctx2 = ctx.clone();
                let hs = Ss(transfer_handles(c, st, pc, k));
                let h = s.spawn(move || {
                    let hs = hs;
                    run_task(ctx2, k, hs.0)
                });
                c.threads.lock().unwrap()[k] = Some(h.thread().clone());
                "ok".into()
            }
        },
        "scope_end" => "noscope".into(),
        // ---- wrapper crates (src/pl.rs)
        name if crate::pl::is_op(name) => {
            let (i, o) = obj(c, op.arg(0));
            match o {
                Obj::Pl(o) => crate::pl::exec(o, i, name, &mut st.guards),
                _ => panic!("vh: not a parking_lot object"),
            }
        }
        "wrand" => crate::pl::wrand_op(op.arg(0)),
        "wlazy" => {
            let (_, o) = obj(c, op.arg(0));
            match o {
                Obj::WLazy(i) => crate::pl::wlazy_op(*i),
                _ => panic!("vh: not a wlazy"),
            }
        }
        other if crate::tokio::is_op(other) => crate::tokio::exec(
            &|n: &str| match c.prog.obj_index(n).map(|i| &c.objs[i]) {
                Some(Obj::Tokio(t)) => Some(&**t),
                _ => None,
            },
            st.k,
            op,
        ),
        other => match crate::fut::exec_fut_op(ctx, st, op, pc) {
            Some(r) => r,
            None => panic!("vh: unknown op {other} (task {})", st.k),
        },
    }
}
