//! Interpreter of IR programs on the *real* Shuttle primitives.
use crate::ir::*;
use crate::record::log;
use shuttle::sync::atomic::{AtomicU64, Ordering};
use shuttle::sync::{Mutex, MutexGuard, RwLock, RwLockReadGuard, RwLockWriteGuard};
use shuttle::thread::{self, JoinHandle, Thread};
use std::sync::Arc;

/// wrapper to move non-Send things between Shuttle tasks (everything runs on one OS thread)
pub struct Ss<T>(pub T);
unsafe impl<T> Send for Ss<T> {}
unsafe impl<T> Sync for Ss<T> {}

pub enum Obj {
    Atomic(AtomicU64),
    Mutex(Mutex<u64>),
    RwLock(RwLock<u64>),
}

pub struct Ctx {
    pub prog: Arc<Program>,
    pub objs: Vec<Obj>,
    pub handles: std::sync::Mutex<Vec<Option<JoinHandle<()>>>>,
    pub threads: std::sync::Mutex<Vec<Option<Thread>>>,
}

enum Guard {
    M(usize, MutexGuard<'static, u64>),
    R(usize, RwLockReadGuard<'static, u64>),
    W(usize, RwLockWriteGuard<'static, u64>),
}

struct TaskSt {
    k: usize,
    last: String,
    guards: Vec<Guard>,
}

fn me() -> usize {
    usize::from(shuttle::current::me())
}

fn clock_str() -> String {
    let c = shuttle::current::clock();
    let mut v: Vec<u32> = c.iter().copied().collect();
    while v.last() == Some(&0) {
        v.pop();
    }
    v.iter().map(|x| x.to_string()).collect::<Vec<_>>().join(",")
}

pub fn make_ctx(prog: Arc<Program>) -> Arc<Ss<Ctx>> {
    let mut objs = Vec::new();
    for o in &prog.objs {
        let a0 = o.args.first().map(|s| s.as_str()).unwrap_or("");
        objs.push(match o.kind.as_str() {
            "atomic" => Obj::Atomic(AtomicU64::new(a0.parse().unwrap_or(0))),
            "mutex" => Obj::Mutex(Mutex::new(a0.parse().unwrap_or(0))),
            "rwlock" => Obj::RwLock(RwLock::new(a0.parse().unwrap_or(0))),
            k => panic!("vh: unknown object kind {k}"),
        });
    }
    let n = prog.tasks.len();
    Arc::new(Ss(Ctx {
        prog,
        objs,
        handles: std::sync::Mutex::new((0..n).map(|_| None).collect()),
        threads: std::sync::Mutex::new((0..n).map(|_| None).collect()),
    }))
}

/// The closure handed to `Runner::run` (task 0).
pub fn main_body(prog: Arc<Program>) {
    let ctx = make_ctx(prog);
    ctx.0.threads.lock().unwrap()[0] = Some(thread::current());
    run_task(ctx, 0);
}

fn obj<'a>(ctx: &'a Ctx, name: &str) -> (usize, &'a Obj) {
    let i = ctx.prog.obj_index(name).unwrap_or_else(|| panic!("vh: unknown object {name}"));
    (i, &ctx.objs[i])
}

pub fn run_task(ctx: Arc<Ss<Ctx>>, k: usize) {
    let prog = ctx.0.prog.clone();
    let ops = &prog.tasks[k].ops;
    let mut st = TaskSt {
        k,
        last: String::new(),
        guards: Vec::new(),
    };
    let mut pc = 0usize;
    while pc < ops.len() {
        let op = &ops[pc];
        if op.name == "if" {
            // if <value> skip <n>
            if st.last == op.arg(0) {
                pc += op.num(2) as usize;
            }
            pc += 1;
            continue;
        }
        let res = exec_op(&ctx, &mut st, op);
        log(format!("O {} {} {} {}", me(), k, pc, res));
        if prog.clocks {
            log(format!("C {} {} {}", me(), pc, clock_str()));
        }
        st.last = res;
        pc += 1;
    }
    // guards are dropped in reverse order of acquisition, as Rust would
    while let Some(g) = st.guards.pop() {
        drop(g);
    }
    log(format!("O {} {} end", me(), k));
}

fn exec_op(ctx: &Arc<Ss<Ctx>>, st: &mut TaskSt, op: &Op) -> String {
    let c = &ctx.0;
    match op.name.as_str() {
        "spawn" => {
            let k = op.num(0) as usize;
            let ctx2 = ctx.clone();
            let h = thread::spawn(move || run_task(ctx2, k));
            c.threads.lock().unwrap()[k] = Some(h.thread().clone());
            c.handles.lock().unwrap()[k] = Some(h);
            "ok".into()
        }
        "join" => {
            let k = op.num(0) as usize;
            let h = c.handles.lock().unwrap()[k].take();
            match h {
                Some(h) => {
                    h.join().unwrap();
                    "ok".into()
                }
                None => "nohandle".into(),
            }
        }
        "yield" => {
            thread::yield_now();
            "ok".into()
        }
        "sleep" => {
            thread::sleep(std::time::Duration::from_millis(1));
            "ok".into()
        }
        "rand" => {
            use shuttle::rand::Rng;
            let v: u64 = shuttle::rand::thread_rng().gen();
            format!("v:{}", v % 4)
        }
        "park" => {
            thread::park();
            "ok".into()
        }
        "unpark" => {
            let k = op.num(0) as usize;
            let t = c.threads.lock().unwrap()[k].clone();
            match t {
                Some(t) => {
                    t.unpark();
                    "ok".into()
                }
                None => "nohandle".into(),
            }
        }
        "ctx" => format!("v:{}", shuttle::current::context_switches()),
        "reset_steps" => {
            shuttle::current::reset_step_count();
            "ok".into()
        }
        "panic" => panic!("vp-panic"),
        "obs" => "ok".into(),
        // ---- atomics (u64)
        "aload" | "astore" | "aswap" | "aadd" | "asub" | "aand" | "aor" | "axor" | "anand" | "amax" | "amin"
        | "acas" => {
            let (_, o) = obj(c, op.arg(0));
            let a = match o {
                Obj::Atomic(a) => a,
                _ => panic!("vh: not an atomic"),
            };
            let v = op.num(1);
            let sc = Ordering::SeqCst;
            match op.name.as_str() {
                "aload" => format!("v:{}", a.load(sc)),
                "astore" => {
                    a.store(v, sc);
                    "ok".into()
                }
                "aswap" => format!("v:{}", a.swap(v, sc)),
                "aadd" => format!("v:{}", a.fetch_add(v, sc)),
                "asub" => format!("v:{}", a.fetch_sub(v, sc)),
                "aand" => format!("v:{}", a.fetch_and(v, sc)),
                "aor" => format!("v:{}", a.fetch_or(v, sc)),
                "axor" => format!("v:{}", a.fetch_xor(v, sc)),
                "anand" => format!("v:{}", a.fetch_nand(v, sc)),
                "amax" => format!("v:{}", a.fetch_max(v, sc)),
                "amin" => format!("v:{}", a.fetch_min(v, sc)),
                "acas" => match a.compare_exchange(v, op.num(2), sc, sc) {
                    Ok(x) => format!("ok:{}", x),
                    Err(x) => format!("err:{}", x),
                },
                _ => unreachable!(),
            }
        }
        // ---- mutex
        "lock" | "trylock" => {
            let (i, o) = obj(c, op.arg(0));
            let m = match o {
                Obj::Mutex(m) => m,
                _ => panic!("vh: not a mutex"),
            };
            // SAFETY: the object table outlives every task of the execution
            let m: &'static Mutex<u64> = unsafe { std::mem::transmute(m) };
            if op.name == "lock" {
                match m.lock() {
                    Ok(g) => {
                        let v = *g;
                        st.guards.push(Guard::M(i, g));
                        format!("v:{}", v)
                    }
                    Err(p) => {
                        let g = p.into_inner();
                        let v = *g;
                        st.guards.push(Guard::M(i, g));
                        format!("poisoned:{}", v)
                    }
                }
            } else {
                match m.try_lock() {
                    Ok(g) => {
                        let v = *g;
                        st.guards.push(Guard::M(i, g));
                        format!("v:{}", v)
                    }
                    Err(std::sync::TryLockError::WouldBlock) => "wouldblock".into(),
                    Err(std::sync::TryLockError::Poisoned(p)) => {
                        let g = p.into_inner();
                        let v = *g;
                        st.guards.push(Guard::M(i, g));
                        format!("poisoned:{}", v)
                    }
                }
            }
        }
        "read" | "write" | "tryread" | "trywrite" => {
            let (i, o) = obj(c, op.arg(0));
            let l = match o {
                Obj::RwLock(l) => l,
                _ => panic!("vh: not a rwlock"),
            };
            let l: &'static RwLock<u64> = unsafe { std::mem::transmute(l) };
            match op.name.as_str() {
                "read" => {
                    let g = l.read().unwrap();
                    let v = *g;
                    st.guards.push(Guard::R(i, g));
                    format!("v:{}", v)
                }
                "write" => {
                    let g = l.write().unwrap();
                    let v = *g;
                    st.guards.push(Guard::W(i, g));
                    format!("v:{}", v)
                }
                "tryread" => match l.try_read() {
                    Ok(g) => {
                        let v = *g;
                        st.guards.push(Guard::R(i, g));
                        format!("v:{}", v)
                    }
                    Err(_) => "wouldblock".into(),
                },
                _ => match l.try_write() {
                    Ok(g) => {
                        let v = *g;
                        st.guards.push(Guard::W(i, g));
                        format!("v:{}", v)
                    }
                    Err(_) => "wouldblock".into(),
                },
            }
        }
        // set the protected value through the most recent guard on that object
        "setval" => {
            let (i, _) = obj(c, op.arg(0));
            let v = op.num(1);
            for g in st.guards.iter_mut().rev() {
                match g {
                    Guard::M(j, g) if *j == i => {
                        **g = v;
                        return "ok".into();
                    }
                    Guard::W(j, g) if *j == i => {
                        **g = v;
                        return "ok".into();
                    }
                    _ => {}
                }
            }
            "noguard".into()
        }
        // drop the most recent guard on that object
        "unlock" | "unread" | "unwrite" => {
            let (i, _) = obj(c, op.arg(0));
            let pos = st.guards.iter().rposition(|g| match g {
                Guard::M(j, _) => *j == i && op.name == "unlock",
                Guard::R(j, _) => *j == i && op.name == "unread",
                Guard::W(j, _) => *j == i && op.name == "unwrite",
            });
            match pos {
                Some(p) => {
                    let g = st.guards.remove(p);
                    drop(g);
                    "ok".into()
                }
                None => "noguard".into(),
            }
        }
        other => panic!("vh: unknown op {other} (task {})", st.k),
    }
}
