//! C19: the tokio-compatible primitives of `wrappers/tokio` (crate `shuttle-tokio-impl-inner`) driven
//! from *thread* tasks: every async operation runs under `shuttle::future::block_on`, or — for
//! `t_poll_once <op>` — is polled exactly once with the current task's waker and dropped if still
//! pending (cancellation).  Mirrored call for call by lean/ShuttleModel/Wrap/Tokio*.lean.
//!
//! Handles live in the object table, never on a task's stack: an operation takes the handle it needs
//! out of its slot for its duration (other tasks see `norecv` / `nosender` / `nohandle` meanwhile), so
//! no `RefCell` borrow and no `&mut` is ever held across a Shuttle scheduling point.  The objects are
//! leaked at the end of an execution (their destructors contain scheduling points and must not run
//! outside of one).
use crate::ir::{ObjDecl, Op};
use shuttle::future::block_on;
use shuttle_tokio_impl_inner::sync::futures::Notified;
use shuttle_tokio_impl_inner::sync::mpsc::error::{TryRecvError, TrySendError};
use shuttle_tokio_impl_inner::sync::{
    mpsc, oneshot, watch, Mutex, MutexGuard, Notify, RwLock, RwLockReadGuard, RwLockWriteGuard, Semaphore,
    SemaphorePermit, TryAcquireError,
};
use std::cell::RefCell;
use std::future::Future;
use std::pin::Pin;
use std::rc::Rc;
use std::task::Poll;

pub enum MTx {
    B(mpsc::Sender<u64>),
    U(mpsc::UnboundedSender<u64>),
}
pub enum MRx {
    B(mpsc::Receiver<u64>),
    U(mpsc::UnboundedReceiver<u64>),
}

pub enum RwGuard {
    R(RwLockReadGuard<'static, u64>),
    W(RwLockWriteGuard<'static, u64>),
}

type Handle = Pin<Box<Notified<'static>>>;

pub enum TObj {
    Mpsc {
        bounded: bool,
        /// pool of sender handles; operations use element 0, `tdrop_tx` pops the last one
        tx: RefCell<Vec<Rc<MTx>>>,
        rx: RefCell<Option<MRx>>,
    },
    Oneshot {
        tx: RefCell<Option<oneshot::Sender<u64>>>,
        rx: RefCell<Option<oneshot::Receiver<u64>>>,
    },
    Watch {
        tx: RefCell<Option<watch::Sender<u64>>>,
        rxs: RefCell<Vec<Option<watch::Receiver<u64>>>>,
    },
    Notify {
        n: &'static Notify,
        handles: RefCell<Vec<(String, Option<Handle>)>>,
    },
    Mutex {
        m: &'static Mutex<u64>,
        guards: RefCell<Vec<(usize, MutexGuard<'static, u64>)>>,
    },
    RwLock {
        l: &'static RwLock<u64>,
        guards: RefCell<Vec<(usize, RwGuard)>>,
    },
    Sem {
        s: &'static Semaphore,
        permits: RefCell<Vec<(usize, SemaphorePermit<'static>)>>,
    },
}

pub fn is_kind(k: &str) -> bool {
    matches!(k, "tmpsc" | "toneshot" | "twatch" | "tnotify" | "tmutex" | "trwlock" | "tsem")
}

pub fn is_op(n: &str) -> bool {
    n == "t_poll_once"
        || n.starts_with("ts_")
        || n.starts_with("tm_")
        || n.starts_with("tr_")
        || n.starts_with("os_")
        || n.starts_with("w_")
        || n.starts_with("n_")
        || matches!(
            n,
            "tsend"
                | "ttry_send"
                | "tblocking_send"
                | "trecv"
                | "ttry_recv"
                | "tblocking_recv"
                | "tclose"
                | "tcapacity"
                | "tlen"
                | "tclone_tx"
                | "tdrop_tx"
                | "tdrop_rx"
        )
}

fn is_async(n: &str) -> bool {
    matches!(
        n,
        "tsend" | "trecv" | "os_recv" | "w_changed" | "w_closed" | "n_notified" | "tm_lock" | "tr_read" | "tr_write"
            | "ts_acquire"
    )
}

fn leak<T>(t: T) -> &'static T {
    Box::leak(Box::new(t))
}

/// runs in task 0 at the start of the test body
pub fn make(o: &ObjDecl) -> TObj {
    let a0 = o.args.first().map(|s| s.as_str()).unwrap_or("");
    let n0: u64 = a0.parse().unwrap_or(0);
    match o.kind.as_str() {
        "tmpsc" => {
            if let Some(k) = a0.strip_prefix("cap:") {
                let (tx, rx) = mpsc::channel::<u64>(k.parse().unwrap_or(1));
                TObj::Mpsc {
                    bounded: true,
                    tx: RefCell::new(vec![Rc::new(MTx::B(tx))]),
                    rx: RefCell::new(Some(MRx::B(rx))),
                }
            } else {
                let (tx, rx) = mpsc::unbounded_channel::<u64>();
                TObj::Mpsc {
                    bounded: false,
                    tx: RefCell::new(vec![Rc::new(MTx::U(tx))]),
                    rx: RefCell::new(Some(MRx::U(rx))),
                }
            }
        }
        "toneshot" => {
            let (tx, rx) = oneshot::channel::<u64>();
            TObj::Oneshot {
                tx: RefCell::new(Some(tx)),
                rx: RefCell::new(Some(rx)),
            }
        }
        "twatch" => {
            let nrx: usize = o.args.get(1).and_then(|s| s.parse().ok()).unwrap_or(1).max(1);
            let (tx, rx) = watch::channel::<u64>(n0);
            let mut rxs = vec![];
            for _ in 1..nrx {
                rxs.push(Some(rx.clone()));
            }
            rxs.insert(0, Some(rx));
            TObj::Watch {
                tx: RefCell::new(Some(tx)),
                rxs: RefCell::new(rxs),
            }
        }
        "tnotify" => TObj::Notify {
            n: leak(Notify::new()),
            handles: RefCell::new(vec![]),
        },
        "tmutex" => TObj::Mutex {
            m: leak(Mutex::new(n0)),
            guards: RefCell::new(vec![]),
        },
        "trwlock" => {
            let l = match o.args.get(1).and_then(|s| s.parse::<usize>().ok()) {
                Some(maxr) => RwLock::with_max_readers(n0, maxr),
                None => RwLock::new(n0),
            };
            TObj::RwLock {
                l: leak(l),
                guards: RefCell::new(vec![]),
            }
        }
        _ => TObj::Sem {
            s: leak(Semaphore::new(n0 as usize)),
            permits: RefCell::new(vec![]),
        },
    }
}

/// poll `f` once with the waker of the current task; drop it if it is still pending
fn poll_once<F: Future>(f: F) -> Option<F::Output> {
    let mut f = Box::pin(f);
    let r = block_on(std::future::poll_fn(|cx| match f.as_mut().poll(cx) {
        Poll::Ready(v) => Poll::Ready(Some(v)),
        Poll::Pending => Poll::Ready(None),
    }));
    drop(f);
    r
}

fn drive<F: Future>(once: bool, f: F) -> Option<F::Output> {
    if once {
        poll_once(f)
    } else {
        Some(block_on(f))
    }
}

fn opt_str(v: Option<u64>) -> String {
    match v {
        Some(v) => format!("v:{}", v),
        None => "none".into(),
    }
}

const PD: &str = "pending-dropped";

/// `name args` executed by body `k`; `lookup` resolves an object name
pub fn exec<'a>(lookup: &dyn Fn(&str) -> Option<&'a TObj>, k: usize, op: &Op) -> String {
    let (once, name, args): (bool, &str, &[String]) = if op.name == "t_poll_once" {
        let n = op.arg(0);
        (is_async(n), n, &op.args[1.min(op.args.len())..])
    } else {
        (false, op.name.as_str(), &op.args[..])
    };
    let arg = |i: usize| -> &str { args.get(i).map(|s| s.as_str()).unwrap_or("") };
    let num = |i: usize| -> u64 { arg(i).parse::<u64>().unwrap_or(0) };
    let o = lookup(arg(0)).unwrap_or_else(|| panic!("vh: not a tokio object {}", arg(0)));
    match o {
        TObj::Mpsc { bounded, tx, rx } => mpsc_op(*bounded, tx, rx, once, name, num(1)),
        TObj::Oneshot { tx, rx } => oneshot_op(tx, rx, once, name, num(1)),
        TObj::Watch { tx, rxs } => watch_op(tx, rxs, once, name, num(1)),
        TObj::Notify { n, handles } => notify_op(n, handles, once, name, arg(1)),
        TObj::Mutex { m, guards } => mutex_op(m, guards, once, k, name, num(1)),
        TObj::RwLock { l, guards } => rwlock_op(l, guards, once, k, name, num(1)),
        TObj::Sem { s, permits } => sem_op(s, permits, once, k, name, num(1)),
    }
}

// ------------------------------------------------------------------------------------------- mpsc

fn mpsc_op(
    bounded: bool,
    txs: &RefCell<Vec<Rc<MTx>>>,
    rxs: &RefCell<Option<MRx>>,
    once: bool,
    name: &str,
    v: u64,
) -> String {
    // pool sender 0, shared for the duration of the operation
    let sender = || -> Option<Rc<MTx>> { txs.borrow().first().cloned() };
    match name {
        "tsend" | "tblocking_send" => {
            if name == "tblocking_send" && !bounded {
                return "na".into();
            }
            let tx = match sender() {
                Some(t) => t,
                None => return "nosender".into(),
            };
            let r = match &*tx {
                MTx::U(t) => Some(t.send(v).is_ok()),
                MTx::B(t) => {
                    if name == "tblocking_send" {
                        Some(t.blocking_send(v).is_ok())
                    } else {
                        drive(once, t.send(v)).map(|r| r.is_ok())
                    }
                }
            };
            drop(tx);
            match r {
                None => PD.into(),
                Some(true) => "ok".into(),
                Some(false) => "err:closed".into(),
            }
        }
        "ttry_send" => {
            if !bounded {
                return "na".into();
            }
            let tx = match sender() {
                Some(t) => t,
                None => return "nosender".into(),
            };
            let r = match &*tx {
                MTx::B(t) => t.try_send(v),
                MTx::U(_) => unreachable!(),
            };
            drop(tx);
            match r {
                Ok(()) => "ok".into(),
                Err(TrySendError::Full(_)) => "err:full".into(),
                Err(TrySendError::Closed(_)) => "err:closed".into(),
            }
        }
        "tcapacity" => {
            if !bounded {
                return "na".into();
            }
            match sender() {
                None => "nosender".into(),
                Some(tx) => match &*tx {
                    MTx::B(t) => format!("v:{}", t.capacity()),
                    MTx::U(_) => unreachable!(),
                },
            }
        }
        "tclone_tx" => {
            let tx = match sender() {
                Some(t) => t,
                None => return "nosender".into(),
            };
            let c = match &*tx {
                MTx::B(t) => MTx::B(t.clone()),
                MTx::U(t) => MTx::U(t.clone()),
            };
            drop(tx);
            txs.borrow_mut().push(Rc::new(c));
            "ok".into()
        }
        "tdrop_tx" => {
            let t = {
                let mut g = txs.borrow_mut();
                if g.is_empty() {
                    return "nosender".into();
                }
                if g.len() == 1 && Rc::strong_count(&g[0]) > 1 {
                    return "busy".into();
                }
                g.pop().unwrap()
            };
            // the only reference: the `Sender` is dropped here (`drop_sender`, a scheduling point
            // when it is the last one)
            drop(t);
            "ok".into()
        }
        "trecv" | "ttry_recv" | "tblocking_recv" | "tclose" | "tlen" | "tdrop_rx" => {
            let taken = rxs.borrow_mut().take();
            let mut rx = match taken {
                Some(r) => r,
                None => return "norecv".into(),
            };
            let res: String = match name {
                "trecv" => {
                    let r = match &mut rx {
                        MRx::B(r) => drive(once, r.recv()),
                        MRx::U(r) => drive(once, r.recv()),
                    };
                    match r {
                        None => PD.into(),
                        Some(x) => opt_str(x),
                    }
                }
                "ttry_recv" => {
                    let r = match &mut rx {
                        MRx::B(r) => r.try_recv(),
                        MRx::U(r) => r.try_recv(),
                    };
                    match r {
                        Ok(v) => format!("v:{}", v),
                        Err(TryRecvError::Empty) => "err:empty".into(),
                        Err(TryRecvError::Disconnected) => "err:disconnected".into(),
                    }
                }
                "tblocking_recv" => opt_str(match &mut rx {
                    MRx::B(r) => r.blocking_recv(),
                    MRx::U(r) => r.blocking_recv(),
                }),
                "tclose" => {
                    match &mut rx {
                        MRx::B(r) => r.close(),
                        MRx::U(r) => r.close(),
                    }
                    "ok".into()
                }
                "tlen" => format!(
                    "v:{}",
                    match &rx {
                        MRx::B(r) => r.len(),
                        MRx::U(r) => r.len(),
                    }
                ),
                _ => {
                    drop(rx);
                    return "ok".into();
                }
            };
            *rxs.borrow_mut() = Some(rx);
            res
        }
        other => panic!("vh: unknown mpsc op {other}"),
    }
}

// ---------------------------------------------------------------------------------------- oneshot

fn os_res(r: Result<u64, oneshot::error::RecvError>) -> String {
    match r {
        Ok(v) => format!("v:{}", v),
        Err(_) => "err:closed".into(),
    }
}

fn oneshot_op(
    txs: &RefCell<Option<oneshot::Sender<u64>>>,
    rxs: &RefCell<Option<oneshot::Receiver<u64>>>,
    once: bool,
    name: &str,
    v: u64,
) -> String {
    match name {
        "os_send" | "os_drop_tx" => {
            let t = txs.borrow_mut().take();
            match t {
                None => "nosender".into(),
                Some(t) => {
                    if name == "os_send" {
                        match t.send(v) {
                            Ok(()) => "ok".into(),
                            Err(_) => "err:closed".into(),
                        }
                    } else {
                        drop(t);
                        "ok".into()
                    }
                }
            }
        }
        "os_is_closed" => match txs.borrow().as_ref() {
            None => "nosender".into(),
            Some(t) => format!("{}", t.is_closed()),
        },
        "os_recv" | "os_poll" | "os_try_recv" | "os_close" | "os_drop_rx" => {
            let taken = rxs.borrow_mut().take();
            let mut rx = match taken {
                Some(r) => r,
                None => return "norecv".into(),
            };
            let res: String = match name {
                "os_recv" => {
                    // consumes the receiver (`rx.await` / `blocking_recv(self)`)
                    return if once {
                        match poll_once(rx) {
                            None => PD.into(),
                            Some(r) => os_res(r),
                        }
                    } else {
                        os_res(rx.blocking_recv())
                    };
                }
                "os_poll" => {
                    let r = block_on(std::future::poll_fn(|cx| Poll::Ready(Pin::new(&mut rx).poll(cx))));
                    match r {
                        Poll::Pending => "pending".into(),
                        Poll::Ready(r) => os_res(r),
                    }
                }
                "os_try_recv" => match rx.try_recv() {
                    Ok(v) => format!("v:{}", v),
                    Err(oneshot::error::TryRecvError::Empty) => "err:empty".into(),
                    Err(oneshot::error::TryRecvError::Closed) => "err:closed".into(),
                },
                "os_close" => {
                    rx.close();
                    "ok".into()
                }
                _ => {
                    drop(rx);
                    return "ok".into();
                }
            };
            *rxs.borrow_mut() = Some(rx);
            res
        }
        other => panic!("vh: unknown oneshot op {other}"),
    }
}

// ------------------------------------------------------------------------------------------ watch

fn watch_op(
    txs: &RefCell<Option<watch::Sender<u64>>>,
    rxs: &RefCell<Vec<Option<watch::Receiver<u64>>>>,
    once: bool,
    name: &str,
    a: u64,
) -> String {
    match name {
        "w_send" | "w_is_closed" | "w_closed" | "w_drop_tx" => {
            let taken = txs.borrow_mut().take();
            let tx = match taken {
                Some(t) => t,
                None => return "nosender".into(),
            };
            let res: String = match name {
                "w_send" => match tx.send(a) {
                    Ok(()) => "ok".into(),
                    Err(_) => "err:closed".into(),
                },
                "w_is_closed" => format!("{}", tx.is_closed()),
                "w_closed" => match drive(once, tx.closed()) {
                    None => PD.into(),
                    Some(()) => "ok".into(),
                },
                _ => {
                    drop(tx);
                    return "ok".into();
                }
            };
            *txs.borrow_mut() = Some(tx);
            res
        }
        "w_borrow" | "w_borrow_and_update" | "w_has_changed" | "w_changed" | "w_drop_rx" => {
            let r = a as usize;
            let taken = {
                let mut g = rxs.borrow_mut();
                if r < g.len() {
                    g[r].take()
                } else {
                    None
                }
            };
            let mut rx = match taken {
                Some(x) => x,
                None => return "norecv".into(),
            };
            let res: String = match name {
                "w_borrow" => {
                    let v = *rx.borrow();
                    format!("v:{}", v)
                }
                "w_borrow_and_update" => {
                    let v = *rx.borrow_and_update();
                    format!("v:{}", v)
                }
                "w_has_changed" => match rx.has_changed() {
                    Ok(b) => format!("{}", b),
                    Err(_) => "err:closed".into(),
                },
                "w_changed" => match drive(once, rx.changed()) {
                    None => PD.into(),
                    Some(Ok(())) => "ok".into(),
                    Some(Err(_)) => "err:closed".into(),
                },
                _ => {
                    drop(rx);
                    return "ok".into();
                }
            };
            rxs.borrow_mut()[r] = Some(rx);
            res
        }
        other => panic!("vh: unknown watch op {other}"),
    }
}

// ----------------------------------------------------------------------------------------- notify

fn notify_op(
    n: &'static Notify,
    handles: &RefCell<Vec<(String, Option<Handle>)>>,
    once: bool,
    name: &str,
    h: &str,
) -> String {
    match name {
        "n_notified" => match drive(once, n.notified()) {
            None => PD.into(),
            Some(()) => "ok".into(),
        },
        "n_notify_one" => {
            n.notify_one();
            "ok".into()
        }
        "n_notify_waiters" => {
            n.notify_waiters();
            "ok".into()
        }
        "n_new" => {
            if handles.borrow().iter().any(|e| e.0 == h) {
                return "exists".into();
            }
            let f: Handle = Box::pin(n.notified());
            handles.borrow_mut().push((h.to_string(), Some(f)));
            "ok".into()
        }
        "n_enable" | "n_poll" | "n_await" => {
            let taken = {
                let mut g = handles.borrow_mut();
                match g.iter_mut().find(|e| e.0 == h) {
                    Some(e) => e.1.take(),
                    None => None,
                }
            };
            let mut f = match taken {
                Some(f) => f,
                None => return "nohandle".into(),
            };
            let res: String = match name {
                "n_enable" => format!("{}", f.as_mut().enable()),
                "n_poll" => {
                    let r = block_on(std::future::poll_fn(|cx| Poll::Ready(f.as_mut().poll(cx).is_ready())));
                    if r {
                        "ready".into()
                    } else {
                        "pending".into()
                    }
                }
                _ => {
                    block_on(f.as_mut());
                    "ok".into()
                }
            };
            let mut g = handles.borrow_mut();
            if let Some(e) = g.iter_mut().find(|e| e.0 == h) {
                e.1 = Some(f);
            }
            res
        }
        "n_drop" => {
            let f = {
                let mut g = handles.borrow_mut();
                match g.iter().position(|e| e.0 == h && e.1.is_some()) {
                    Some(i) => g.remove(i).1,
                    None => None,
                }
            };
            match f {
                Some(f) => {
                    drop(f);
                    "ok".into()
                }
                None => "nohandle".into(),
            }
        }
        other => panic!("vh: unknown notify op {other}"),
    }
}

// ------------------------------------------------------------------------------------------ locks

fn mutex_op(
    m: &'static Mutex<u64>,
    guards: &RefCell<Vec<(usize, MutexGuard<'static, u64>)>>,
    once: bool,
    k: usize,
    name: &str,
    v: u64,
) -> String {
    match name {
        "tm_lock" => match drive(once, m.lock()) {
            None => PD.into(),
            Some(g) => {
                let x = *g;
                guards.borrow_mut().push((k, g));
                format!("v:{}", x)
            }
        },
        "tm_try_lock" => match m.try_lock() {
            Ok(g) => {
                let x = *g;
                guards.borrow_mut().push((k, g));
                format!("v:{}", x)
            }
            Err(_) => "wouldblock".into(),
        },
        "tm_set" => {
            let mut gs = guards.borrow_mut();
            match gs.iter_mut().rev().find(|e| e.0 == k) {
                Some(e) => {
                    *e.1 = v;
                    "ok".into()
                }
                None => "noguard".into(),
            }
        }
        "tm_unlock" => {
            let g = {
                let mut gs = guards.borrow_mut();
                match gs.iter().rposition(|e| e.0 == k) {
                    Some(i) => Some(gs.remove(i)),
                    None => None,
                }
            };
            match g {
                Some(g) => {
                    drop(g);
                    "ok".into()
                }
                None => "noguard".into(),
            }
        }
        other => panic!("vh: unknown tokio mutex op {other}"),
    }
}

fn rwlock_op(
    l: &'static RwLock<u64>,
    guards: &RefCell<Vec<(usize, RwGuard)>>,
    once: bool,
    k: usize,
    name: &str,
    v: u64,
) -> String {
    match name {
        "tr_read" => match drive(once, l.read()) {
            None => PD.into(),
            Some(g) => {
                let x = *g;
                guards.borrow_mut().push((k, RwGuard::R(g)));
                format!("v:{}", x)
            }
        },
        "tr_write" => match drive(once, l.write()) {
            None => PD.into(),
            Some(g) => {
                let x = *g;
                guards.borrow_mut().push((k, RwGuard::W(g)));
                format!("v:{}", x)
            }
        },
        "tr_try_read" => match l.try_read() {
            Ok(g) => {
                let x = *g;
                guards.borrow_mut().push((k, RwGuard::R(g)));
                format!("v:{}", x)
            }
            Err(_) => "wouldblock".into(),
        },
        "tr_try_write" => match l.try_write() {
            Ok(g) => {
                let x = *g;
                guards.borrow_mut().push((k, RwGuard::W(g)));
                format!("v:{}", x)
            }
            Err(_) => "wouldblock".into(),
        },
        "tr_set" => {
            let mut gs = guards.borrow_mut();
            for e in gs.iter_mut().rev() {
                if e.0 == k {
                    if let RwGuard::W(g) = &mut e.1 {
                        **g = v;
                        return "ok".into();
                    }
                }
            }
            "noguard".into()
        }
        "tr_unread" | "tr_unwrite" | "tr_downgrade" => {
            let want_w = name != "tr_unread";
            let g = {
                let mut gs = guards.borrow_mut();
                match gs.iter().rposition(|e| e.0 == k && matches!(e.1, RwGuard::W(_)) == want_w) {
                    Some(i) => Some(gs.remove(i).1),
                    None => None,
                }
            };
            match g {
                None => "noguard".into(),
                Some(g) => {
                    if name == "tr_downgrade" {
                        if let RwGuard::W(w) = g {
                            // `downgrade` = `release(max_readers - 1)`, a scheduling point
                            let r = w.downgrade();
                            guards.borrow_mut().push((k, RwGuard::R(r)));
                        }
                    } else {
                        drop(g);
                    }
                    "ok".into()
                }
            }
        }
        other => panic!("vh: unknown tokio rwlock op {other}"),
    }
}

fn sem_op(
    s: &'static Semaphore,
    permits: &RefCell<Vec<(usize, SemaphorePermit<'static>)>>,
    once: bool,
    k: usize,
    name: &str,
    n: u64,
) -> String {
    match name {
        "ts_acquire" => match drive(once, s.acquire_many(n as u32)) {
            None => PD.into(),
            Some(Ok(p)) => {
                permits.borrow_mut().push((k, p));
                "ok".into()
            }
            Some(Err(_)) => "closed".into(),
        },
        "ts_try_acquire" => match s.try_acquire_many(n as u32) {
            Ok(p) => {
                permits.borrow_mut().push((k, p));
                "ok".into()
            }
            Err(TryAcquireError::NoPermits) => "nopermits".into(),
            Err(TryAcquireError::Closed) => "closed".into(),
        },
        "ts_release" | "ts_forget" => {
            let p = {
                let mut ps = permits.borrow_mut();
                match ps.iter().rposition(|e| e.0 == k) {
                    Some(i) => Some(ps.remove(i).1),
                    None => None,
                }
            };
            match p {
                None => "nopermit".into(),
                Some(p) => {
                    if name == "ts_forget" {
                        p.forget();
                    } else {
                        drop(p);
                    }
                    "ok".into()
                }
            }
        }
        "ts_add" => {
            s.add_permits(n as usize);
            "ok".into()
        }
        "ts_close" => {
            s.close();
            "ok".into()
        }
        "ts_avail" => format!("v:{}", s.available_permits()),
        "ts_is_closed" => format!("{}", s.is_closed()),
        other => panic!("vh: unknown tokio semaphore op {other}"),
    }
}
